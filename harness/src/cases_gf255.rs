//! Executable postconditions for GF255<MQ> (contracts in contracts/gf255_m64_*.vrs).
use crate::{Case, Op};
use crate::gen::split;
use crate::ora::*;
use crrl::backend::GF255;
use num_bigint::BigInt;

fn el<const MQ: u64>(b: &[u8]) -> GF255<MQ> {
    let l = |i: usize| u64::from_le_bytes(b[8 * i..8 * i + 8].try_into().unwrap());
    GF255::<MQ>::w64le(l(0), l(1), l(2), l(3))
}
fn val<const MQ: u64>(x: &GF255<MQ>) -> BigInt { limbs_to_int(&x.verif_limbs()) }
fn fe<const MQ: u64>(x: &GF255<MQ>) -> BigInt { emod(&val(x), &q255(MQ)) }
fn u32of(b: &[u8]) -> u32 { u32::from_le_bytes(b[..4].try_into().unwrap()) }
fn u64of(b: &[u8]) -> u64 { u64::from_le_bytes(b[..8].try_into().unwrap()) }

// Operand pairs whose 512-bit integer product lies just above / below a multiple of 2^(64 j):
// a carry dropped in the last accumulation pass of a schoolbook product only shows up there.
fn near_boundary_pair(r: &mut crate::gen::Rng) -> Vec<u8> {
    use crate::gen::limb_palette;
    let mut bl = [0u64; 4];
    for i in 0..4 { bl[i] = limb_palette(r, 19); }
    if bl[3] == 0 { bl[3] = 1u64 << r.below(64); }
    if r.below(2) == 0 { bl[3] |= 1u64 << 63; }
    let b = limbs_to_int(&bl);
    let j = 4 + r.below(4) as u32;                 // boundary 2^(64 j), j = 4..7
    let k = BigInt::from(1 + r.below(1u64 << 20)) ;
    let k = if r.below(2) == 0 { k } else { BigInt::from(limb_palette(r, 19)) + 1 };
    let target = k << (64 * j);
    let mut a = (&target + &b - 1) / &b;           // ceil
    a += BigInt::from(r.below(5) as i64 - 2);
    if a < BigInt::from(0) || a >= pow2(256) { a = pow2(256) - 1 - BigInt::from(r.below(1000)); }
    let mut v = int_to_le(&a, 32);
    if r.below(2) == 0 { v.extend_from_slice(&int_to_le(&b, 32)); } else { let mut w = int_to_le(&b, 32); w.extend_from_slice(&v); v = w; }
    v
}
fn near_boundary_square(r: &mut crate::gen::Rng) -> Vec<u8> {
    use crate::gen::limb_palette;
    let j = 4 + r.below(4) as u32;
    let k = if r.below(2) == 0 { BigInt::from(1 + r.below(1u64 << 30)) } else { BigInt::from(limb_palette(r, 19)) + 1 };
    let target = k << (64 * j);
    let mut a = target.sqrt() + BigInt::from(r.below(5) as i64 - 2);
    if a < BigInt::from(0) || a >= pow2(256) { a = pow2(256) - 1 - BigInt::from(r.below(1000)); }
    int_to_le(&a, 32)
}
fn pair_specials() -> Vec<Vec<u8>> {
    let mut v = Vec::new();
    let sp = crate::gen::special_values_255(19);
    for a in sp.iter() { for b in sp.iter() { let mut x = int_to_le(a, 32); x.extend_from_slice(&int_to_le(b, 32)); v.push(x); } }
    v
}
fn pair_random(r: &mut crate::gen::Rng) -> Vec<u8> {
    if r.below(3) != 0 { return near_boundary_pair(r); }
    let l4 = Op::Limbs4 { mq: 19 };
    let mut v = crate::gen::random(&l4, r); v.extend_from_slice(&crate::gen::random(&l4, r)); v
}
fn sq_specials() -> Vec<Vec<u8>> { crate::gen::special_values_255(19).iter().map(|x| int_to_le(x, 32)).collect() }
fn sq_random(r: &mut crate::gen::Rng) -> Vec<u8> {
    if r.below(3) != 0 { return near_boundary_square(r); }
    crate::gen::random(&Op::Limbs4 { mq: 19 }, r)
}

fn chk(cond: bool, msg: impl FnOnce() -> String) -> Result<(), String> { if cond { Ok(()) } else { Err(msg()) } }

fn reg<const MQ: u64>(v: &mut Vec<Case>, tag: &str) {
    let l4 = Op::Limbs4 { mq: MQ };
    let q = q255(MQ);
    macro_rules! case {
        ($id:expr, $desc:expr, $ops:expr, $f:expr) => {
            v.push(Case { id: format!("{}@{}", $id, tag), describe: $desc, ops: $ops, run: Box::new($f) });
        };
    }
    let ops2 = vec![l4.clone(), l4.clone()];
    let ops1 = vec![l4.clone()];

    { let q = q.clone(); let ops = ops2.clone();
      case!("gf255_add", "fe(a+b) == (fe(a)+fe(b)) mod q", ops2.clone(), move |inp: &[u8]| {
        let o = split(&ops, inp).ok_or("bad input length")?;
        let (a, b) = (el::<MQ>(o[0]), el::<MQ>(o[1]));
        let r = a + b;
        chk(fe(&r) == emod(&(fe(&a) + fe(&b)), &q), || format!("add: limbs out {:x?}", r.verif_limbs()))
      }); }
    { let q = q.clone(); let ops = ops2.clone();
      case!("gf255_sub", "fe(a-b) == (fe(a)-fe(b)) mod q", ops2.clone(), move |inp: &[u8]| {
        let o = split(&ops, inp).ok_or("bad input length")?;
        let (a, b) = (el::<MQ>(o[0]), el::<MQ>(o[1]));
        let r = a - b;
        chk(fe(&r) == emod(&(fe(&a) - fe(&b)), &q), || format!("sub: limbs out {:x?}", r.verif_limbs()))
      }); }
    { let q = q.clone(); let ops = ops1.clone();
      case!("gf255_neg", "fe(-a) == (-fe(a)) mod q", ops1.clone(), move |inp: &[u8]| {
        let o = split(&ops, inp).ok_or("bad input length")?;
        let a = el::<MQ>(o[0]);
        let r = -a;
        chk(fe(&r) == emod(&(-fe(&a)), &q), || format!("neg: limbs out {:x?}", r.verif_limbs()))
      }); }
    { let q = q.clone(); let ops = ops1.clone();
      case!("gf255_half", "2*fe(a/2) == fe(a) mod q", ops1.clone(), move |inp: &[u8]| {
        let o = split(&ops, inp).ok_or("bad input length")?;
        let a = el::<MQ>(o[0]);
        let r = a.half();
        chk(emod(&(fe(&r) * 2), &q) == fe(&a), || format!("half: limbs out {:x?}", r.verif_limbs()))
      }); }
    macro_rules! mulk { ($id:expr, $m:ident, $k:expr) => {
        { let q = q.clone(); let ops = ops1.clone();
          case!($id, "fe(k*a) == k*fe(a) mod q", ops1.clone(), move |inp: &[u8]| {
            let o = split(&ops, inp).ok_or("bad input length")?;
            let a = el::<MQ>(o[0]);
            let r = a.$m();
            chk(fe(&r) == emod(&(fe(&a) * $k), &q), || format!("mul{}: limbs out {:x?}", $k, r.verif_limbs()))
          }); }
    } }
    mulk!("gf255_mul2", mul2, 2); mulk!("gf255_mul4", mul4, 4); mulk!("gf255_mul8", mul8, 8);
    mulk!("gf255_mul16", mul16, 16); mulk!("gf255_mul32", mul32, 32);
    { let q = q.clone(); let ops = vec![l4.clone(), Op::U32];
      case!("gf255_mul_small", "fe(a*x) == x*fe(a) mod q", ops.clone(), move |inp: &[u8]| {
        let o = split(&ops, inp).ok_or("bad input length")?;
        let a = el::<MQ>(o[0]); let x = u32of(o[1]);
        let r = a.mul_small(x);
        chk(fe(&r) == emod(&(fe(&a) * BigInt::from(x)), &q), || format!("mul_small: limbs out {:x?}", r.verif_limbs()))
      }); }
    { let q = q.clone(); let ops = ops2.clone();
      case!("gf255_mul", "fe(a*b) == fe(a)*fe(b) mod q", vec![Op::Custom { len: Some(64), specials: pair_specials, random: pair_random }], move |inp: &[u8]| {
        let o = split(&ops, inp).ok_or("bad input length")?;
        let (a, b) = (el::<MQ>(o[0]), el::<MQ>(o[1]));
        let r = a * b;
        chk(fe(&r) == emod(&(fe(&a) * fe(&b)), &q), || format!("mul: limbs out {:x?}", r.verif_limbs()))
      }); }
    { let q = q.clone(); let ops = ops1.clone();
      case!("gf255_square", "fe(a^2) == fe(a)^2 mod q", vec![Op::Custom { len: Some(32), specials: sq_specials, random: sq_random }], move |inp: &[u8]| {
        let o = split(&ops, inp).ok_or("bad input length")?;
        let a = el::<MQ>(o[0]);
        let r = a.square();
        chk(fe(&r) == emod(&(fe(&a) * fe(&a)), &q), || format!("square: limbs out {:x?}", r.verif_limbs()))
      }); }
    { let q = q.clone(); let ops = vec![l4.clone(), Op::U32];
      case!("gf255_xsquare", "fe(xsquare(a,n)) == fe(a)^(2^n) mod q (n reduced mod 70 by the case)", ops.clone(), move |inp: &[u8]| {
        let o = split(&ops, inp).ok_or("bad input length")?;
        let a = el::<MQ>(o[0]); let n = u32of(o[1]) % 70;
        let r = a.xsquare(n);
        chk(fe(&r) == modpow(&fe(&a), &pow2(n), &q), || format!("xsquare({}): limbs out {:x?}", n, r.verif_limbs()))
      }); }
    { let q = q.clone(); let ops = ops1.clone();
      case!("gf255_normalized", "limbs(normalized(a)) == fe(a) (canonical)", ops1.clone(), move |inp: &[u8]| {
        let o = split(&ops, inp).ok_or("bad input length")?;
        let a = el::<MQ>(o[0]);
        let r = a.verif_normalized();
        chk(val(&r) == emod(&val(&a), &q), || format!("normalized: limbs out {:x?}", r.verif_limbs()))
      }); }
    { let ops = vec![l4.clone(), l4.clone(), Op::U32];
      case!("gf255_cond", "set_cond copies exactly iff ctl==0xFFFFFFFF (ctl in {0,0xFFFFFFFF})", vec![l4.clone(), l4.clone(), Op::Ctl], move |inp: &[u8]| {
        let o = split(&ops, inp).ok_or("bad input length")?;
        let (mut a, b, ctl) = (el::<MQ>(o[0]), el::<MQ>(o[1]), u32of(o[2]));
        if ctl != 0 && ctl != 0xFFFFFFFF { return Ok(()); }
        let a0 = a.verif_limbs();
        a.set_cond(&b, ctl);
        let want = if ctl == 0 { a0 } else { b.verif_limbs() };
        chk(a.verif_limbs() == want, || format!("set_cond: got {:x?} want {:x?}", a.verif_limbs(), want))
      }); }
    { let ops = vec![l4.clone(), l4.clone(), Op::U32];
      case!("gf255_select", "select returns a0 (ctl=0) or a1 (ctl=0xFFFFFFFF) exactly", vec![l4.clone(), l4.clone(), Op::Ctl], move |inp: &[u8]| {
        let o = split(&ops, inp).ok_or("bad input length")?;
        let (a, b, ctl) = (el::<MQ>(o[0]), el::<MQ>(o[1]), u32of(o[2]));
        if ctl != 0 && ctl != 0xFFFFFFFF { return Ok(()); }
        let r = GF255::<MQ>::select(&a, &b, ctl);
        let want = if ctl == 0 { a.verif_limbs() } else { b.verif_limbs() };
        chk(r.verif_limbs() == want, || format!("select: got {:x?} want {:x?}", r.verif_limbs(), want))
      }); }
    { let ops = vec![l4.clone(), l4.clone(), Op::U32];
      case!("gf255_cswap", "cswap exchanges exactly iff ctl==0xFFFFFFFF", vec![l4.clone(), l4.clone(), Op::Ctl], move |inp: &[u8]| {
        let o = split(&ops, inp).ok_or("bad input length")?;
        let (mut a, mut b, ctl) = (el::<MQ>(o[0]), el::<MQ>(o[1]), u32of(o[2]));
        if ctl != 0 && ctl != 0xFFFFFFFF { return Ok(()); }
        let (a0, b0) = (a.verif_limbs(), b.verif_limbs());
        GF255::<MQ>::cswap(&mut a, &mut b, ctl);
        let (wa, wb) = if ctl == 0 { (a0, b0) } else { (b0, a0) };
        chk(a.verif_limbs() == wa && b.verif_limbs() == wb, || format!("cswap: got {:x?},{:x?}", a.verif_limbs(), b.verif_limbs()))
      }); }
    { let ops = ops1.clone();
      case!("gf255_iszero", "iszero == 0xFFFFFFFF iff fe(a)==0 else 0", ops1.clone(), move |inp: &[u8]| {
        let o = split(&ops, inp).ok_or("bad input length")?;
        let a = el::<MQ>(o[0]);
        let r = a.iszero();
        let want = if fe(&a) == BigInt::from(0) { 0xFFFFFFFFu32 } else { 0 };
        chk(r == want, || format!("iszero: got {:08x} want {:08x}", r, want))
      }); }
    { let ops = ops2.clone();
      case!("gf255_equals", "equals == 0xFFFFFFFF iff fe(a)==fe(b) else 0", ops2.clone(), move |inp: &[u8]| {
        let o = split(&ops, inp).ok_or("bad input length")?;
        let (a, b) = (el::<MQ>(o[0]), el::<MQ>(o[1]));
        let r = a.equals(b);
        let want = if fe(&a) == fe(&b) { 0xFFFFFFFFu32 } else { 0 };
        chk(r == want, || format!("equals: got {:08x} want {:08x}", r, want))
      }); }
    { let ops = ops1.clone();
      case!("gf255_encode", "encode32(a) == LE32(fe(a))", ops1.clone(), move |inp: &[u8]| {
        let o = split(&ops, inp).ok_or("bad input length")?;
        let a = el::<MQ>(o[0]);
        let r = a.encode32();
        let want = int_to_le(&fe(&a), 32);
        chk(r[..] == want[..], || format!("encode32: got {} want {}", hex(&r), hex(&want)))
      }); }
    { let q = q.clone(); let ops = vec![Op::VarBytes { max: 40, mq: MQ }];
      case!("gf255_decode_ct", "set_decode_ct: (ok,value) iff len==32 && LE(buf)<q else (0, zero limbs)", ops.clone(), move |inp: &[u8]| {
        // in-place variant started from a non-zero previous value
        let mut r = GF255::<MQ>::w64le(0x1234, 5, 6, 7);
        let cc = r.set_decode_ct(inp);
        let (r2, cc2) = GF255::<MQ>::decode_ct(inp);
        if cc2 != cc || r2.verif_limbs() != r.verif_limbs() { return Err(format!("set_decode_ct and decode_ct disagree: {:08x}/{:08x} {:x?}/{:x?}", cc, cc2, r.verif_limbs(), r2.verif_limbs())); }
        let n = le_to_int(inp);
        if inp.len() == 32 && n < q {
            chk(cc == 0xFFFFFFFF && val(&r) == n, || format!("decode_ct(valid): cc={:08x} limbs {:x?}", cc, r.verif_limbs()))
        } else {
            chk(cc == 0 && r.verif_limbs() == [0u64; 4], || format!("decode_ct(invalid): cc={:08x} limbs {:x?}", cc, r.verif_limbs()))
        }
      }); }
    { let ops = vec![Op::Raw(32 * 48), Op::U32];
      case!("gf255_lookup16_x3", "lookup16_x3: entries 3j..3j+2 for j<16, zeros otherwise (all u32 j)", ops.clone(), move |inp: &[u8]| {
        let o = split(&ops, inp).ok_or("bad input length")?;
        let mut tab = [GF255::<MQ>::ZERO; 48];
        for i in 0..48 { tab[i] = el::<MQ>(&o[0][32 * i..32 * i + 32]); }
        let j = u32of(o[1]);
        let r = GF255::<MQ>::lookup16_x3(&tab, j);
        for k in 0..3 {
            let want = if j < 16 { tab[3 * j as usize + k].verif_limbs() } else { [0u64; 4] };
            if r[k].verif_limbs() != want { return Err(format!("lookup16_x3 j={:#x} k={} got {:x?}", j, k, r[k].verif_limbs())); }
        }
        Ok(())
      }); }
    { let ops = vec![Op::Raw(32 * 64), Op::U32];
      case!("gf255_lookup16_x4", "lookup16_x4: entries 4j..4j+3 for j<16, zeros otherwise (all u32 j)", ops.clone(), move |inp: &[u8]| {
        let o = split(&ops, inp).ok_or("bad input length")?;
        let mut tab = [GF255::<MQ>::ZERO; 64];
        for i in 0..64 { tab[i] = el::<MQ>(&o[0][32 * i..32 * i + 32]); }
        let j = u32of(o[1]);
        let r = GF255::<MQ>::lookup16_x4(&tab, j);
        for k in 0..4 {
            let want = if j < 16 { tab[4 * j as usize + k].verif_limbs() } else { [0u64; 4] };
            if r[k].verif_limbs() != want { return Err(format!("lookup16_x4 j={:#x} k={} got {:x?}", j, k, r[k].verif_limbs())); }
        }
        Ok(())
      }); }
    { let q = q.clone(); let ops = vec![Op::VarBytes { max: 40, mq: MQ }];
      case!("gf255_decode_opt", "decode: Some(v) iff len==32 && LE(buf)<q, v == LE(buf); encode(v) == buf", ops.clone(), move |inp: &[u8]| {
        let r = GF255::<MQ>::decode(inp);
        let n = le_to_int(inp);
        match r {
            Some(v) => chk(inp.len() == 32 && n < q && fe(&v) == n && v.encode32()[..] == inp[..], || format!("decode accepted {}", hex(inp))),
            None => chk(!(inp.len() == 32 && n < q), || format!("decode rejected canonical {}", hex(inp))),
        }
      }); }
    { let q = q.clone(); let ops = vec![Op::VarBytes { max: 130, mq: MQ }];
      case!("gf255_decode_reduce", "fe(decode_reduce(buf)) == LE(buf) mod q, any length", ops.clone(), move |inp: &[u8]| {
        let r = GF255::<MQ>::decode_reduce(inp);
        chk(fe(&r) == emod(&le_to_int(inp), &q), || format!("decode_reduce: limbs {:x?}", r.verif_limbs()))
      }); }
    { let q = q.clone(); let ops = ops1.clone();
      case!("gf255_roundtrip", "decode(encode(a)) == a as field element", ops1.clone(), move |inp: &[u8]| {
        let o = split(&ops, inp).ok_or("bad input length")?;
        let a = el::<MQ>(o[0]);
        let e = a.encode32();
        let (r, cc) = GF255::<MQ>::decode32(&e);
        chk(cc == 0xFFFFFFFF && fe(&r) == fe(&a) && le_to_int(&e) < q, || format!("roundtrip: enc {}", hex(&e)))
      }); }
    { let q = q.clone(); let ops = vec![Op::U64, Op::U64];
      case!("gf255_from_int", "from_i32/i64/i128/u32/u64/u128(x) == x mod q", ops.clone(), move |inp: &[u8]| {
        let o = split(&ops, inp).ok_or("bad input length")?;
        let (lo, hi) = (u64of(o[0]), u64of(o[1]));
        let x128 = ((hi as u128) << 64) | lo as u128;
        chk(fe(&GF255::<MQ>::from_i32(lo as i32)) == emod(&BigInt::from(lo as i32), &q), || "from_i32".into())?;
        chk(fe(&GF255::<MQ>::from_u32(lo as u32)) == BigInt::from(lo as u32), || "from_u32".into())?;
        chk(fe(&GF255::<MQ>::from_i64(lo as i64)) == emod(&BigInt::from(lo as i64), &q), || "from_i64".into())?;
        chk(fe(&GF255::<MQ>::from_u64(lo)) == BigInt::from(lo), || "from_u64".into())?;
        chk(fe(&GF255::<MQ>::from_i128(x128 as i128)) == emod(&BigInt::from(x128 as i128), &q), || "from_i128".into())?;
        chk(fe(&GF255::<MQ>::from_u128(x128)) == BigInt::from(x128), || "from_u128".into())
      }); }
    { let q = q.clone(); let ops = vec![l4.clone(), l4.clone(), Op::SCoef { bits: 62 }, Op::SCoef { bits: 62 }];
      case!("gf255_lin", "fe(lin(u,v,f,g)) == f*fe(u)+g*fe(v) mod q, |f|,|g| <= 2^62", ops.clone(), move |inp: &[u8]| {
        let o = split(&ops, inp).ok_or("bad input length")?;
        let (u, w, f, g) = (el::<MQ>(o[0]), el::<MQ>(o[1]), u64of(o[2]), u64of(o[3]));
        let r = GF255::<MQ>::verif_lin(&u, &w, f, g);
        let want = emod(&(fe(&u) * BigInt::from(f as i64) + fe(&w) * BigInt::from(g as i64)), &q);
        chk(fe(&r) == want, || format!("lin: limbs {:x?}", r.verif_limbs()))
      }); }
    { let q = q.clone(); let ops = ops2.clone();
      case!("gf255_div", "(a/b)*b == a when fe(b)!=0; a/0 == 0", ops2.clone(), move |inp: &[u8]| {
        let o = split(&ops, inp).ok_or("bad input length")?;
        let (a, b) = (el::<MQ>(o[0]), el::<MQ>(o[1]));
        let r = a / b;
        if fe(&b) == BigInt::from(0) {
            chk(fe(&r) == BigInt::from(0), || format!("div by zero: limbs {:x?}", r.verif_limbs()))
        } else {
            chk(emod(&(fe(&r) * fe(&b)), &q) == fe(&a), || format!("div: limbs {:x?}", r.verif_limbs()))
        }
      }); }
    { let q = q.clone(); let ops = ops1.clone();
      case!("gf255_legendre", "legendre(a) in {0,1,-1} per Euler's criterion", ops1.clone(), move |inp: &[u8]| {
        let o = split(&ops, inp).ok_or("bad input length")?;
        let a = el::<MQ>(o[0]);
        let r = a.legendre();
        let e = modpow(&fe(&a), &((&q - 1) / 2), &q);
        let want = if e == BigInt::from(0) { 0 } else if e == BigInt::from(1) { 1 } else { -1 };
        chk(r == want, || format!("legendre: got {} want {}", r, want))
      }); }
    { let q = q.clone(); let ops = ops1.clone();
      case!("gf255_sqrt", "sqrt: (y,ok): ok iff a is a QR; y^2==a, lsb(y)==0; else y==0", ops1.clone(), move |inp: &[u8]| {
        let o = split(&ops, inp).ok_or("bad input length")?;
        let a = el::<MQ>(o[0]);
        let (y, r) = a.sqrt();
        let e = modpow(&fe(&a), &((&q - 1) / 2), &q);
        let is_qr = e != &q - 1;
        if is_qr {
            chk(r == 0xFFFFFFFF && emod(&(fe(&y) * fe(&y)), &q) == fe(&a) && (fe(&y) % 2) == BigInt::from(0), || format!("sqrt(QR): r={:08x} y {:x?}", r, y.verif_limbs()))
        } else {
            chk(r == 0 && fe(&y) == BigInt::from(0), || format!("sqrt(nonQR): r={:08x} y {:x?}", r, y.verif_limbs()))
        }
      }); }
}

pub fn register(v: &mut Vec<Case>) {
    reg::<19>(v, "gf25519");
    reg::<18651>(v, "gf255e");
    reg::<3957>(v, "gf255s");
}
