//! CLI: vharness list | search <case> <seed> <budget_ms> | run <case> <hex> | replay <file.json>
#[cfg(kani)]
fn main() {}
#[cfg(not(kani))]
mod cli {
use std::time::{Duration, Instant};
use vharness::*;
use vharness::gen::{Rng, specials, random};

fn find(cases: &[Case], id: &str) -> Vec<usize> {
    cases.iter().enumerate().filter(|(_, c)| c.id == id || c.id.split('@').next() == Some(id)).map(|(i, _)| i).collect()
}

fn run_guarded(c: &Case, inp: &[u8]) -> Result<(), String> {
    let r = std::panic::catch_unwind(std::panic::AssertUnwindSafe(|| (c.run)(inp)));
    match r {
        Ok(x) => x,
        Err(e) => {
            let m = if let Some(s) = e.downcast_ref::<String>() { s.clone() } else if let Some(s) = e.downcast_ref::<&str>() { s.to_string() } else { "panic".into() };
            Err(format!("PANIC: {}", m))
        }
    }
}

pub fn main() {
    let args: Vec<String> = std::env::args().collect();
    let cases = all_cases();
    std::panic::set_hook(Box::new(|_| {}));
    match args.get(1).map(|s| s.as_str()) {
        Some("list") => { for c in &cases { println!("{}\t{}", c.id, c.describe); } }
        Some("run") => {
            let inp = hex::decode(&args[3]).expect("hex");
            let mut bad = false;
            for i in find(&cases, &args[2]) {
                match run_guarded(&cases[i], &inp) { Ok(()) => println!("PASS {}", cases[i].id), Err(e) => { bad = true; println!("FAIL {} {}", cases[i].id, e) } }
            }
            std::process::exit(if bad { 1 } else { 0 });
        }
        Some("search") => {
            // search <case> <seed> <budget_ms>: prints "FOUND <case-id> <hex> <msg>" for the first failure per case, or "NONE <case-id> <evaluations>"
            let seed: u64 = args[3].parse().unwrap();
            let budget = Duration::from_millis(args[4].parse().unwrap());
            // optional cap on the number of random inputs per case: makes the amount of work (and the evidence counts)
            // independent of machine speed for every case that is fast enough to reach it within the time budget
            let max_random: u64 = if args.len() > 5 { args[5].parse().unwrap() } else { u64::MAX };
            let mut any = false;
            for i in find(&cases, &args[2]) {
                let c = &cases[i];
                let t0 = Instant::now();
                let mut n = 0u64;
                let mut seen: std::collections::HashSet<u64> = std::collections::HashSet::new();
                let fp = |b: &[u8]| -> u64 { let mut h = 0xcbf29ce484222325u64; for x in b { h ^= *x as u64; h = h.wrapping_mul(0x100000001b3); } h ^ (b.len() as u64) };
                let mut found: Option<(Vec<u8>, String)> = None;
                // 1. cartesian product of specials (capped)
                let sp: Vec<Vec<Vec<u8>>> = c.ops.iter().map(specials).collect();
                let total: usize = sp.iter().map(|s| s.len()).product();
                let cap = total.min(40000);
                let mut rng = Rng(seed ^ 0x5bd1e995);
                for k in 0..cap {
                    let mut inp = Vec::new();
                    let mut kk = if total <= 40000 { k } else { rng.below(total as u64) as usize };
                    for s in &sp { inp.extend_from_slice(&s[kk % s.len()]); kk /= s.len(); }
                    n += 1; seen.insert(fp(&inp));
                    if let Err(e) = run_guarded(c, &inp) { found = Some((inp, e)); break; }
                }
                // 2. random boundary-biased mix, sometimes a special in one slot
                let mut nrand = 0u64;
                while found.is_none() && t0.elapsed() < budget && nrand < max_random {
                    nrand += 1;
                    let mut inp = Vec::new();
                    for (j, op) in c.ops.iter().enumerate() {
                        if rng.below(3) == 0 { let s = &sp[j]; inp.extend_from_slice(&s[rng.below(s.len() as u64) as usize]); }
                        else { inp.extend_from_slice(&random(op, &mut rng)); }
                    }
                    n += 1; if seen.len() < 2_000_000 { seen.insert(fp(&inp)); }
                    if let Err(e) = run_guarded(c, &inp) { found = Some((inp, e)); }
                }
                match found {
                    Some((inp, e)) => { any = true; println!("FOUND {} {} {}", c.id, hex::encode(&inp), e.replace('\n', " ")); }
                    None => println!("NONE {} {} {}", c.id, n, seen.len()),
                }
            }
            std::process::exit(if any { 1 } else { 0 });
        }
        _ => { eprintln!("usage: vharness list | run <case> <hex> | search <case> <seed> <budget_ms>"); std::process::exit(2); }
    }
}

}
#[cfg(not(kani))]
fn main() { cli::main() }
