//! Big-integer helpers for the executable postconditions.
use num_bigint::{BigInt, BigUint, Sign};

pub fn limbs_to_int(l: &[u64]) -> BigInt {
    let mut b = Vec::with_capacity(l.len() * 8);
    for w in l { b.extend_from_slice(&w.to_le_bytes()); }
    BigInt::from_bytes_le(Sign::Plus, &b)
}
pub fn le_to_int(b: &[u8]) -> BigInt { BigInt::from_bytes_le(Sign::Plus, b) }
pub fn be_to_int(b: &[u8]) -> BigInt { BigInt::from_bytes_be(Sign::Plus, b) }
pub fn pow2(n: u32) -> BigInt { BigInt::from(1) << n }
pub fn q255(mq: u64) -> BigInt { pow2(255) - BigInt::from(mq) }
pub fn emod(x: &BigInt, q: &BigInt) -> BigInt { let r = x % q; if r.sign() == Sign::Minus { r + q } else { r } }
pub fn int_to_le(x: &BigInt, len: usize) -> Vec<u8> {
    let (s, mut v) = x.to_bytes_le();
    assert!(s != Sign::Minus);
    assert!(v.len() <= len || v[len..].iter().all(|&b| b == 0), "value does not fit");
    v.resize(len, 0);
    v
}
pub fn int_to_limbs4(x: &BigInt) -> [u64; 4] {
    let b = int_to_le(x, 32);
    let mut r = [0u64; 4];
    for i in 0..4 { r[i] = u64::from_le_bytes(b[8*i..8*i+8].try_into().unwrap()); }
    r
}
pub fn modpow(b: &BigInt, e: &BigInt, q: &BigInt) -> BigInt { b.modpow(e, q) }
pub fn modinv(a: &BigInt, q: &BigInt) -> BigInt {
    // q prime
    a.modpow(&(q - BigInt::from(2)), q)
}
pub fn biguint(x: &BigInt) -> BigUint { x.to_biguint().unwrap() }
pub fn hex(b: &[u8]) -> String { hex::encode(b) }
