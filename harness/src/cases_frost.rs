//! Executable postconditions for FROST (crrl::frost, five ciphersuites):
//!   C15  trusted split / two-round signing completeness, rejection of altered
//!        shares, commitments, signature shares and signatures, wire formats
//!   C19  every decode / decode_list returns normally on every byte string
//!
//! All oracles are relational (protocol completeness, soundness of the
//! verification steps, decode(encode(x)) == x). For the Ed25519 and Ed448
//! suites the aggregate signature is also given to the plain RFC 8032
//! verifier of the crate.
#![allow(non_snake_case)]
use crate::gen::Rng;
use crate::ora::hex;
use crate::{Case, Op};
use std::collections::HashMap;
use std::sync::{Arc, Mutex, OnceLock};

fn chk(cond: bool, msg: impl FnOnce() -> String) -> Result<(), String> { if cond { Ok(()) } else { Err(msg()) } }
fn rand_bytes(r: &mut Rng, n: usize) -> Vec<u8> { (0..n).map(|_| r.next() as u8).collect() }
fn biased_bytes(r: &mut Rng, n: usize) -> Vec<u8> {
    match r.below(6) {
        0 => vec![0u8; n],
        1 => vec![0xFFu8; n],
        2 => { let mut v = vec![0u8; n]; if n > 0 { let i = r.below(n as u64) as usize; v[i] = 1 << r.below(8); } v }
        3 => { let mut v = vec![0xFFu8; n]; if n > 0 { let i = r.below(n as u64) as usize; v[i] ^= 1 << r.below(8); } v }
        _ => rand_bytes(r, n),
    }
}

/// deterministic generator (splitmix64) handed to the key generation / commit functions
pub struct DetRng(pub u64);
impl crrl::RngCore for DetRng {
    fn next_u32(&mut self) -> u32 { self.next_u64() as u32 }
    fn next_u64(&mut self) -> u64 { let mut r = Rng(self.0); let x = r.next(); self.0 = r.0; x }
    fn fill_bytes(&mut self, dest: &mut [u8]) { for b in dest.iter_mut() { *b = self.next_u64() as u8; } }
    fn try_fill_bytes(&mut self, dest: &mut [u8]) -> Result<(), crrl::RngError> { self.fill_bytes(dest); Ok(()) }
}
impl crrl::CryptoRng for DetRng {}

fn flip(v: &mut [u8], bit: usize) { v[bit / 8] ^= 1 << (bit % 8); }
/// One alteration of the region [lo, hi) of an encoding: a single flipped bit (par < 2^31), or one whole
/// field (offset, replacement) replaced by another well-formed value of the same kind (par >= 2^31).
fn alter(e: &mut [u8], par: usize, lo: usize, hi: usize, fields: &[(usize, &[u8])]) {
    if par & 0x8000_0000 != 0 && !fields.is_empty() {
        let (off, rep) = fields[(par & 0xFFFF) % fields.len()];
        if e[off..off + rep.len()] != rep[..] { e[off..off + rep.len()].copy_from_slice(rep); return; }
    }
    let b = 8 * lo + (par & 0x7FFF_FFFF) % (8 * (hi - lo));
    flip(e, b);
}

// Header shared by the protocol / corrupt / wire cases (HDR bytes), followed by the message:
//   [0] t = 2 + b % 5            [1] n = t + b % (7 - t)         [2] key selector (% 4)
//   [3] mask of the signers that send a commitment (bits 0..n-1)
//   [4..12] seed of the signers' RNG
//   [12] arrival: bits 0-2 shuffle seed, bit 3 "all committed signers sign", bits 4-5 duplicates, bits 6-7 more shuffle seed
//   [13] corruption kind   [14..18] par (u32 LE)   [18] par2
const HDR: usize = 19;
const KINDS: u8 = 12;

fn sp_header_protocol() -> Vec<Vec<u8>> {
    let mut v = Vec::new();
    for t in 0..5u8 {
        for nn in 0..5u8 {
            if nn > 4 - t { continue; }
            // everybody commits, plain order / everybody signs, duplicates / a subset that may be too small
            for (mask, arr) in [(0x3Fu8, 0u8), (0x3F, 0x38), (0x15, 0x91)] {
                v.push(vec![t, nn, (t + nn) % 4, mask, 1, mask, 3, 4, 5, 6, 7, t, arr, 0, 0, 0, 0, 0, 0]);
            }
        }
    }
    v
}
/// bit positions around the field boundaries of the encodings (NS, NE in {32, 33, 57})
const FIELD_MARKS: [u32; 14] = [0, 32, 33, 57, 64, 65, 66, 89, 90, 96, 97, 98, 114, 171];
fn rnd_header(r: &mut Rng) -> Vec<u8> {
    let mut h = rand_bytes(r, HDR);
    h[0] = r.below(5) as u8;
    h[1] = r.below(5) as u8;
    if r.below(2) == 0 { h[3] = 0x3F; }
    h[13] = r.below(KINDS as u64) as u8;
    match r.below(3) {
        0 => { h[15] = 0; h[16] = 0; h[17] = 0; }
        1 => { let f = FIELD_MARKS[r.below(FIELD_MARKS.len() as u64) as usize]; let b = (8 * f + r.below(8) as u32).wrapping_sub(8 * r.below(2) as u32); h[14..18].copy_from_slice(&b.to_le_bytes()); }
        _ => {}
    }
    if r.below(2) == 0 { h[17] |= 0x80; } // replace a whole field instead of flipping a bit
    h
}
fn sp_header_corrupt() -> Vec<Vec<u8>> {
    let mut v = Vec::new();
    for (t, nn) in [(0u8, 0u8), (1, 2)] {
        for kind in 0..KINDS {
            let pars: Vec<u32> = match kind {
                8 => (0..8).collect(),
                9 => vec![0, 1, 2, 3],
                _ => vec![0, 7, 8 * 32 - 1, 8 * 32, 8 * 57 - 1, 8 * 57, 8 * 64, 8 * 65 + 7, 8 * 97, 8 * 114 - 1, 0x8000_0000, 0x8000_0001, 0x8000_0002, 0x8001_0003, 0x8000_0004],
            };
            for p in pars {
                for p2 in [0u8, 0x81] {
                    if p2 == 0x81 && !matches!(kind, 3 | 4) { continue; }
                    let pb = p.to_le_bytes();
                    v.push(vec![t, nn, 1, 0x3F, 9, 8, 7, 6, 5, 4, 3, 2, if kind & 1 == 0 { 0x05 } else { 0x0D }, kind, pb[0], pb[1], pb[2], pb[3], p2]);
                }
            }
        }
    }
    v
}
fn sp_header_wire() -> Vec<Vec<u8>> {
    let mut v = Vec::new();
    for t in 0..5u8 { for nn in 0..5u8 { if nn <= 4 - t { v.push(vec![t, nn, t ^ nn, 0x3F, 11, 22, 33, 44, 55, 66, 77, 88, 0x12 + 8 * (nn & 1), 0, 0, 0, 0, 0, 0]); } } }
    v
}
fn sp_msg() -> Vec<Vec<u8>> { vec![vec![], b"test".to_vec(), vec![0u8; 64], (0..200).map(|i| i as u8).collect()] }
fn sp_msg_small() -> Vec<Vec<u8>> { vec![vec![], b"test".to_vec()] }
fn sp_msg_one() -> Vec<Vec<u8>> { vec![b"test".to_vec()] }
fn rnd_msg(r: &mut Rng) -> Vec<u8> {
    let l = match r.below(5) { 0 => 0, 1 => 1, 2 => 64, _ => r.below(150) as usize };
    biased_bytes(r, l)
}

/// lengths of every encoding of every suite (and neighbours); used by the decode_total generators
fn interesting_lengths() -> Vec<usize> {
    let mut v = Vec::new();
    for (ns, ne) in [(32usize, 32usize), (32, 33), (57, 57), (56, 56), (32, 65), (56, 57)] {
        for l in [ns, ne, 2 * ns, ns + ne, 2 * ns + ne, 3 * ns, ns + 2 * ne, 2 * (ns + 2 * ne), 3 * (ns + 2 * ne), 2 * ne, 3 * ne, 4 * ne] {
            for d in [-1i64, 0, 1] { let x = l as i64 + d; if x >= 0 && x <= 300 { v.push(x as usize); } }
        }
    }
    v.extend_from_slice(&[0, 1, 2, 299, 300]);
    v.sort();
    v.dedup();
    v
}

/// encode -> decode -> encode on one value; shortened / extended encodings are refused
macro_rules! trip { ($T:ty, $v:expr, $what:expr) => { {
    let e = $v.encode();
    chk(e.len() == <$T>::ENC_LEN, || format!("{}: encoded length {} != ENC_LEN {}", $what, e.len(), <$T>::ENC_LEN))?;
    let d = <$T>::decode(&e).ok_or_else(|| format!("{}: own encoding does not decode: {}", $what, hex(&e)))?;
    chk(d.encode() == e, || format!("{}: encode(decode(e)) != e: {} vs {}", $what, hex(&d.encode()), hex(&e)))?;
    chk(<$T>::decode(&e[..e.len() - 1]).is_none(), || format!("{}: truncated encoding accepted", $what))?;
    let mut x = e.to_vec(); x.push(0);
    chk(<$T>::decode(&x).is_none(), || format!("{}: encoding with a trailing byte accepted", $what))?;
    d
} } }


/// Some(v) implies v.encode() == input
macro_rules! dec_chk { ($T:ty, $what:expr, $b:expr) => { {
    if let Some(v) = <$T>::decode($b) { chk(v.encode()[..] == $b[..], || format!("{}::decode accepted {} (length {}) but re-encodes it as {}", $what, hex($b), $b.len(), hex(&v.encode())))?; }
} } }

macro_rules! frost_suite { ($m:ident, $name:expr, $ns:expr, $ne:expr, $rfc8032:expr, $extras:expr) => {
    pub mod $m {
        use super::*;
        use crrl::frost::$m::{Commitment, Coordinator, GroupPrivateKey, GroupPublicKey, KeySplitter, Nonce, Scalar, Signature, SignatureShare, SignerPrivateKeyShare, SignerPublicKey, VSSElement};
        pub const NS: usize = $ns;
        pub const NE: usize = $ne;

        pub struct Split {
            pub gsk: GroupPrivateKey,
            pub gpk: GroupPublicKey,
            pub shares: Vec<SignerPrivateKeyShare>,
            pub vss: Vec<VSSElement>,
            pub pks: Vec<SignerPublicKey>,
        }

        /// trusted split for (t, n, key selector), computed once
        pub fn split(t: usize, n: usize, sel: u8) -> Arc<Split> {
            static CACHE: OnceLock<Mutex<HashMap<(usize, usize, u8), Arc<Split>>>> = OnceLock::new();
            let c = CACHE.get_or_init(|| Mutex::new(HashMap::new()));
            if let Some(s) = c.lock().unwrap().get(&(t, n, sel)) { return s.clone(); }
            let mut rng = DetRng(0x46524F5354000000 ^ ((t as u64) << 16) ^ ((n as u64) << 8) ^ sel as u64);
            let gsk = GroupPrivateKey::generate(&mut rng);
            let gpk = gsk.get_public_key();
            let (shares, vss) = KeySplitter::trusted_split(&mut rng, gsk, t, n);
            let pks = shares.iter().map(|s| s.get_public_key()).collect();
            let s = Arc::new(Split { gsk, gpk, shares, vss, pks });
            c.lock().unwrap().insert((t, n, sel), s.clone());
            s
        }

        fn same_id(a: Scalar, b: Scalar) -> bool { a.equals(b) != 0 }

        pub struct Run {
            pub sp: Arc<Split>,
            pub t: usize,
            pub n: usize,
            pub msg: Vec<u8>,
            /// 0-based indices of the signers that committed (ascending), their nonces and commitments
            pub parts: Vec<usize>,
            pub nonces: Vec<Nonce>,
            pub comms: Vec<Commitment>,
            /// commitment list used for signing (ascending identifiers) and, aligned with it,
            /// the position in `parts` of each signer and its signature share
            pub list: Vec<Commitment>,
            pub who: Vec<usize>,
            pub zs: Vec<SignatureShare>,
            pub sig: Signature,
        }

        /// Runs key split (cached) + the two rounds. `full` adds the checks that are not needed
        /// when the run is only the starting point of a corruption.
        /// Ok(None): input outside the domain (too short, or fewer than t commitments: then only
        /// the refusal of the coordinator is checked).
        pub fn run_protocol(inp: &[u8], full: bool) -> Result<Option<Run>, String> {
            if inp.len() < HDR { return Ok(None); }
            let t = 2 + (inp[0] % 5) as usize;
            let n = t + (inp[1] as usize) % (7 - t);
            let sp = split(t, n, inp[2] % 4);
            let mask = inp[3];
            let seed = u64::from_le_bytes(inp[4..12].try_into().unwrap());
            let arr = inp[12];
            let msg = inp[HDR..].to_vec();

            chk(sp.shares.len() == n && sp.vss.len() == t, || format!("trusted_split({}, {}) returned {} shares, {} VSS elements", t, n, sp.shares.len(), sp.vss.len()))?;
            if full {
                // every share: identifier i+1, passes verify_split (after a trip through the wire
                // format, as in extra/frost-sample.rs), public keys agree with derive_group_info
                let vss2 = VSSElement::decode_list(&VSSElement::encode_list(&sp.vss)).ok_or("VSS commitment does not decode")?;
                for (i, s) in sp.shares.iter().enumerate() {
                    chk(same_id(s.ident, Scalar::from_u64(i as u64 + 1)), || format!("share {} has identifier {}", i, hex(&s.encode()[..NS])))?;
                    chk(s.verify_split(&sp.vss), || format!("share {} fails verify_split (t={}, n={})", i + 1, t, n))?;
                    let s2 = SignerPrivateKeyShare::decode(&s.encode()).ok_or_else(|| format!("share {} does not decode", i + 1))?;
                    chk(s2.verify_split(&vss2), || format!("decoded share {} fails verify_split against the decoded commitment", i + 1))?;
                    chk(s2.get_public_key().encode() == sp.pks[i].encode(), || format!("decoded share {}: public key differs", i + 1))?;
                }
                if seed & 3 == 0 {
                    let (pks, gpk) = KeySplitter::derive_group_info(n, sp.vss.clone());
                    chk(gpk.encode() == sp.gpk.encode(), || "derive_group_info: group public key differs".into())?;
                    chk(pks.len() == n, || "derive_group_info: number of public keys".into())?;
                    for i in 0..n { chk(pks[i].encode() == sp.pks[i].encode(), || format!("derive_group_info: public key {} differs", i + 1))?; }
                }
            }

            // round 1
            let mut rng = DetRng(seed);
            let mut parts = Vec::new();
            let mut nonces = Vec::new();
            let mut comms = Vec::new();
            for i in 0..n {
                if mask >> i & 1 != 0 {
                    let (nonce, comm) = sp.shares[i].commit(&mut rng);
                    chk(same_id(comm.ident, sp.shares[i].ident), || "commitment identifier".into())?;
                    parts.push(i); nonces.push(nonce); comms.push(comm);
                }
            }
            // arrival order at the coordinator: shuffled, with duplicates
            let mut ar = Rng(seed ^ ((arr as u64 & 0xC7) << 32) ^ 0xA5A5);
            let mut order: Vec<usize> = (0..parts.len()).collect();
            for i in (1..order.len()).rev() { let j = ar.below(i as u64 + 1) as usize; order.swap(i, j); }
            if !order.is_empty() { for _ in 0..(arr >> 4 & 3) { let x = order[ar.below(order.len() as u64) as usize]; let at = ar.below(order.len() as u64 + 1) as usize; order.insert(at, x); } }
            let arrived: Vec<Commitment> = order.iter().map(|&k| comms[k]).collect();
            let coor = Coordinator::new(t, sp.gpk).ok_or("Coordinator::new refused a threshold >= 2")?;
            let chosen = coor.choose(&arrived);
            if parts.len() < t {
                chk(chosen.is_none(), || format!("choose returned a list with only {} distinct commitments for threshold {}", parts.len(), t))?;
                return Ok(None);
            }
            let chosen = chosen.ok_or_else(|| format!("choose refused {} distinct commitments for threshold {}", parts.len(), t))?;
            // expected: the first t distinct signers in arrival order, ascending identifiers
            let mut first: Vec<usize> = Vec::new();
            for &k in &order { if !first.contains(&k) { first.push(k); if first.len() == t { break; } } }
            first.sort();
            chk(chosen.len() == t, || format!("choose returned {} commitments for threshold {}", chosen.len(), t))?;
            for (c, &k) in chosen.iter().zip(first.iter()) {
                chk(c.encode() == comms[k].encode(), || format!("choose: expected the commitment of signer {} , got identifier {}", parts[k] + 1, hex(&c.encode()[..NS])))?;
            }
            let (list, who): (Vec<Commitment>, Vec<usize>) = if arr & 8 != 0 { (comms.clone(), (0..parts.len()).collect()) } else { (chosen, first) };

            // round 2
            let mut zs = Vec::new();
            for &k in &who {
                let z = sp.shares[parts[k]].sign(nonces[k], comms[k], &msg, &list).ok_or_else(|| format!("signer {} refused a correct commitment list", parts[k] + 1))?;
                zs.push(z);
            }
            if full {
                for k in 0..parts.len() {
                    if !who.contains(&k) {
                        chk(sp.shares[parts[k]].sign(nonces[k], comms[k], &msg, &list).is_none(), || format!("signer {} signed although it is not in the commitment list", parts[k] + 1))?;
                    }
                }
                for (j, &k) in who.iter().enumerate() {
                    chk(sp.pks[parts[k]].verify_signature_share(zs[j], &list, sp.gpk, &msg), || format!("signature share of signer {} rejected (t={}, n={}, {} signers)", parts[k] + 1, t, n, who.len()))?;
                }
            }
            // shares arrive in another order, one of them twice; public keys of everybody, reversed
            let mut zarr: Vec<SignatureShare> = zs.clone();
            for i in (1..zarr.len()).rev() { let j = ar.below(i as u64 + 1) as usize; zarr.swap(i, j); }
            zarr.push(zs[ar.below(zs.len() as u64) as usize]);
            let mut pkr = sp.pks.clone();
            pkr.reverse();
            let sig = coor.assemble_signature(&zarr, &list, &pkr, &msg).ok_or_else(|| format!("assemble_signature failed on honest shares (t={}, n={}, {} signers)", t, n, who.len()))?;
            chk(sp.gpk.verify(sig, &msg), || "aggregate signature rejected by the group public key".into())?;
            if full {
                let es = sig.encode();
                chk(sp.gpk.verify_esig(&es, &msg), || "verify_esig rejects the encoded aggregate signature".into())?;
                let mut m2 = msg.clone();
                m2.push(0);
                chk(!sp.gpk.verify(sig, &m2), || "aggregate signature accepted for another message".into())?;
                let rfc: Option<fn(&[u8], &[u8], &[u8]) -> Option<bool>> = $rfc8032;
                if let Some(f) = rfc {
                    chk(f(&sp.gpk.encode(), &es, &msg) == Some(true), || format!("plain RFC 8032 verifier rejects the FROST signature: pk {} sig {} msg {}", hex(&sp.gpk.encode()), hex(&es), hex(&msg)))?;
                    chk(f(&sp.gpk.encode(), &es, &m2) == Some(false), || "plain RFC 8032 verifier accepts the FROST signature for another message".into())?;
                }
                // single-signer usage of the group private key
                if seed & 4 == 0 {
                    let s1 = sp.gsk.sign_seeded(&inp[4..12], &msg);
                    chk(sp.gpk.verify(s1, &msg), || "single-signer signature rejected".into())?;
                    if let Some(f) = rfc { chk(f(&sp.gpk.encode(), &s1.encode(), &msg) == Some(true), || "plain RFC 8032 verifier rejects the single-signer signature".into())?; }
                }
            }
            Ok(Some(Run { sp, t, n, msg, parts, nonces, comms, list, who, zs, sig }))
        }

        pub fn protocol(inp: &[u8]) -> Result<(), String> { run_protocol(inp, true).map(|_| ()) }

        fn other_msg(msg: &[u8], par: usize, par2: usize) -> Vec<u8> {
            let mut m = msg.to_vec();
            match par2 % 3 {
                0 if !m.is_empty() => { let b = par % (8 * m.len()); flip(&mut m, b); }
                1 if !m.is_empty() => { m.pop(); }
                _ => m.push(par as u8),
            }
            m
        }

        pub fn corrupt(inp: &[u8]) -> Result<(), String> {
            let mut base = inp.to_vec();
            if base.len() >= HDR { base[3] = 0x3F; } // everybody commits
            let r = match run_protocol(&base, false)? { Some(r) => r, None => return Ok(()) };
            let kind = inp[13] % KINDS;
            let par = u32::from_le_bytes(inp[14..18].try_into().unwrap()) as usize;
            let par2 = inp[18] as usize;
            let sp = &r.sp;
            let k = r.list.len();
            let vi = par2 % k;                 // victim position in the list
            let vs = r.parts[r.who[vi]];       // victim signer (0-based)
            let coor = Coordinator::new(r.t, sp.gpk).unwrap();
            let ctx = |what: &str| format!("{} (t={}, n={}, {} signers, victim {}, par {}, par2 {})", what, r.t, r.n, k, vs + 1, par, par2);
            let assemble_with = |zs: &[SignatureShare], list: &[Commitment], pks: &[SignerPublicKey]| coor.assemble_signature(zs, list, pks, &r.msg);
            // well-formed replacement values: the group key of another split, identifier / secret / public point of another signer
            let og = split(r.t, r.n, (inp[2] % 4 + 1) % 4).gpk.encode();
            let o = (vs + 1 + (par >> 16 & 0xFF) % (r.n - 1)) % r.n; // another signer
            let oshare = sp.shares[o].encode();
            let (oid, osk) = (&oshare[..NS], &oshare[NS..2 * NS]);
            let opk = sp.pks[o].encode();
            let opt = &opk[NS..];
            let oz = r.zs[(vi + 1) % k].encode();
            match kind {
                0 => { // private key share: identifier or secret scalar altered
                    let mut e = sp.shares[vs].encode();
                    alter(&mut e, par, 0, 2 * NS, &[(0, oid), (NS, osk)]);
                    if let Some(s2) = SignerPrivateKeyShare::decode(&e) { chk(!s2.verify_split(&sp.vss), || ctx("altered share passes verify_split"))?; }
                }
                1 => { // private key share: group public key field altered -> its signature shares are worthless
                    let mut e = sp.shares[vs].encode();
                    alter(&mut e, par, 2 * NS, 2 * NS + NE, &[(2 * NS, &og[..]), (2 * NS, opt)]);
                    if let Some(s2) = SignerPrivateKeyShare::decode(&e) {
                        if let Some(z) = s2.sign(r.nonces[r.who[vi]], r.comms[r.who[vi]], &r.msg, &r.list) {
                            chk(!sp.pks[vs].verify_signature_share(z, &r.list, sp.gpk, &r.msg), || ctx("signature share made with an altered group public key verifies"))?;
                            let mut zs = r.zs.clone(); zs[vi] = z;
                            chk(assemble_with(&zs, &r.list, &sp.pks).is_none(), || ctx("assemble_signature accepts a share made with an altered group public key"))?;
                        }
                    }
                }
                2 => { // VSS commitment altered
                    let mut e = VSSElement::encode_list(&sp.vss);
                    let el = NE * (par2 % r.t);
                    let len = e.len();
                    alter(&mut e, par, 0, len, &[(el, &og[..]), (el, opt)]);
                    if let Some(v2) = VSSElement::decode_list(&e) {
                        for i in [vs, (vs + 1) % r.n] { chk(!sp.shares[i].verify_split(&v2), || ctx("share passes verify_split against an altered VSS commitment"))?; }
                    }
                }
                3 | 4 => { // one commitment of the list altered (on the coordinator's side / on the way to a signer)
                    let mut e = Commitment::encode_list(&r.list);
                    let off = Commitment::ENC_LEN * vi;
                    alter(&mut e, par, off, off + Commitment::ENC_LEN, &[(off + NS, &og[..]), (off + NS + NE, &og[..]), (off, oid), (off + NS, opt), (off + NS + NE, opt)]);
                    if let Some(l2) = Commitment::decode_list(&e) {
                        if kind == 3 {
                            for j in 0..k { chk(!sp.pks[r.parts[r.who[j]]].verify_signature_share(r.zs[j], &l2, sp.gpk, &r.msg), || ctx("signature share verifies against an altered commitment list"))?; }
                            chk(assemble_with(&r.zs, &l2, &sp.pks).is_none(), || ctx("assemble_signature succeeds with an altered commitment list"))?;
                        } else {
                            let j = if par2 & 0x80 != 0 { vi } else { (par2 / 8) % k };
                            let w = r.who[j];
                            let z = sp.shares[r.parts[w]].sign(r.nonces[w], r.comms[w], &r.msg, &l2);
                            if j == vi { chk(z.is_none(), || ctx("signer accepts a list in which its own commitment was altered"))?; }
                            if let Some(z) = z {
                                chk(!sp.pks[r.parts[w]].verify_signature_share(z, &r.list, sp.gpk, &r.msg), || ctx("share computed over an altered list verifies against the original list"))?;
                                let mut zs = r.zs.clone(); zs[j] = z;
                                chk(assemble_with(&zs, &r.list, &sp.pks).is_none(), || ctx("assemble_signature accepts a share computed over an altered list"))?;
                            }
                        }
                    }
                }
                5 => { // signature share altered
                    let mut e = r.zs[vi].encode();
                    alter(&mut e, par, 0, 2 * NS, &[(NS, &oz[NS..]), (0, &oz[..NS]), (NS, osk)]);
                    if let Some(z2) = SignatureShare::decode(&e) {
                        chk(!sp.pks[vs].verify_signature_share(z2, &r.list, sp.gpk, &r.msg), || ctx("altered signature share verifies"))?;
                        let mut zs = r.zs.clone(); zs[vi] = z2;
                        chk(assemble_with(&zs, &r.list, &sp.pks).is_none(), || ctx("assemble_signature accepts an altered signature share"))?;
                    }
                }
                6 => { // aggregate signature altered
                    let mut e = r.sig.encode();
                    alter(&mut e, par, 0, NE + NS, &[(0, &og[..]), (NE, &oz[NS..]), (0, opt)]);
                    if let Some(s2) = Signature::decode(&e) { chk(!sp.gpk.verify(s2, &r.msg), || ctx("altered signature verifies"))?; }
                    chk(!sp.gpk.verify_esig(&e, &r.msg), || ctx("altered signature passes verify_esig"))?;
                    let rfc: Option<fn(&[u8], &[u8], &[u8]) -> Option<bool>> = $rfc8032;
                    if let Some(f) = rfc { chk(f(&sp.gpk.encode(), &e, &r.msg) == Some(false), || ctx("altered signature accepted by the plain RFC 8032 verifier"))?; }
                }
                7 => { // nonce altered (hiding / binding part; the identifier must match by contract)
                    let w = r.who[vi];
                    let mut e = r.nonces[w].encode();
                    let on = r.nonces[r.who[(vi + 1) % k]].encode();
                    alter(&mut e, par, NS, 3 * NS, &[(NS, &on[NS..2 * NS]), (2 * NS, &on[2 * NS..]), (NS, &on[2 * NS..])]);
                    if let Some(n2) = Nonce::decode(&e) {
                        if let Some(z) = sp.shares[vs].sign(n2, r.comms[w], &r.msg, &r.list) {
                            chk(!sp.pks[vs].verify_signature_share(z, &r.list, sp.gpk, &r.msg), || ctx("share computed with an altered nonce verifies"))?;
                        }
                    }
                }
                8 => { // lists that the documentation says are refused
                    let w = r.who[vi];
                    let me = sp.shares[vs];
                    let sign_with = |l: &[Commitment]| me.sign(r.nonces[w], r.comms[w], &r.msg, l);
                    let mut dup = r.list.clone(); dup.insert(vi, r.list[vi]);
                    let mut swapped = r.list.clone(); let a = vi.min(k - 2); swapped.swap(a, a + 1);
                    match par % 8 {
                        0 => chk(sign_with(&dup).is_none(), || ctx("sign accepts a list with a duplicated commitment"))?,
                        1 => chk(sign_with(&swapped).is_none(), || ctx("sign accepts a list that is not in ascending order"))?,
                        2 => { chk(sign_with(&[r.comms[w]]).is_none(), || ctx("sign accepts a list of one commitment"))?; chk(sign_with(&[]).is_none(), || ctx("sign accepts an empty list"))?; }
                        3 => chk(Commitment::decode_list(&Commitment::encode_list(&swapped)).is_none(), || ctx("decode_list accepts a list that is not in ascending order"))?,
                        4 => chk(Commitment::decode_list(&Commitment::encode_list(&dup)).is_none(), || ctx("decode_list accepts a list with a duplicated identifier"))?,
                        5 => {
                            let e = Commitment::encode_list(&r.list);
                            chk(Commitment::decode_list(&e[..Commitment::ENC_LEN]).is_none(), || ctx("decode_list accepts a single commitment"))?;
                            chk(Commitment::decode_list(&[]).is_none(), || ctx("decode_list accepts an empty list"))?;
                            chk(Commitment::decode_list(&e[..e.len() - 1]).is_none(), || ctx("decode_list accepts a truncated list"))?;
                            let mut e2 = e.clone(); e2.push(par2 as u8);
                            chk(Commitment::decode_list(&e2).is_none(), || ctx("decode_list accepts trailing bytes"))?;
                            let ev = VSSElement::encode_list(&sp.vss);
                            chk(VSSElement::decode_list(&ev[..NE]).is_none(), || ctx("VSS decode_list accepts a single element"))?;
                            chk(VSSElement::decode_list(&ev[..ev.len() - 1]).is_none(), || ctx("VSS decode_list accepts a truncated list"))?;
                            let mut ev2 = ev.clone(); ev2.push(par2 as u8);
                            chk(VSSElement::decode_list(&ev2).is_none(), || ctx("VSS decode_list accepts trailing bytes"))?;
                        }
                        6 => { // list without this signer (completed with other commitments so that it stays long enough)
                            let mut l: Vec<Commitment> = r.comms.iter().enumerate().filter(|(i, _)| *i != w).map(|(_, c)| *c).collect();
                            if l.len() < 2 { l = r.list.iter().filter(|c| !same_id(c.ident, me.ident)).cloned().collect(); }
                            if l.len() >= 2 { chk(sign_with(&l).is_none(), || ctx("sign accepts a list that does not contain the signer"))?; }
                        }
                        _ => {
                            chk(Coordinator::new(par2 % 2, sp.gpk).is_none(), || ctx("Coordinator::new accepts a threshold < 2"))?;
                            let mut few: Vec<Commitment> = r.comms[..r.t - 1].to_vec();
                            few.extend_from_slice(&r.comms[..r.t - 1]);
                            chk(coor.choose(&few).is_none(), || ctx("choose returns a list with fewer than t distinct signers"))?;
                        }
                    }
                }
                9 => { // right share, wrong context
                    let m2 = other_msg(&r.msg, par, par2);
                    match par % 4 {
                        0 => chk(!sp.pks[vs].verify_signature_share(r.zs[vi], &r.list, sp.gpk, &m2), || ctx("signature share verifies for another message"))?,
                        1 => { let o = r.parts[r.who[(vi + 1) % k]]; chk(!sp.pks[o].verify_signature_share(r.zs[vi], &r.list, sp.gpk, &r.msg), || ctx("signature share verifies under the public key of another signer"))?; }
                        2 => { chk(!sp.gpk.verify(r.sig, &m2), || ctx("signature verifies for another message"))?; chk(assemble_with(&r.zs, &r.list, &sp.pks).is_some() && coor.assemble_signature(&r.zs, &r.list, &sp.pks, &m2).is_none(), || ctx("assemble_signature for another message"))?; }
                        _ => { let o = split(r.t, r.n, (inp[2] % 4 + 1) % 4); chk(!o.gpk.verify(r.sig, &r.msg), || ctx("signature verifies under another group key"))?; chk(!sp.pks[vs].verify_signature_share(r.zs[vi], &r.list, o.gpk, &r.msg), || ctx("signature share verifies with another group key"))?; }
                    }
                }
                10 => { // signer public key altered
                    let mut e = sp.pks[vs].encode();
                    alter(&mut e, par, 0, NS + NE, &[(NS, opt), (0, oid), (NS, &og[..])]);
                    if let Some(p2) = SignerPublicKey::decode(&e) {
                        chk(!p2.verify_signature_share(r.zs[vi], &r.list, sp.gpk, &r.msg), || ctx("signature share verifies under an altered signer public key"))?;
                        let mut pks = sp.pks.clone(); pks[vs] = p2;
                        chk(assemble_with(&r.zs, &r.list, &pks).is_none(), || ctx("assemble_signature succeeds with an altered signer public key"))?;
                    }
                }
                _ => { // group public key altered
                    let mut e = sp.gpk.encode();
                    alter(&mut e, par, 0, NE, &[(0, &og[..]), (0, opt)]);
                    if let Some(g2) = GroupPublicKey::decode(&e) {
                        chk(!g2.verify(r.sig, &r.msg), || ctx("signature verifies under an altered group public key"))?;
                        chk(!sp.pks[vs].verify_signature_share(r.zs[vi], &r.list, g2, &r.msg), || ctx("signature share verifies with an altered group public key"))?;
                        chk(Coordinator::new(r.t, g2).unwrap().assemble_signature(&r.zs, &r.list, &sp.pks, &r.msg).is_none(), || ctx("assemble_signature succeeds with an altered group public key"))?;
                    }
                }
            }
            Ok(())
        }

        pub fn wire(inp: &[u8]) -> Result<(), String> {
            let mut base = inp.to_vec();
            if base.len() >= HDR { base[3] |= 0x3F; }
            let r = match run_protocol(&base, false)? { Some(r) => r, None => return Ok(()) };
            let sp = &r.sp;
            chk(GroupPrivateKey::ENC_LEN == NS && GroupPublicKey::ENC_LEN == NE && SignerPrivateKeyShare::ENC_LEN == 2 * NS + NE && SignerPublicKey::ENC_LEN == NS + NE
                && Nonce::ENC_LEN == 3 * NS && Commitment::ENC_LEN == NS + 2 * NE && SignatureShare::ENC_LEN == 2 * NS && Signature::ENC_LEN == NE + NS, || "ENC_LEN constants".into())?;
            let gsk2 = trip!(GroupPrivateKey, sp.gsk, "group private key");
            chk(gsk2.get_public_key().encode() == sp.gpk.encode(), || "decoded group private key has another public key".into())?;
            let gpk2 = trip!(GroupPublicKey, sp.gpk, "group public key");
            chk(gpk2.verify(r.sig, &r.msg), || "decoded group public key rejects the signature".into())?;
            let sig2 = trip!(Signature, r.sig, "signature");
            chk(sp.gpk.verify(sig2, &r.msg), || "decoded signature rejected".into())?;
            for i in 0..r.n {
                let s2 = trip!(SignerPrivateKeyShare, sp.shares[i], "private key share");
                chk(s2.get_public_key().encode() == sp.pks[i].encode(), || "decoded share has another public key".into())?;
                trip!(SignerPublicKey, sp.pks[i], "signer public key");
            }
            // lists
            let ev = VSSElement::encode_list(&sp.vss);
            chk(ev.len() == NE * r.t, || "VSS list length".into())?;
            let v2 = VSSElement::decode_list(&ev).ok_or("VSS list does not decode")?;
            chk(v2.len() == r.t && VSSElement::encode_list(&v2) == ev, || "VSS list: encode_list(decode_list(e)) != e".into())?;
            chk(sp.shares[inp[18] as usize % r.n].verify_split(&v2), || "share fails verify_split against the decoded VSS list".into())?;
            chk(ev[..NE] == sp.gpk.encode()[..], || "first VSS element is not the group public key".into())?;
            let el = Commitment::encode_list(&r.list);
            let mut cat = Vec::new();
            for c in &r.list { cat.extend_from_slice(&c.encode()); }
            chk(el == cat, || "Commitment::encode_list != concatenation of encode()".into())?;
            let l2 = Commitment::decode_list(&el).ok_or("commitment list does not decode")?;
            chk(l2.len() == r.list.len() && Commitment::encode_list(&l2) == el, || "commitment list: encode_list(decode_list(e)) != e".into())?;
            // the decoded values are usable in place of the originals
            let mut zs2 = Vec::new();
            for (j, &w) in r.who.iter().enumerate() {
                let n2 = trip!(Nonce, r.nonces[w], "nonce");
                let c2 = trip!(Commitment, r.comms[w], "commitment");
                chk(n2.get_commitment().encode() == c2.encode(), || "decoded nonce yields another commitment".into())?;
                let s2 = SignerPrivateKeyShare::decode(&sp.shares[r.parts[w]].encode()).unwrap();
                let z = s2.sign(n2, c2, &r.msg, &l2).ok_or("signing with decoded share / nonce / commitments refused")?;
                chk(z.encode() == r.zs[j].encode(), || "signing with decoded values gives another signature share".into())?;
                zs2.push(trip!(SignatureShare, z, "signature share"));
            }
            let pks2: Vec<SignerPublicKey> = sp.pks.iter().map(|p| SignerPublicKey::decode(&p.encode()).unwrap()).collect();
            let s = Coordinator::new(r.t, gpk2).unwrap().assemble_signature(&zs2, &l2, &pks2, &r.msg).ok_or("assemble_signature fails on decoded values")?;
            chk(s.encode() == r.sig.encode(), || "assembling decoded values gives another signature".into())
        }

        // ---- decode_total ----
        // input: selector (1 byte) | bytes.  selector % 12:
        //   0 GroupPrivateKey  1 GroupPublicKey  2 SignerPrivateKeyShare  3 SignerPublicKey  4 VSSElement list
        //   5 Nonce  6 Commitment  7 Commitment list  8 SignatureShare  9 Signature  10 verify_esig  11 all of them
        pub const NDEC: u8 = 12;

        fn dec_one(sel: u8, b: &[u8]) -> Result<(), String> {
            match sel {
                0 => dec_chk!(GroupPrivateKey, "GroupPrivateKey", b),
                1 => dec_chk!(GroupPublicKey, "GroupPublicKey", b),
                2 => dec_chk!(SignerPrivateKeyShare, "SignerPrivateKeyShare", b),
                3 => dec_chk!(SignerPublicKey, "SignerPublicKey", b),
                4 => { if let Some(v) = VSSElement::decode_list(b) { chk(v.len() >= 2 && VSSElement::encode_list(&v)[..] == b[..], || format!("VSSElement::decode_list accepted {} ({} elements) but re-encodes differently", hex(b), v.len()))?; } }
                5 => dec_chk!(Nonce, "Nonce", b),
                6 => dec_chk!(Commitment, "Commitment", b),
                7 => { if let Some(v) = Commitment::decode_list(b) { chk(v.len() >= 2 && Commitment::encode_list(&v)[..] == b[..], || format!("Commitment::decode_list accepted {} ({} elements) but re-encodes differently", hex(b), v.len()))?; } }
                8 => dec_chk!(SignatureShare, "SignatureShare", b),
                9 => dec_chk!(Signature, "Signature", b),
                _ => { let p = pool(); let ok = p.gpk.verify_esig(b, b"test"); let want = b == &p.items[9][0][..]; chk(ok == want, || format!("verify_esig returned {} on {}", ok, hex(b)))?; }
            }
            Ok(())
        }
        pub fn decode_total(inp: &[u8]) -> Result<(), String> {
            if inp.is_empty() || inp.len() > 301 { return Ok(()); }
            let sel = inp[0] % NDEC;
            if sel == 11 { for s in 0..11 { dec_one(s, &inp[1..])?; } Ok(()) } else { dec_one(sel, &inp[1..]) }
        }

        /// valid encodings produced by one fixed protocol run: items[k] = values accepted by decoder k (k = 0..=9)
        pub struct Pool { pub gpk: GroupPublicKey, pub items: Vec<Vec<Vec<u8>>>, pub extras: Vec<Vec<u8>> }
        pub fn pool() -> &'static Pool {
            static P: OnceLock<Pool> = OnceLock::new();
            P.get_or_init(|| {
                let mut inp = vec![1u8, 1, 0, 0x3F, 7, 7, 7, 7, 7, 7, 7, 7, 0x08, 0, 0, 0, 0, 0, 0];
                inp.extend_from_slice(b"test");
                let r = run_protocol(&inp, false).expect("pool protocol run").expect("pool protocol run");
                let sp = &r.sp;
                let mut items: Vec<Vec<Vec<u8>>> = vec![Vec::new(); 10];
                items[0].push(sp.gsk.encode().to_vec());
                items[1].push(sp.gpk.encode().to_vec());
                for s in &sp.shares { items[2].push(s.encode().to_vec()); }
                for p in &sp.pks { items[3].push(p.encode().to_vec()); }
                items[4].push(VSSElement::encode_list(&sp.vss));
                items[4].push(VSSElement::encode_list(&sp.vss[..2]));
                for x in &r.nonces { items[5].push(x.encode().to_vec()); }
                for c in &r.comms { items[6].push(c.encode().to_vec()); }
                items[7].push(Commitment::encode_list(&r.list));
                items[7].push(Commitment::encode_list(&r.list[..2]));
                for z in &r.zs { items[8].push(z.encode().to_vec()); }
                items[9].push(r.sig.encode().to_vec());
                // the signature must be the one verify_esig accepts for b"test"
                assert!(sp.gpk.verify_esig(&items[9][0], b"test"));
                let ex: fn(&[u8]) -> Vec<Vec<u8>> = $extras;
                let extras = ex(&sp.gpk.encode());
                Pool { gpk: sp.gpk, items, extras }
            })
        }

        pub fn sp_total() -> Vec<Vec<u8>> {
            let p = pool();
            let mut v: Vec<Vec<u8>> = Vec::new();
            let with = |sel: u8, b: &[u8]| { let mut x = vec![sel]; x.extend_from_slice(b); x };
            // valid values to their own decoder and to all decoders; shortened / extended by one byte
            for (k, it) in p.items.iter().enumerate() {
                for e in it {
                    v.push(with(k as u8, e));
                    v.push(with(11, e));
                    v.push(with(k as u8, &e[..e.len() - 1]));
                    let mut x = e.clone(); x.push(0); v.push(with(k as u8, &x));
                    v.push(with(10, e));
                }
            }
            for e in &p.extras { v.push(with(11, e)); }
            // every length 0..=300: zeros, ones, and a stream of valid encodings cut at that length
            let mut stream = Vec::new();
            while stream.len() < 300 { for c in &p.items[6] { stream.extend_from_slice(c); } }
            let mut stream2 = Vec::new();
            while stream2.len() < 300 { stream2.extend_from_slice(&p.items[1][0]); }
            for l in 0..=300usize {
                v.push(with(11, &vec![0u8; l]));
                v.push(with(11, &vec![0xFFu8; l]));
                v.push(with(11, &stream[..l]));
                v.push(with(11, &stream2[..l]));
            }
            v
        }

        pub fn rnd_total(r: &mut Rng) -> Vec<u8> {
            let p = pool();
            let sel = if r.below(4) == 0 { 11 } else { r.below(11) as u8 };
            let own = (if sel >= 10 { r.below(10) as usize } else { sel as usize }) as usize;
            let pick = |r: &mut Rng, k: usize| -> Vec<u8> { let it = &p.items[k]; it[r.below(it.len() as u64) as usize].clone() };
            let mut b: Vec<u8> = match r.below(10) {
                0 => pick(r, own),
                1 | 2 => { // one byte / one bit altered
                    let mut e = pick(r, own);
                    let i = if r.below(2) == 0 { r.below(e.len() as u64) as usize } else { let marks = [0usize, NS - 1, NS, 2 * NS - 1, 2 * NS, NS + NE - 1, NS + NE, 2 * NS + NE - 1, NE - 1, NE, 3 * NS - 1, e.len() - 1]; marks[r.below(marks.len() as u64) as usize].min(e.len() - 1) };
                    match r.below(4) { 0 => e[i] = 0, 1 => e[i] = 0xFF, 2 => e[i] ^= 1 << r.below(8), _ => e[i] = r.next() as u8 }
                    e
                }
                3 => { // shortened / extended
                    let mut e = pick(r, own);
                    if r.below(2) == 0 { let cut = 1 + r.below(3u64.min(e.len() as u64)) as usize; e.truncate(e.len() - cut); } else { for _ in 0..1 + r.below(3) { e.push(match r.below(3) { 0 => 0, 1 => 0xFF, _ => r.next() as u8 }); } }
                    e
                }
                4 => { let k = r.below(10) as usize; pick(r, k) } // a value of another type
                5 => { // list of commitments / points: sorted, unsorted, duplicated, with a partial tail
                    let src = if r.below(2) == 0 { &p.items[6] } else { &p.items[1] };
                    let mut e = Vec::new();
                    for _ in 0..r.below(5) { e.extend_from_slice(&src[r.below(src.len() as u64) as usize]); }
                    if r.below(3) == 0 { let extra = r.below(NE as u64 + 1) as usize; let t = &p.items[6][0]; e.extend_from_slice(&t[..extra.min(t.len())]); }
                    e
                }
                6 => { // a field of a valid value replaced by an encoding of another kind (other format of the same curve, neutral, non-canonical scalar, ...)
                    let mut e = pick(r, own);
                    let x = &p.extras[r.below(p.extras.len() as u64) as usize];
                    let offs = [0usize, NS, 2 * NS, NS + NE, NE];
                    let o = offs[r.below(offs.len() as u64) as usize];
                    if r.below(3) == 0 { x.clone() } else if o + x.len() <= e.len() { e[o..o + x.len()].copy_from_slice(x); e } else { e.truncate(o.min(e.len())); e.extend_from_slice(x); e }
                }
                7 => { let ls = interesting_lengths(); let l = ls[r.below(ls.len() as u64) as usize]; biased_bytes(r, l) }
                8 => { let l = r.below(301) as usize; biased_bytes(r, l) }
                _ => { // two valid values glued (e.g. scalar || point of the wrong kind)
                    let k1 = r.below(10) as usize; let k2 = r.below(10) as usize; let mut e = pick(r, k1); let f = pick(r, k2); e.extend_from_slice(&f); e
                }
            };
            b.truncate(300);
            let mut x = vec![sel];
            x.extend_from_slice(&b);
            x
        }

        pub fn register(v: &mut Vec<Case>) {
            let hdr_p = Op::Custom { len: Some(HDR), specials: sp_header_protocol, random: rnd_header };
            let hdr_c = Op::Custom { len: Some(HDR), specials: sp_header_corrupt, random: rnd_header };
            let hdr_w = Op::Custom { len: Some(HDR), specials: sp_header_wire, random: rnd_header };
            v.push(Case { id: format!("frost_{}_protocol", $name),
                describe: "trusted split: every share passes verify_split, derive_group_info agrees; coordinator chooses the first t distinct commitments (ascending), refuses fewer; honest shares verify, assemble into a signature that verifies (also under plain RFC 8032 for Ed25519/Ed448). Input: t%5 n sel mask seed(8) arrival kind par(4) par2 | msg",
                ops: vec![hdr_p, Op::Custom { len: None, specials: sp_msg, random: rnd_msg }], run: Box::new(protocol) });
            v.push(Case { id: format!("frost_{}_corrupt", $name),
                describe: "after an honest run, one altered bit / field of a share, VSS commitment, commitment, nonce, signature share, signature, public key is rejected by the corresponding verification; duplicate / unsorted / short lists are refused where documented. Input: same header (kind%12, par = bit / sub-case, par2 = victim) | msg",
                ops: vec![hdr_c, Op::Custom { len: None, specials: sp_msg_one, random: rnd_msg }], run: Box::new(corrupt) });
            v.push(Case { id: format!("frost_{}_wire", $name),
                describe: "encode -> decode -> encode identical for every FROST type and list; decoded values are usable in place of the originals; shortened / extended encodings refused. Input: same header | msg",
                ops: vec![hdr_w, Op::Custom { len: None, specials: sp_msg_small, random: rnd_msg }], run: Box::new(wire) });
            v.push(Case { id: format!("frost_{}_decode_total", $name),
                describe: "every decode / decode_list returns normally on every byte string of length 0..=300, and Some(v) implies v.encode() == input. Input: selector%12 | bytes",
                ops: vec![Op::Custom { len: None, specials: sp_total, random: rnd_total }], run: Box::new(decode_total) });
        }
    }
} }

// ---- plain RFC 8032 verifiers (crate's own; their conformance is the subject of cases_schemes.rs) ----
fn rfc8032_ed25519(pk: &[u8], sig: &[u8], msg: &[u8]) -> Option<bool> { Some(crrl::ed25519::PublicKey::decode(pk)?.verify_raw(sig, msg)) }
fn rfc8032_ed448(pk: &[u8], sig: &[u8], msg: &[u8]) -> Option<bool> { Some(crrl::ed448::PublicKey::decode(pk)?.verify_raw(sig, msg)) }

// ---- encodings of the "wrong kind" for each curve (inputs only) ----
fn scalars32_le(order_minus_1_le: [u8; 32]) -> Vec<Vec<u8>> {
    // 0, 1, q-1, q, q+1, 2^256-1 (little-endian)
    let mut q = order_minus_1_le.to_vec();
    let mut out = vec![vec![0u8; 32], { let mut o = vec![0u8; 32]; o[0] = 1; o }, q.clone(), vec![0xFFu8; 32]];
    for _ in 0..2 { for i in 0..32 { q[i] = q[i].wrapping_add(1); if q[i] != 0 { break; } } out.push(q.clone()); }
    out
}
fn extras_ed25519(gpk: &[u8]) -> Vec<Vec<u8>> {
    let mut v = scalars32_le((-crrl::ed25519::Scalar::ONE).encode());
    // neutral, points of order 2, 4, 8, non-canonical y, a point outside the prime-order subgroup
    for h in ["0100000000000000000000000000000000000000000000000000000000000000", "ecffffffffffffffffffffffffffffffffffffffffffffffffffffffffffff7f",
              "0000000000000000000000000000000000000000000000000000000000000000", "0000000000000000000000000000000000000000000000000000000000000080",
              "26e8958fc2b227b045c3f489f2ef98f0d5dfac05d3c63339b13802886d53fc05", "26e8958fc2b227b045c3f489f2ef98f0d5dfac05d3c63339b13802886d53fc85",
              "c7176a703d4dd84fba3c0b760d10670f2a2053fa2c39ccc64ec7fd7792ac037a", "c7176a703d4dd84fba3c0b760d10670f2a2053fa2c39ccc64ec7fd7792ac03fa",
              "edffffffffffffffffffffffffffffffffffffffffffffffffffffffffffff7f", "eeffffffffffffffffffffffffffffffffffffffffffffffffffffffffffff7f", "0100000000000000000000000000000000000000000000000000000000000080"] {
        v.push(hex::decode(h).unwrap());
    }
    if let Some(p) = crrl::ed25519::Point::decode(gpk) {
        // P + (point of order 2): outside the prime-order subgroup
        if let Some(t) = crrl::ed25519::Point::decode(&hex::decode("ecffffffffffffffffffffffffffffffffffffffffffffffffffffffffffff7f").unwrap()) { v.push((p + t).encode().to_vec()); }
        v.push(crrl::ristretto255::Point::mulgen(&crrl::ed25519::Scalar::from_u64(7)).encode().to_vec());
    }
    v
}
fn extras_ristretto255(gpk: &[u8]) -> Vec<Vec<u8>> {
    let mut v = scalars32_le((-crrl::ed25519::Scalar::ONE).encode());
    v.push(vec![0u8; 32]); // neutral
    v.push(crrl::ed25519::Point::mulgen(&crrl::ed25519::Scalar::from_u64(7)).encode().to_vec());
    let mut g = gpk.to_vec(); g[31] |= 0x80; v.push(g); // high bit set
    // negative s (odd): p - s
    let p = crate::ora::q255(19);
    let s = crate::ora::le_to_int(gpk);
    v.push(crate::ora::int_to_le(&(&p - &s), 32));
    v.push(crate::ora::int_to_le(&(&p + &s), 32).iter().cloned().take(32).collect());
    v
}
fn extras_ed448(gpk: &[u8]) -> Vec<Vec<u8>> {
    let mut v: Vec<Vec<u8>> = Vec::new();
    let qm1 = (-crrl::ed448::Scalar::ONE).encode();
    // scalars on 56 and 57 bytes: 0, q-1, q, 2^448-1, last byte non-zero
    v.push(vec![0u8; 57]); v.push(vec![0u8; 56]);
    let mut a = qm1.to_vec(); v.push(a.clone()); a.push(0); v.push(a.clone());
    let mut q = qm1.to_vec(); for i in 0..56 { q[i] = q[i].wrapping_add(1); if q[i] != 0 { break; } }
    v.push(q.clone()); q.push(0); v.push(q);
    let mut o = vec![0u8; 57]; o[0] = 1; o[56] = 1; v.push(o);
    let mut o = vec![0u8; 57]; o[56] = 0x80; v.push(o);
    v.push(vec![0xFFu8; 57]);
    // points: neutral, order 2, order 4, truncated to 56 bytes, decaf448 encoding, unused bits set
    let mut ne = vec![0u8; 57]; ne[0] = 1; v.push(ne);
    let p448 = crate::ora::pow2(448) - crate::ora::pow2(224) - 1;
    let mut m1 = crate::ora::int_to_le(&(&p448 - 1), 57); let order2 = m1.clone(); v.push(m1.clone()); m1[56] = 0x80; v.push(m1);
    v.push(vec![0u8; 57]);
    let mut z = vec![0u8; 57]; z[56] = 0x80; v.push(z);
    v.push(gpk[..56].to_vec());
    let mut g = gpk.to_vec(); g[56] |= 0x01; v.push(g);
    let mut g = gpk.to_vec(); g[56] ^= 0x80; v.push(g);
    v.push(crrl::decaf448::Point::mulgen(&crrl::ed448::Scalar::from_u64(7)).encode().to_vec());
    // a point outside the prime-order subgroup: P + (point of order 2)
    if let (Some(p), Some(t)) = (crrl::ed448::Point::decode(gpk), crrl::ed448::Point::decode(&order2)) { v.push((p + t).encode().to_vec()); }
    v
}
fn scalars32_be(order_minus_1_le: [u8; 32]) -> Vec<Vec<u8>> { scalars32_le(order_minus_1_le).into_iter().map(|mut x| { x.reverse(); x }).collect() }
fn extras_ws(gpk: &[u8], unc: Option<[u8; 65]>, qm1: [u8; 32], p_be: &str) -> Vec<Vec<u8>> {
    let mut v = scalars32_be(qm1);
    v.extend(scalars32_le(qm1)); // little-endian order-1 etc.: wrong byte order
    if let Some(u) = unc {
        v.push(u.to_vec());                                   // uncompressed, 65 bytes
        let mut h = u.to_vec(); h[0] = 0x06 | (u[64] & 1); v.push(h); // hybrid
        let mut c = u[..33].to_vec(); c[0] = 0x04; v.push(c); // 0x04 with 33 bytes
        let mut c = gpk.to_vec(); c[0] ^= 1; v.push(c);       // the opposite point (valid)
        let mut c = gpk.to_vec(); c[0] = 0x00; v.push(c);
        let mut c = gpk.to_vec(); c[0] = 0x05; v.push(c);
        v.push(u[1..33].to_vec());                            // bare x, 32 bytes
        v.push(u[1..].to_vec());                              // bare x || y, 64 bytes
    }
    v.push(vec![0u8]);                                        // point at infinity, 1 byte
    v.push(vec![0u8; 33]);
    v.push(vec![0u8; 65]);
    let p = hex::decode(p_be).unwrap();
    for pre in [2u8, 3] { let mut c = vec![pre]; c.extend_from_slice(&p); v.push(c); } // x = p (non-canonical 0)
    // x = gpk.x + p does not fit; x = p + small: non-canonical
    let pi = crate::ora::be_to_int(&p);
    for d in [1u32, 2, 3, 5] { let mut c = vec![2u8]; let mut x = crate::ora::int_to_le(&(&pi + d), 32); x.reverse(); c.extend_from_slice(&x); v.push(c); }
    v
}
fn extras_p256(gpk: &[u8]) -> Vec<Vec<u8>> {
    extras_ws(gpk, crrl::p256::Point::decode(gpk).map(|p| p.encode_uncompressed()), (-crrl::p256::Scalar::ONE).encode(), "ffffffff00000001000000000000000000000000ffffffffffffffffffffffff")
}
fn extras_secp256k1(gpk: &[u8]) -> Vec<Vec<u8>> {
    extras_ws(gpk, crrl::secp256k1::Point::decode(gpk).map(|p| p.encode_uncompressed()), (-crrl::secp256k1::Scalar::ONE).encode(), "fffffffffffffffffffffffffffffffffffffffffffffffffffffffefffffc2f")
}

frost_suite!(ed25519, "ed25519", 32, 32, Some(rfc8032_ed25519), extras_ed25519);
frost_suite!(ristretto255, "ristretto255", 32, 32, None, extras_ristretto255);
frost_suite!(ed448, "ed448", 57, 57, Some(rfc8032_ed448), extras_ed448);
frost_suite!(p256, "p256", 32, 33, None, extras_p256);
frost_suite!(secp256k1, "secp256k1", 32, 33, None, extras_secp256k1);

pub fn register(v: &mut Vec<Case>) {
    ed25519::register(v);
    ristretto255::register(v);
    ed448::register(v);
    p256::register(v);
    secp256k1::register(v);
}
