//! Boundary-biased input generation for the directed counterexample search.
use crate::ora::*;
use num_bigint::BigInt;

#[derive(Clone, Debug)]
pub enum Op {
    /// four u64 limbs (32 bytes LE) of a GF255<MQ> element, any pattern
    Limbs4 { mq: u64 },
    /// 32 bytes interpreted by a decoder for modulus 2^255-mq
    Bytes32 { mq: u64 },
    /// u32 control word: 0 or 0xFFFFFFFF
    Ctl,
    /// arbitrary u32
    U32,
    /// arbitrary u64
    U64,
    /// signed coefficient in -2^k..2^k stored as u64
    SCoef { bits: u32 },
    /// 128-bit unsigned integer (16 bytes LE)
    U128,
    /// 32 bytes, reduced into a scalar modulo a ~2^252..2^256 order (decode_reduce)
    Scalar32,
    /// N raw bytes
    Raw(usize),
    /// byte string of variable length (must be last operand), up to max
    VarBytes { max: usize, mq: u64 },
    /// operand with its own generators: `len` = Some(fixed length) or None (variable, must be last);
    /// `specials` = boundary inputs tried first (cartesian product with the other operands),
    /// `random` = boundary-biased random generator
    Custom { len: Option<usize>, specials: fn() -> Vec<Vec<u8>>, random: fn(&mut Rng) -> Vec<u8> },
}

impl Op {
    pub fn fixed_len(&self) -> Option<usize> {
        match self {
            Op::Limbs4 { .. } | Op::Bytes32 { .. } => Some(32),
            Op::Ctl | Op::U32 => Some(4),
            Op::U64 | Op::SCoef { .. } => Some(8),
            Op::U128 => Some(16),
            Op::Scalar32 => Some(32),
            Op::Raw(n) => Some(*n),
            Op::VarBytes { .. } => None,
            Op::Custom { len, .. } => *len,
        }
    }
}

pub struct Rng(pub u64);
impl Rng {
    pub fn next(&mut self) -> u64 {
        // splitmix64
        self.0 = self.0.wrapping_add(0x9E3779B97F4A7C15);
        let mut z = self.0;
        z = (z ^ (z >> 30)).wrapping_mul(0xBF58476D1CE4E5B9);
        z = (z ^ (z >> 27)).wrapping_mul(0x94D049BB133111EB);
        z ^ (z >> 31)
    }
    pub fn below(&mut self, n: u64) -> u64 { self.next() % n }
}

pub fn limb_palette(r: &mut Rng, mq: u64) -> u64 {
    match r.below(16) {
        0 => 0,
        1 => 1,
        2 => u64::MAX,
        3 => u64::MAX - 1,
        4 => 1u64 << 63,
        5 => (1u64 << 63) - 1,
        6 => (1u64 << 63) + 1,
        7 => mq.wrapping_neg(),
        8 => (2 * mq).wrapping_neg(),
        9 => (2 * mq).wrapping_neg().wrapping_add(r.below(4 * mq + 4)),
        10 => r.below(4 * mq + 8),
        11 => 1u64 << r.below(64),
        12 => u64::MAX << r.below(64),
        _ => r.next(),
    }
}

pub fn special_values_255(mq: u64) -> Vec<BigInt> {
    let q = q255(mq);
    let one = BigInt::from(1);
    let mut v = vec![
        BigInt::from(0), one.clone(), BigInt::from(2), BigInt::from(mq), BigInt::from(2 * mq),
        &q - 1, q.clone(), &q + 1, &q * 2 - 1, &q * 2, &q * 2 + 1,
        pow2(255) - 1, pow2(255), pow2(255) + 1, pow2(256) - 1, pow2(256) - 2,
        pow2(256) - BigInt::from(mq), pow2(256) - BigInt::from(2 * mq) - 1,
        (&q - 1) / 2, (&q + 1) / 2, pow2(64) - 1, pow2(64), pow2(128) - 1, pow2(128), pow2(192) - 1, pow2(192),
        pow2(254), pow2(254) - 1, pow2(253),
    ];
    v.retain(|x| x < &pow2(256));
    v
}

pub fn specials(op: &Op) -> Vec<Vec<u8>> {
    match op {
        Op::Limbs4 { mq } | Op::Bytes32 { mq } => special_values_255(*mq).iter().map(|x| int_to_le(x, 32)).collect(),
        Op::Ctl => vec![0u32.to_le_bytes().to_vec(), 0xFFFFFFFFu32.to_le_bytes().to_vec()],
        Op::U32 => [0u32, 1, 2, 3, 7, 8, 14, 15, 16, 17, 31, 32, 255, 256, 257, 0x10F, 0xFFFF, 0x10000, 0x1000F, 0x7FFFFFFF, 0x80000000, 0x80000003, 0xFFFFFF03, 0xFFFFFFFE, 0xFFFFFFFF]
            .iter().map(|x| x.to_le_bytes().to_vec()).collect(),
        Op::U64 => [0u64, 1, 2, u64::MAX, 1 << 63, (1 << 63) - 1, 1 << 32]
            .iter().map(|x| x.to_le_bytes().to_vec()).collect(),
        Op::SCoef { bits } => {
            let m = 1i64 << bits;
            [0i64, 1, -1, 2, -2, m, -m, m - 1, -(m - 1), m / 2, -(m / 2)]
                .iter().map(|x| (*x as u64).to_le_bytes().to_vec()).collect()
        }
        Op::U128 => {
            let mut v: Vec<u128> = vec![0, 1, 2, 15, 16, 17, 31, 32, 33, u128::MAX, u128::MAX - 1, 1 << 127, (1 << 127) - 1, (1 << 127) + 1, 1 << 64, (1 << 64) - 1];
            for d in 0..40u128 { v.push(u128::MAX - d); v.push((1u128 << 127) - 20 + d); }
            for k in [5u32, 40, 59, 60, 64, 65, 100, 120, 125, 126] { v.push((1u128 << k) - 1); v.push(((1u128 << k) - 1) << (128 - k)); v.push(0x11u128 << (k.min(122))); }
            v.iter().map(|x| x.to_le_bytes().to_vec()).collect()
        }
        Op::Scalar32 => {
            let mut v: Vec<Vec<u8>> = Vec::new();
            for b in [0u8, 1, 0x0F, 0x10, 0x11, 0x1F, 0x7F, 0x80, 0xFF] { v.push(vec![b; 32]); }
            // values near typical group orders and powers of two
            for k in [251u32, 252, 253, 254, 255] {
                for d in [-2i64, -1, 0, 1, 2] {
                    let x = pow2(k) + BigInt::from(d);
                    if x < pow2(256) { v.push(int_to_le(&x, 32)); }
                }
            }
            for d in 0..8u32 { v.push(int_to_le(&(pow2(256) - 1 - BigInt::from(d)), 32)); let mut w = vec![0u8; 32]; w[0] = d as u8; v.push(w); }
            v
        }
        Op::Raw(n) => vec![vec![0u8; *n], vec![0xFFu8; *n], (0..*n).map(|i| (i * 37 + 11) as u8).collect(), { let mut w = vec![0u8; *n]; if *n > 0 { w[0] = 1; } w }, { let mut w = vec![0xFFu8; *n]; if *n > 0 { w[*n - 1] = 0x7F; } w }],
        Op::Custom { specials, .. } => specials(),
        Op::VarBytes { max, mq } => {
            let mut v: Vec<Vec<u8>> = Vec::new();
            for n in [0usize, 1, 31, 32, 33, 63, 64, 65, 96, 97] {
                if n <= *max {
                    v.push(vec![0u8; n]);
                    v.push(vec![0xFFu8; n]);
                }
            }
            for x in special_values_255(*mq) {
                v.push(int_to_le(&x, 32));
                let mut w = int_to_le(&x, 32); w.extend_from_slice(&int_to_le(&x, 32)); if w.len() <= *max { v.push(w); }
            }
            v
        }
    }
}

pub fn random(op: &Op, r: &mut Rng) -> Vec<u8> {
    match op {
        Op::Limbs4 { mq } | Op::Bytes32 { mq } => {
            if r.below(4) == 0 {
                // special value +/- small delta
                let sp = special_values_255(*mq);
                let x = &sp[r.below(sp.len() as u64) as usize];
                let d = BigInt::from(r.below(8) as i64 - 4);
                let y = x + d;
                if y >= BigInt::from(0) && y < pow2(256) { return int_to_le(&y, 32); }
            }
            let mut b = Vec::new();
            for _ in 0..4 { b.extend_from_slice(&limb_palette(r, *mq).to_le_bytes()); }
            b
        }
        Op::Ctl => if r.below(2) == 0 { 0u32 } else { 0xFFFFFFFFu32 }.to_le_bytes().to_vec(),
        Op::U32 => (match r.below(6) { 0 => r.below(64) as u32, 1 => (r.next() as u32) | 0x80000000, 2 => ((r.next() as u32) << 8) | (r.below(20) as u32), 3 => (1u32 << r.below(32)) | (r.below(16) as u32), _ => r.next() as u32 }).to_le_bytes().to_vec(),
        Op::U64 => limb_palette(r, 19).to_le_bytes().to_vec(),
        Op::SCoef { bits } => {
            let m = 1i64 << bits;
            let x = match r.below(4) { 0 => m - r.below(4) as i64, 1 => -m + r.below(4) as i64, _ => (r.next() as i64) % (m + 1) };
            (x as u64).to_le_bytes().to_vec()
        }
        Op::U128 => {
            let x = match r.below(6) {
                0 => u128::MAX - r.below(64) as u128,
                1 => (1u128 << r.below(128)).wrapping_sub(1).wrapping_add(r.below(3) as u128),
                2 => { let k = r.below(120) as u32; (((1u128 << (r.below(70) + 1)) - 1) << k) | (r.below(32) as u128) << k.saturating_sub(5) }
                3 => ((r.next() as u128) << 64) | (u64::MAX as u128),
                _ => ((limb_palette(r, 19) as u128) << 64) | limb_palette(r, 19) as u128,
            };
            x.to_le_bytes().to_vec()
        }
        Op::Scalar32 | Op::Raw(_) => {
            let n = match op { Op::Raw(n) => *n, _ => 32 };
            let mut b = Vec::with_capacity(n + 8);
            let mode = r.below(4);
            while b.len() < n {
                let w = match mode { 0 => r.next(), 1 => limb_palette(r, 19), 2 => if r.below(2) == 0 { u64::MAX } else { r.next() | 0xFFFF_FFFF_0000_0000 }, _ => limb_palette(r, 3957) };
                b.extend_from_slice(&w.to_le_bytes());
            }
            b.truncate(n);
            b
        }
        Op::Custom { random, .. } => random(r),
        Op::VarBytes { max, mq } => {
            let n = match r.below(4) { 0 => r.below(*max as u64 + 1) as usize, 1 => 32 * (r.below(*max as u64 / 32 + 1) as usize), _ => (32 * (r.below(*max as u64 / 32 + 1) as usize) + r.below(3) as usize).saturating_sub(1).min(*max) };
            let mut b = Vec::with_capacity(n);
            while b.len() < n {
                let w = limb_palette(r, *mq).to_le_bytes();
                for x in w { if b.len() < n { b.push(x); } }
            }
            b
        }
    }
}

/// Split an input into operand byte strings according to ops.
pub fn split<'a>(ops: &[Op], input: &'a [u8]) -> Option<Vec<&'a [u8]>> {
    let mut out = Vec::new();
    let mut p = 0;
    for op in ops {
        match op.fixed_len() {
            Some(n) => { if p + n > input.len() { return None; } out.push(&input[p..p + n]); p += n; }
            None => { out.push(&input[p..]); p = input.len(); }
        }
    }
    if p != input.len() { return None; }
    Some(out)
}
