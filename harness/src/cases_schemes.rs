//! Executable postconditions for the scheme-level properties:
//!   C14 X25519 / X448 == RFC 7748 (big-integer ladder)
//!   C07 Ed25519 / Ed448 == strict, cofactored RFC 8032 (big-integer Edwards arithmetic)
//!   C08 ECDSA P-256 / secp256k1 (big-integer Weierstrass arithmetic, RFC 6979)
//!   C09 jq255e / jq255s / gls254 Schnorr signatures and ECDH (relational)
//!   C16 LMS state handling over a key life (relational)
//!
//! Hash functions used inside the oracles are the crate's own (their
//! correctness is the subject of cases_hash.rs).
#![allow(non_snake_case)]
use crate::gen::{split, Rng};
use crate::ora::*;
use crate::{Case, Op};
use num_bigint::BigInt;
use std::sync::OnceLock;

fn bi(x: i64) -> BigInt { BigInt::from(x) }
fn hexint(s: &str) -> BigInt { BigInt::parse_bytes(s.as_bytes(), 16).unwrap() }
fn decint(s: &str) -> BigInt { BigInt::parse_bytes(s.as_bytes(), 10).unwrap() }
fn is_zero(x: &BigInt) -> bool { x.sign() == num_bigint::Sign::NoSign }
fn int_to_be(x: &BigInt, len: usize) -> Vec<u8> { let mut v = int_to_le(x, len); v.reverse(); v }
fn bit(x: &BigInt, i: u64) -> bool { x.bit(i) }
fn chk(cond: bool, msg: impl FnOnce() -> String) -> Result<(), String> { if cond { Ok(()) } else { Err(msg()) } }
fn rand_bytes(r: &mut Rng, n: usize) -> Vec<u8> { (0..n).map(|_| r.next() as u8).collect() }
/// structured random bytes: runs of 00 / FF, sparse, or uniform
fn biased_bytes(r: &mut Rng, n: usize) -> Vec<u8> {
    match r.below(6) {
        0 => vec![0u8; n],
        1 => vec![0xFFu8; n],
        2 => { let mut v = vec![0u8; n]; if n > 0 { let i = r.below(n as u64) as usize; v[i] = 1 << r.below(8); } v }
        3 => { let mut v = vec![0xFFu8; n]; if n > 0 { let i = r.below(n as u64) as usize; v[i] ^= 1 << r.below(8); } v }
        _ => rand_bytes(r, n),
    }
}

// ======================================================================
// C14: X25519 / X448 (RFC 7748 section 5)
// ======================================================================

fn p25519() -> BigInt { pow2(255) - 19 }
fn p448() -> BigInt { pow2(448) - pow2(224) - 1 }

/// RFC 7748 Montgomery ladder; k already clamped, u already decoded.
fn rfc7748_ladder(k: &BigInt, u: &BigInt, bits: u64, p: &BigInt, a24: u32) -> BigInt {
    let x1 = emod(u, p);
    let mut x2 = bi(1);
    let mut z2 = bi(0);
    let mut x3 = x1.clone();
    let mut z3 = bi(1);
    let mut swap = false;
    for t in (0..bits).rev() {
        let kt = bit(k, t);
        swap ^= kt;
        if swap { std::mem::swap(&mut x2, &mut x3); std::mem::swap(&mut z2, &mut z3); }
        swap = kt;
        let a = (&x2 + &z2) % p;
        let aa = (&a * &a) % p;
        let b = emod(&(&x2 - &z2), p);
        let bb = (&b * &b) % p;
        let e = emod(&(&aa - &bb), p);
        let c = (&x3 + &z3) % p;
        let d = emod(&(&x3 - &z3), p);
        let da = (&d * &a) % p;
        let cb = (&c * &b) % p;
        let s = (&da + &cb) % p;
        x3 = (&s * &s) % p;
        let df = emod(&(&da - &cb), p);
        z3 = (&x1 * ((&df * &df) % p)) % p;
        x2 = (&aa * &bb) % p;
        z2 = (&e * ((&aa + BigInt::from(a24) * &e) % p)) % p;
    }
    if swap { std::mem::swap(&mut x2, &mut x3); std::mem::swap(&mut z2, &mut z3); }
    (x2 * modpow(&z2, &(p - 2), p)) % p
}

fn ref_x25519(u: &[u8], k: &[u8]) -> Vec<u8> {
    let mut kb = k.to_vec();
    kb[0] &= 248; kb[31] &= 127; kb[31] |= 64;
    let mut ub = u.to_vec();
    ub[31] &= 127;
    int_to_le(&rfc7748_ladder(&le_to_int(&kb), &le_to_int(&ub), 255, &p25519(), 121665), 32)
}
fn ref_x448(u: &[u8], k: &[u8]) -> Vec<u8> {
    let mut kb = k.to_vec();
    kb[0] &= 252; kb[55] |= 128;
    int_to_le(&rfc7748_ladder(&le_to_int(&kb), &le_to_int(u), 448, &p448(), 39081), 56)
}

fn sp_u25519() -> Vec<Vec<u8>> {
    let p = p25519();
    let mut v: Vec<BigInt> = vec![bi(0), bi(1), bi(2), bi(9), &p - 1, p.clone(), &p + 1, &p + 2, &p + 9, &p + 18, pow2(255) - 1, &p - 2, (&p - 1) / 2, pow2(254)];
    // u-coordinates of the points of order 8 (and 4: u = p-1 on the curve, u = 1 on the twist)
    v.push(le_to_int(&hex::decode("e0eb7a7c3b41b8ae1656e3faf19fc46ada098deb9c32b1fd866205165f49b800").unwrap()));
    v.push(le_to_int(&hex::decode("5f9c95bca3508c24b1d0b1559c83ef5b04445cc4581c8e86d8224eddd09f1157").unwrap()));
    let mut out = Vec::new();
    for x in &v {
        out.push(int_to_le(x, 32));
        out.push(int_to_le(&(x + pow2(255)), 32)); // top bit set: must be ignored
    }
    out
}
fn sp_k32() -> Vec<Vec<u8>> {
    let mut v = vec![vec![0u8; 32], vec![0xFFu8; 32]];
    for (i, b) in [(0usize, 7u8), (0, 1), (0, 8), (31, 0x80), (31, 0x40), (31, 0xC0), (31, 0x3F), (31, 0x7F)] { let mut k = vec![0u8; 32]; k[i] = b; v.push(k); }
    let mut k = vec![0xFFu8; 32]; k[0] = 0xF8; k[31] = 0x3F; v.push(k);
    v.push((0..32).map(|i| (i * 37 + 11) as u8).collect());
    v
}
fn rnd_u25519(r: &mut Rng) -> Vec<u8> {
    match r.below(4) {
        0 => { let sp = sp_u25519(); let x = le_to_int(&sp[r.below(sp.len() as u64) as usize]) + bi(r.below(9) as i64 - 4); if x.sign() != num_bigint::Sign::Minus && x < pow2(256) { int_to_le(&x, 32) } else { vec![0u8; 32] } }
        1 => { let mut b = int_to_le(&(p25519() + bi(r.below(19) as i64)), 32); b[31] |= (r.below(2) as u8) << 7; b }
        _ => biased_bytes(r, 32),
    }
}
fn rnd_k(r: &mut Rng, n: usize) -> Vec<u8> {
    let mut k = biased_bytes(r, n);
    if r.below(3) == 0 { k[0] = (k[0] & 0xF8) | r.below(8) as u8; k[n - 1] = (k[n - 1] & 0x3F) | ((r.below(4) as u8) << 6); }
    k
}
fn rnd_k32(r: &mut Rng) -> Vec<u8> { rnd_k(r, 32) }
fn rnd_k56(r: &mut Rng) -> Vec<u8> { rnd_k(r, 56) }

fn sp_u448() -> Vec<Vec<u8>> {
    let p = p448();
    let v: Vec<BigInt> = vec![bi(0), bi(1), bi(2), bi(5), &p - 1, p.clone(), &p + 1, &p + 5, pow2(448) - 1, pow2(448) - 2, &p - 2, (&p - 1) / 2,
        pow2(224), pow2(224) - 1, pow2(224) + 1, pow2(447), &p + pow2(224), pow2(448) - pow2(224), pow2(448) - pow2(224) + 1];
    v.iter().map(|x| int_to_le(x, 56)).collect()
}
fn sp_k56() -> Vec<Vec<u8>> {
    let mut v = vec![vec![0u8; 56], vec![0xFFu8; 56]];
    for (i, b) in [(0usize, 3u8), (0, 1), (0, 4), (55, 0x80), (55, 0x7F), (55, 0x40)] { let mut k = vec![0u8; 56]; k[i] = b; v.push(k); }
    let mut k = vec![0xFFu8; 56]; k[0] = 0xFC; k[55] = 0x7F; v.push(k);
    v.push((0..56).map(|i| (i * 37 + 11) as u8).collect());
    v
}
fn rnd_u448(r: &mut Rng) -> Vec<u8> {
    match r.below(4) {
        0 => { let sp = sp_u448(); let x = le_to_int(&sp[r.below(sp.len() as u64) as usize]) + bi(r.below(9) as i64 - 4); if x.sign() != num_bigint::Sign::Minus && x < pow2(448) { int_to_le(&x, 56) } else { vec![0u8; 56] } }
        1 => { let x = p448() + BigInt::from(r.next()) * if r.below(2) == 0 { bi(1) } else { pow2(160) }; if x < pow2(448) { int_to_le(&x, 56) } else { vec![0xFFu8; 56] } }
        _ => biased_bytes(r, 56),
    }
}

fn reg_x(v: &mut Vec<Case>) {
    let ops = vec![Op::Custom { len: Some(32), specials: sp_u25519, random: rnd_u25519 }, Op::Custom { len: Some(32), specials: sp_k32, random: rnd_k32 }];
    { let o = ops.clone();
      v.push(Case { id: "x25519_ladder".into(), describe: "x25519(u, k) == RFC 7748 X25519 computed with big integers, all 32-byte inputs. Input: u(32) k(32)", ops: ops.clone(),
        run: Box::new(move |inp: &[u8]| {
            let o = split(&o, inp).ok_or("bad input length")?;
            let (u, k): ([u8; 32], [u8; 32]) = (o[0].try_into().unwrap(), o[1].try_into().unwrap());
            let got = crrl::x25519::x25519(&u, &k);
            let want = ref_x25519(&u, &k);
            chk(got[..] == want[..], || format!("x25519: got {} want {}", hex(&got), hex(&want)))
        }) }); }
    { let kop = vec![Op::Custom { len: Some(32), specials: sp_k32, random: rnd_k32 }];
      v.push(Case { id: "x25519_base".into(), describe: "x25519_base(k) == RFC 7748 X25519(k, 9) == x25519(9, k). Input: k(32)", ops: kop,
        run: Box::new(|inp: &[u8]| {
            if inp.len() != 32 { return Ok(()); }
            let k: [u8; 32] = inp.try_into().unwrap();
            let mut nine = [0u8; 32]; nine[0] = 9;
            let got = crrl::x25519::x25519_base(&k);
            let want = ref_x25519(&nine, &k);
            chk(got[..] == want[..], || format!("x25519_base: got {} want {}", hex(&got), hex(&want)))?;
            let g2 = crrl::x25519::x25519(&nine, &k);
            chk(g2 == got, || format!("x25519(9,k) {} != x25519_base(k) {}", hex(&g2), hex(&got)))
        }) }); }
    let ops = vec![Op::Custom { len: Some(56), specials: sp_u448, random: rnd_u448 }, Op::Custom { len: Some(56), specials: sp_k56, random: rnd_k56 }];
    { let o = ops.clone();
      v.push(Case { id: "x448_ladder".into(), describe: "x448(u, k) == RFC 7748 X448 computed with big integers, all 56-byte inputs. Input: u(56) k(56)", ops: ops.clone(),
        run: Box::new(move |inp: &[u8]| {
            let o = split(&o, inp).ok_or("bad input length")?;
            let (u, k): ([u8; 56], [u8; 56]) = (o[0].try_into().unwrap(), o[1].try_into().unwrap());
            let got = crrl::x448::x448(&u, &k);
            let want = ref_x448(&u, &k);
            chk(got[..] == want[..], || format!("x448: got {} want {}", hex(&got), hex(&want)))
        }) }); }
    { let kop = vec![Op::Custom { len: Some(56), specials: sp_k56, random: rnd_k56 }];
      v.push(Case { id: "x448_base".into(), describe: "x448_base(k) == RFC 7748 X448(k, 5) == x448(5, k). Input: k(56)", ops: kop,
        run: Box::new(|inp: &[u8]| {
            if inp.len() != 56 { return Ok(()); }
            let k: [u8; 56] = inp.try_into().unwrap();
            let mut five = [0u8; 56]; five[0] = 5;
            let got = crrl::x448::x448_base(&k);
            let want = ref_x448(&five, &k);
            chk(got[..] == want[..], || format!("x448_base: got {} want {}", hex(&got), hex(&want)))?;
            let g2 = crrl::x448::x448(&five, &k);
            chk(g2 == got, || format!("x448(5,k) {} != x448_base(k) {}", hex(&g2), hex(&got)))
        }) }); }
}


// ======================================================================
// C07: Ed25519 / Ed448 (RFC 8032), strict + cofactored verification
// ======================================================================
//
// Reference arithmetic: twisted Edwards curve a*x^2 + y^2 = 1 + d*x^2*y^2 with the
// complete addition law
//     x3 = (x1*y2 + y1*x2) / (1 + d*x1*x2*y1*y2),  y3 = (y1*y2 - a*x1*x2) / (1 - d*x1*x2*y1*y2)
// evaluated on fractions (X/Z, Y/Z) so that a scalar multiplication needs no modular
// inversion; `ed_add_affine` is the literal affine law, used to cross-check in the unit test.

struct EdCurve {
    p: BigInt,
    a: BigInt,
    d: BigInt,
    l: BigInt,
    bx: BigInt,
    by: BigInt,
    cof_log2: u32,
    enc_len: usize,
    is448: bool,
}
type EdPt = (BigInt, BigInt, BigInt);

fn ed25519_curve() -> &'static EdCurve {
    static C: OnceLock<EdCurve> = OnceLock::new();
    C.get_or_init(|| {
        let p = p25519();
        let d = emod(&(bi(-121665) * modinv(&bi(121666), &p)), &p);
        let l = pow2(252) + decint("27742317777372353535851937790883648493");
        let by = (bi(4) * modinv(&bi(5), &p)) % &p;
        let mut c = EdCurve { p: p.clone(), a: &p - 1, d, l, bx: bi(0), by: by.clone(), cof_log2: 3, enc_len: 32, is448: false };
        // base point: y = 4/5, x "positive" (even)
        let b = ed_decode(&c, &int_to_le(&by, 32)).expect("base point");
        c.bx = b.0;
        c
    })
}
fn ed448_curve() -> &'static EdCurve {
    static C: OnceLock<EdCurve> = OnceLock::new();
    C.get_or_init(|| {
        let p = p448();
        EdCurve {
            p: p.clone(), a: bi(1), d: &p - 39081,
            l: pow2(446) - decint("13818066809895115352007386748515426880336692474882178609894547503885"),
            bx: decint("224580040295924300187604334099896036246789641632564134246125461686950415467406032909029192869357953282578032075146446173674602635247710"),
            by: decint("298819210078481492676017930443930673437544040154080242095928241372331506189835876003536878655418784733982303233503462500531545062832660"),
            cof_log2: 2, enc_len: 57, is448: true,
        }
    })
}

#[allow(dead_code)]
fn ed_on_curve(c: &EdCurve, x: &BigInt, y: &BigInt) -> bool {
    let p = &c.p;
    let xx = (x * x) % p;
    let yy = (y * y) % p;
    emod(&(&c.a * &xx + &yy), p) == emod(&(bi(1) + &c.d * &xx % p * &yy), p)
}
fn ed_neutral() -> EdPt { (bi(0), bi(1), bi(1)) }
fn ed_add(c: &EdCurve, p1: &EdPt, p2: &EdPt) -> EdPt {
    let p = &c.p;
    let (x1, y1, z1) = p1;
    let (x2, y2, z2) = p2;
    let a = (z1 * z2) % p;
    let b = (&a * &a) % p;
    let cc = (x1 * x2) % p;
    let dd = (y1 * y2) % p;
    let e = (&c.d * &cc % p * &dd) % p;
    let f = emod(&(&b - &e), p);
    let g = (&b + &e) % p;
    let xy = ((x1 * y2) % p + (y1 * x2) % p) % p;
    let x3 = (&a * &f % p * xy) % p;
    let y3 = (&a * &g % p * emod(&(&dd - &c.a * &cc), p)) % p;
    let z3 = (f * g) % p;
    (x3, y3, z3)
}
fn ed_add_affine(c: &EdCurve, p1: &(BigInt, BigInt), p2: &(BigInt, BigInt)) -> (BigInt, BigInt) {
    let p = &c.p;
    let (x1, y1) = p1;
    let (x2, y2) = p2;
    let t = (&c.d * x1 % p * x2 % p * y1 % p * y2) % p;
    let x3 = ((x1 * y2 + y1 * x2) % p * modinv(&((bi(1) + &t) % p), p)) % p;
    let y3 = (emod(&(y1 * y2 - &c.a * x1 % p * x2), p) * modinv(&emod(&(bi(1) - &t), p), p)) % p;
    (x3, y3)
}
fn ed_neg(c: &EdCurve, q: &EdPt) -> EdPt { (emod(&(-&q.0), &c.p), q.1.clone(), q.2.clone()) }
fn ed_affine(c: &EdCurve, q: &EdPt) -> (BigInt, BigInt) {
    let zi = modinv(&q.2, &c.p);
    ((&q.0 * &zi) % &c.p, (&q.1 * &zi) % &c.p)
}
fn ed_is_neutral(c: &EdCurve, q: &EdPt) -> bool { is_zero(&(&q.0 % &c.p)) && emod(&(&q.1 - &q.2), &c.p) == bi(0) }
fn ed_mul(c: &EdCurve, k: &BigInt, q: &EdPt) -> EdPt {
    let mut acc = ed_neutral();
    for t in (0..k.bits()).rev() {
        acc = ed_add(c, &acc, &acc);
        if bit(k, t) { acc = ed_add(c, &acc, q); }
    }
    acc
}
/// [k1]Q1 + [k2]Q2 with one shared doubling chain
fn ed_mul2(c: &EdCurve, k1: &BigInt, q1: &EdPt, k2: &BigInt, q2: &EdPt) -> EdPt {
    let q12 = ed_add(c, q1, q2);
    let mut acc = ed_neutral();
    for t in (0..k1.bits().max(k2.bits())).rev() {
        acc = ed_add(c, &acc, &acc);
        match (bit(k1, t), bit(k2, t)) {
            (true, true) => acc = ed_add(c, &acc, &q12),
            (true, false) => acc = ed_add(c, &acc, q1),
            (false, true) => acc = ed_add(c, &acc, q2),
            _ => {}
        }
    }
    acc
}
fn ed_base(c: &EdCurve) -> EdPt { (c.bx.clone(), c.by.clone(), bi(1)) }

/// RFC 8032 5.1.3 / 5.2.3 decoding, strict (canonical y, x = 0 with sign bit set rejected,
/// unused bits of the last Ed448 byte must be zero)
fn ed_decode(c: &EdCurve, enc: &[u8]) -> Option<(BigInt, BigInt)> {
    if enc.len() != c.enc_len { return None; }
    let p = &c.p;
    let sign = enc[c.enc_len - 1] >> 7;
    let mut yb = enc.to_vec();
    yb[c.enc_len - 1] &= 0x7F;
    let y = le_to_int(&yb);
    if &y >= p { return None; }
    let yy = (&y * &y) % p;
    let u = emod(&(&yy - 1), p);
    let v = emod(&(&c.d * &yy - &c.a), p); // a*x^2 + y^2 = 1 + d*x^2*y^2  =>  x^2 = (y^2 - 1) / (d*y^2 - a)
    if is_zero(&v) { return None; }
    let x2 = (&u * modinv(&v, p)) % p;
    let mut x;
    if c.is448 {
        x = modpow(&x2, &((p + 1) / 4), p);
    } else {
        x = modpow(&x2, &((p + 3) / 8), p);
        if (&x * &x) % p != x2 { x = (&x * modpow(&bi(2), &((p - 1) / 4), p)) % p; }
    }
    if (&x * &x) % p != x2 { return None; }
    if is_zero(&x) && sign == 1 { return None; }
    if bit(&x, 0) != (sign == 1) { x = p - &x; }
    Some((x, y))
}
fn ed_encode(c: &EdCurve, q: &(BigInt, BigInt)) -> Vec<u8> {
    let mut e = int_to_le(&q.1, c.enc_len);
    if bit(&q.0, 0) { e[c.enc_len - 1] |= 0x80; }
    e
}

#[derive(Clone, Copy, PartialEq, Debug)]
enum EdMode { Raw, Ctx, Ph }

/// H(dom || parts...) as a little-endian integer. Ed25519: SHA-512, dom2 only for ctx/ph;
/// Ed448: SHAKE256(.., 114), dom4 always (raw == empty context).
fn ed_hash(c: &EdCurve, mode: EdMode, ctx: &[u8], parts: &[&[u8]]) -> BigInt {
    let f = if mode == EdMode::Ph { 1u8 } else { 0u8 };
    if c.is448 {
        let mut sh = crrl::sha3::SHAKE256::new();
        sh.inject(b"SigEd448");
        let cx: &[u8] = if mode == EdMode::Raw { &[] } else { ctx };
        sh.inject(&[f, cx.len() as u8]);
        sh.inject(cx);
        for x in parts { sh.inject(x); }
        let mut o = [0u8; 114];
        sh.flip_extract(&mut o);
        le_to_int(&o)
    } else {
        let mut sh = crrl::sha2::Sha512::new();
        if mode != EdMode::Raw {
            sh.update(b"SigEd25519 no Ed25519 collisions");
            sh.update(&[f, ctx.len() as u8]);
            sh.update(ctx);
        }
        for x in parts { sh.update(x); }
        le_to_int(&sh.finalize())
    }
}

/// RFC 8032 5.1.5 / 5.2.5: secret scalar and prefix from the seed
fn ed_expand(c: &EdCurve, seed: &[u8]) -> (BigInt, Vec<u8>) {
    if c.is448 {
        let mut sh = crrl::sha3::SHAKE256::new();
        sh.inject(seed);
        let mut h = [0u8; 114];
        sh.flip_extract(&mut h);
        h[0] &= 0xFC; h[55] |= 0x80; h[56] = 0;
        (le_to_int(&h[..57]), h[57..].to_vec())
    } else {
        let mut h = crrl::sha2::Sha512::hash(seed);
        h[0] &= 0xF8; h[31] &= 0x7F; h[31] |= 0x40;
        (le_to_int(&h[..32]), h[32..].to_vec())
    }
}

/// RFC 8032 5.1.6 / 5.2.6. Returns (signature, encoded public key).
fn ed_ref_sign(c: &EdCurve, seed: &[u8], mode: EdMode, ctx: &[u8], msg: &[u8]) -> (Vec<u8>, Vec<u8>) {
    let (s, prefix) = ed_expand(c, seed);
    let b = ed_base(c);
    let a_enc = ed_encode(c, &ed_affine(c, &ed_mul(c, &s, &b)));
    let r = ed_hash(c, mode, ctx, &[&prefix, msg]) % &c.l;
    let r_enc = ed_encode(c, &ed_affine(c, &ed_mul(c, &r, &b)));
    let k = ed_hash(c, mode, ctx, &[&r_enc, &a_enc, msg]) % &c.l;
    let ss = (r + k * s) % &c.l;
    let mut sig = r_enc;
    sig.extend_from_slice(&int_to_le(&ss, c.enc_len));
    (sig, a_enc)
}

/// Strict RFC 8032 verification with the cofactored equation [2^c]([S]B - R - [k]A) == neutral.
fn ed_ref_verify(c: &EdCurve, a_enc: &[u8], sig: &[u8], mode: EdMode, ctx: &[u8], msg: &[u8]) -> bool {
    if sig.len() != 2 * c.enc_len { return false; }
    let a = match ed_decode(c, a_enc) { Some(a) => a, None => return false };
    let r = match ed_decode(c, &sig[..c.enc_len]) { Some(r) => r, None => return false };
    let s = le_to_int(&sig[c.enc_len..]);
    if s >= c.l { return false; }
    let k = ed_hash(c, mode, ctx, &[&sig[..c.enc_len], a_enc, msg]) % &c.l;
    let na = ed_neg(c, &(a.0, a.1, bi(1)));
    let mut t = ed_mul2(c, &s, &ed_base(c), &k, &na);
    t = ed_add(c, &t, &ed_neg(c, &(r.0, r.1, bi(1))));
    for _ in 0..c.cof_log2 { t = ed_add(c, &t, &t); }
    ed_is_neutral(c, &t)
}

/// all points of order dividing the cofactor (affine), neutral first
fn ed_low_order(c: &'static EdCurve) -> Vec<(BigInt, BigInt)> {
    let mut out: Vec<(BigInt, BigInt)> = vec![(bi(0), bi(1))];
    let n = 1usize << c.cof_log2;
    let mut y = 2u32;
    while out.len() < n {
        y += 1;
        let q = match ed_decode(c, &int_to_le(&BigInt::from(y), c.enc_len)) { Some(q) => q, None => continue };
        let t = ed_affine(c, &ed_mul(c, &c.l, &(q.0, q.1, bi(1))));
        // close the set under addition with t
        let mut cur = t.clone();
        loop {
            if !out.contains(&cur) {
                let snapshot = out.clone();
                for o in snapshot { let s = ed_add_affine(c, &o, &cur); if !out.contains(&s) { out.push(s); } }
            }
            cur = ed_add_affine(c, &cur, &t);
            if cur == (bi(0), bi(1)) { break; }
        }
    }
    out
}
fn ed25519_low() -> &'static Vec<(BigInt, BigInt)> { static L: OnceLock<Vec<(BigInt, BigInt)>> = OnceLock::new(); L.get_or_init(|| ed_low_order(ed25519_curve())) }
fn ed448_low() -> &'static Vec<(BigInt, BigInt)> { static L: OnceLock<Vec<(BigInt, BigInt)>> = OnceLock::new(); L.get_or_init(|| ed_low_order(ed448_curve())) }

/// non-canonical encodings of a point, if any exist (y + p fits the field width; x = 0 with sign bit)
fn ed_noncanonical(c: &EdCurve, q: &(BigInt, BigInt)) -> Vec<Vec<u8>> {
    let mut out = Vec::new();
    let ybits = if c.is448 { 448 } else { 255 };
    let y2 = &q.1 + &c.p;
    if y2 < pow2(ybits) {
        let mut e = int_to_le(&y2, c.enc_len);
        if bit(&q.0, 0) { e[c.enc_len - 1] |= 0x80; }
        out.push(e);
    }
    if is_zero(&q.0) {
        let mut e = int_to_le(&q.1, c.enc_len);
        e[c.enc_len - 1] |= 0x80;
        out.push(e);
    }
    if c.is448 {
        // a set bit among the 7 unused bits of the last byte
        let mut e = ed_encode(c, q);
        e[56] |= 0x01;
        out.push(e);
    }
    out
}

// ---- library bindings ----

trait EdLib {
    fn curve() -> &'static EdCurve;
    fn low() -> &'static Vec<(BigInt, BigInt)>;
    fn pk_of_seed(seed: &[u8]) -> Vec<u8>;
    fn sign(seed: &[u8], mode: EdMode, ctx: &[u8], msg: &[u8]) -> Vec<u8>;
    /// None when the library refuses to decode the public key
    fn verify(a_enc: &[u8], sig: &[u8], mode: EdMode, ctx: &[u8], msg: &[u8]) -> Option<bool>;
}
struct L25519;
struct L448;
macro_rules! impl_edlib { ($T:ty, $m:ident, $curve:ident, $low:ident) => {
    impl EdLib for $T {
        fn curve() -> &'static EdCurve { $curve() }
        fn low() -> &'static Vec<(BigInt, BigInt)> { $low() }
        fn pk_of_seed(seed: &[u8]) -> Vec<u8> { crrl::$m::PrivateKey::from_seed(seed).public_key.encode().to_vec() }
        fn sign(seed: &[u8], mode: EdMode, ctx: &[u8], msg: &[u8]) -> Vec<u8> {
            let sk = crrl::$m::PrivateKey::from_seed(seed);
            match mode { EdMode::Raw => sk.sign_raw(msg).to_vec(), EdMode::Ctx => sk.sign_ctx(ctx, msg).to_vec(), EdMode::Ph => sk.sign_ph(ctx, msg).to_vec() }
        }
        fn verify(a_enc: &[u8], sig: &[u8], mode: EdMode, ctx: &[u8], msg: &[u8]) -> Option<bool> {
            let pk = crrl::$m::PublicKey::decode(a_enc)?;
            Some(match mode { EdMode::Raw => pk.verify_raw(sig, msg), EdMode::Ctx => pk.verify_ctx(sig, ctx, msg), EdMode::Ph => pk.verify_ph(sig, ctx, msg) })
        }
    }
} }
impl_edlib!(L25519, ed25519, ed25519_curve, ed25519_low);
impl_edlib!(L448, ed448, ed448_curve, ed448_low);

// ---- input layout ----
// seed (32 / 57 bytes) | ctl (8 bytes) | ctx_len (1) ctx (ctx_len) msg (rest)
//   ctl[0] % 3: 0 raw, 1 ctx, 2 ph;  ctl[1]: mutation;  ctl[2..8]: mutation parameters

fn parse_ctx_msg(b: &[u8]) -> Option<(&[u8], &[u8])> {
    let n = *b.first()? as usize;
    if b.len() < 1 + n { return None; }
    Some((&b[1..1 + n], &b[1 + n..]))
}
fn mode_of(b: u8) -> EdMode { match b % 3 { 0 => EdMode::Raw, 1 => EdMode::Ctx, _ => EdMode::Ph } }

fn run_ed_sign<E: EdLib>(seed: &[u8], ctl: &[u8], rest: &[u8]) -> Result<(), String> {
    let c = E::curve();
    let (ctx, msg) = match parse_ctx_msg(rest) { Some(x) => x, None => return Ok(()) };
    let mode = mode_of(ctl[0]);
    let ctx: &[u8] = if mode == EdMode::Raw { &[] } else { ctx };
    let (want, a_enc) = ed_ref_sign(c, seed, mode, ctx, msg);
    let pk = E::pk_of_seed(seed);
    chk(pk == a_enc, || format!("public key: got {} want {}", hex(&pk), hex(&a_enc)))?;
    let got = E::sign(seed, mode, ctx, msg);
    chk(got == want, || format!("signature ({:?}, ctx len {}, msg len {}): got {} want {}", mode, ctx.len(), msg.len(), hex(&got), hex(&want)))?;
    let ok = E::verify(&pk, &got, mode, ctx, msg);
    chk(ok == Some(true), || format!("own signature not accepted ({:?}): {:?}", mode, ok))
}

const ED_MUTATIONS: u8 = 17;

fn run_ed_verify<E: EdLib>(seed: &[u8], ctl: &[u8], rest: &[u8]) -> Result<(), String> {
    let c = E::curve();
    let n = c.enc_len;
    let (ctx0, msg0) = match parse_ctx_msg(rest) { Some(x) => x, None => return Ok(()) };
    let mode = mode_of(ctl[0]);
    let ctx0: &[u8] = if mode == EdMode::Raw { &[] } else { ctx0 };
    let mutation = ctl[1] % ED_MUTATIONS;
    let par = u32::from_le_bytes([ctl[2], ctl[3], ctl[4], ctl[5]]) as usize;
    let par2 = ctl[6] as usize;
    let low = E::low();

    let mut a_enc = E::pk_of_seed(seed);
    let mut sig = E::sign(seed, mode, ctx0, msg0);
    if sig.len() != 2 * n { return Err(format!("signature length {}", sig.len())); }
    let mut vmode = mode;
    let mut ctx = ctx0.to_vec();
    let mut msg = msg0.to_vec();
    let mut expect: Option<bool> = None;

    // secret material for crafted signatures (derived by the case, not taken from the library)
    let craft = |a_enc: &[u8], r_enc: &[u8], r_scalar: &BigInt, vmode: EdMode, ctx: &[u8], msg: &[u8]| -> Vec<u8> {
        let (s, _) = ed_expand(c, seed);
        let k = ed_hash(c, vmode, ctx, &[r_enc, a_enc, msg]) % &c.l;
        let ss = (r_scalar + k * s) % &c.l;
        let mut o = r_enc.to_vec();
        o.extend_from_slice(&int_to_le(&ss, n));
        o
    };
    let nonce = |mode: EdMode, ctx: &[u8], msg: &[u8]| -> BigInt { let (_, prefix) = ed_expand(c, seed); ed_hash(c, mode, ctx, &[&prefix, msg]) % &c.l };

    match mutation {
        0 => { expect = Some(true); }
        1 => { // S += L (still fits the field)
            let s = le_to_int(&sig[n..]) + &c.l;
            sig.truncate(n); sig.extend_from_slice(&int_to_le(&s, n));
            expect = Some(false);
        }
        2 => { // S = L (+ small)
            let s = &c.l + bi((par % 3) as i64);
            sig.truncate(n); sig.extend_from_slice(&int_to_le(&s, n));
            expect = Some(false);
        }
        3 => { let b = par % (16 * n); sig[b / 8] ^= 1 << (b % 8); }
        4 => { // R = non-canonical encoding of a low-order point, S = k*s: equation holds, encoding must be refused
            let mut encs = Vec::new();
            for t in low.iter() { encs.extend(ed_noncanonical(c, t)); }
            if encs.is_empty() { return Ok(()); }
            let r_enc = encs[par % encs.len()].clone();
            sig = craft(&a_enc, &r_enc, &bi(0), vmode, &ctx, &msg);
            expect = Some(false);
        }
        5 => { // R = low-order point (canonical), S = k*s: valid under the cofactored equation
            let t = &low[par % low.len()];
            sig = craft(&a_enc, &ed_encode(c, t), &bi(0), vmode, &ctx, &msg);
            expect = Some(true);
        }
        6 => { // R' = R + T, S recomputed for the new challenge: valid only with the cofactor
            let r = match ed_decode(c, &sig[..n]) { Some(r) => r, None => return Err("library produced undecodable R".into()) };
            let t = &low[par % low.len()];
            let r2 = ed_add_affine(c, &r, t);
            sig = craft(&a_enc, &ed_encode(c, &r2), &nonce(mode, &ctx, &msg), vmode, &ctx, &msg);
            expect = Some(true);
        }
        7 => { // A' = A + T, signature recomputed against A': valid only with the cofactor
            let a = match ed_decode(c, &a_enc) { Some(a) => a, None => return Err("library produced undecodable public key".into()) };
            let t = &low[par % low.len()];
            a_enc = ed_encode(c, &ed_add_affine(c, &a, t));
            let r_enc = sig[..n].to_vec();
            sig = craft(&a_enc, &r_enc, &nonce(mode, &ctx, &msg), vmode, &ctx, &msg);
            expect = Some(true);
        }
        8 => { sig.truncate(if par2 & 1 == 0 { 2 * n - 1 } else { par % (2 * n) }); expect = Some(false); }
        9 => { for i in 0..1 + par2 % 3 { sig.push((par >> (8 * i)) as u8); } expect = Some(false); }
        10 => { // different context
            if mode == EdMode::Raw && !c.is448 { return Ok(()); }
            if mode == EdMode::Raw { vmode = EdMode::Ctx; }
            match par2 % 3 {
                0 if !ctx.is_empty() => { let b = par % (8 * ctx.len()); ctx[b / 8] ^= 1 << (b % 8); }
                1 if !ctx.is_empty() => { ctx.pop(); }
                _ => { if ctx.len() < 255 { ctx.push(par as u8); } else { ctx.pop(); } }
            }
            expect = Some(false);
        }
        11 => { // verify under another mode (Ed25519 raw vs ctx("") differ; Ed448 raw == ctx(""))
            vmode = mode_of(ctl[0].wrapping_add(1 + (par2 % 2) as u8));
            if vmode == EdMode::Raw { ctx.clear(); }
            if mode == EdMode::Raw && par2 & 4 != 0 { ctx.clear(); }
        }
        12 => { // different message
            match par2 % 3 {
                0 if !msg.is_empty() => { let b = par % (8 * msg.len()); msg[b / 8] ^= 1 << (b % 8); }
                1 if !msg.is_empty() => { msg.pop(); }
                _ => { msg.push(par as u8); }
            }
            expect = Some(false);
        }
        13 => { // everything of low order: A = T1, R = T2, S = 0 (or L-multiple-free small value)
            a_enc = ed_encode(c, &low[par % low.len()]);
            let r_enc = ed_encode(c, &low[(par / 8) % low.len()]);
            sig = r_enc;
            sig.extend_from_slice(&int_to_le(&bi(0), n));
            expect = Some(true);
        }
        14 => { // arbitrary bytes as signature
            let mut s = msg0.to_vec(); s.extend_from_slice(ctx0); s.extend_from_slice(seed); s.extend_from_slice(ctl);
            while s.len() < 2 * n { let l = s.len(); s.extend_from_within(..l); }
            s.truncate(2 * n);
            sig = s;
        }
        15 => { // non-canonical public key encoding (low-order point), R low order, S = 0
            let mut encs = Vec::new();
            for t in low.iter() { encs.extend(ed_noncanonical(c, t)); }
            if encs.is_empty() { return Ok(()); }
            a_enc = encs[par % encs.len()].clone();
            sig = ed_encode(c, &low[par2 % low.len()]);
            sig.extend_from_slice(&int_to_le(&bi(0), n));
            expect = Some(false);
        }
        _ => { // arbitrary bytes as public key
            let mut s = msg0.to_vec(); s.extend_from_slice(seed);
            while s.len() < n { let l = s.len(); s.extend_from_within(..l); }
            s.truncate(n);
            if par2 & 1 == 0 { s[n - 1] &= 0x80; s[n - 2] = 0; } // small y: more likely to hit structure
            a_enc = s;
        }
    }

    let want = ed_ref_verify(c, &a_enc, &sig, vmode, &ctx, &msg);
    if let Some(e) = expect {
        if e != want { return Err(format!("ORACLE SELF-CHECK: mutation {} expected {} but reference verifier says {} (A {} sig {})", mutation, e, want, hex(&a_enc), hex(&sig))); }
    }
    let a_ok = ed_decode(c, &a_enc).is_some();
    let got = E::verify(&a_enc, &sig, vmode, &ctx, &msg);
    let desc = || format!("mutation {} sign mode {:?} verify mode {:?} A {} sig {} ctx {} msg {}", mutation, mode, vmode, hex(&a_enc), hex(&sig), hex(&ctx), hex(&msg));
    match got {
        None => chk(!a_ok, || format!("public key rejected but it is a canonical curve point: {}", desc())),
        Some(g) => {
            chk(a_ok, || format!("non-canonical / invalid public key accepted by decode: {}", desc()))?;
            chk(g == want, || format!("verify returned {} but strict cofactored RFC 8032 says {}: {}", g, want, desc()))
        }
    }
}

// ---- generators ----

fn sp_seed32() -> Vec<Vec<u8>> {
    vec![
        hex::decode("9d61b19deffd5a60ba844af492ec2cc44449c5697b326919703bac031cae7f60").unwrap(), // RFC 8032 7.1 TEST 1
        hex::decode("c5aa8df43f9f837bedb7442f31dcb7b166d38535076f094b85ce3a2e0b4458f7").unwrap(), // TEST 3
        vec![0u8; 32],
        vec![0xFFu8; 32],
    ]
}
fn sp_seed32_small() -> Vec<Vec<u8>> { sp_seed32()[..1].to_vec() }
fn sp_seed57_small() -> Vec<Vec<u8>> { sp_seed57()[..1].to_vec() }
fn rnd_seed32(r: &mut Rng) -> Vec<u8> { if r.below(4) == 0 { let s = sp_seed32(); s[r.below(s.len() as u64) as usize].clone() } else { rand_bytes(r, 32) } }
fn sp_seed57() -> Vec<Vec<u8>> {
    vec![
        hex::decode("6c82a562cb808d10d632be89c8513ebf6c929f34ddfa8c9f63c9960ef6e348a3528c8a3fcc2f044e39a3fc5b94492f8f032e7549a20098f95b").unwrap(), // RFC 8032 7.4 (blank)
        vec![0u8; 57],
        vec![0xFFu8; 57],
    ]
}
fn rnd_seed57(r: &mut Rng) -> Vec<u8> { if r.below(4) == 0 { let s = sp_seed57(); s[r.below(s.len() as u64) as usize].clone() } else { rand_bytes(r, 57) } }

fn sp_ed_ctl_sign() -> Vec<Vec<u8>> { (0..3u8).map(|m| vec![m, 0, 0, 0, 0, 0, 0, 0]).collect() }
fn rnd_ed_ctl_sign(r: &mut Rng) -> Vec<u8> { let mut c = rand_bytes(r, 8); c[0] = r.below(3) as u8; c }
fn sp_ed_ctl_verify() -> Vec<Vec<u8>> {
    let mut v = Vec::new();
    for mode in 0..3u8 {
        for mu in 0..ED_MUTATIONS {
            // every mode for the mode-sensitive mutations, one mode for the others
            if !matches!(mu, 0 | 5 | 6 | 7 | 10 | 11) && mode != mu % 3 { continue; }
            let pars: Vec<u32> = match mu {
                3 => vec![0, 7, 255, 256, 8 * 32 - 1, 8 * 57 - 1, 8 * 57, 8 * 63 + 7, 8 * 113 + 7, 8 * 112],
                4 | 5 | 6 | 7 | 13 | 15 => (0..8).collect(),
                8 => vec![0, 1, 32, 57, 63, 113],
                _ => vec![0, 1, 2],
            };
            for p in pars {
                for p2 in [0u8, 1, 2, 5] {
                    if !matches!(mu, 8 | 9 | 10 | 11 | 12 | 15 | 16) && p2 != 0 { continue; }
                    let pb = p.to_le_bytes();
                    v.push(vec![mode, mu, pb[0], pb[1], pb[2], pb[3], p2, 0]);
                }
            }
        }
    }
    v
}
fn rnd_ed_ctl_verify(r: &mut Rng) -> Vec<u8> {
    let mut c = rand_bytes(r, 8);
    c[0] = r.below(3) as u8;
    c[1] = r.below(ED_MUTATIONS as u64) as u8;
    if r.below(2) == 0 { c[3] = 0; c[4] = 0; c[5] = 0; }
    c
}
fn ctxmsg(ctx: &[u8], msg: &[u8]) -> Vec<u8> { let mut o = vec![ctx.len() as u8]; o.extend_from_slice(ctx); o.extend_from_slice(msg); o }
fn sp_ed_ctxmsg() -> Vec<Vec<u8>> {
    vec![
        ctxmsg(&[], &[]),
        ctxmsg(&[], &[0x72]),
        ctxmsg(b"foo", &hex::decode("f726936d19c800494e3fdaff20b276a8").unwrap()),
        ctxmsg(&[0xA5u8; 255], &[1, 2, 3]),
        ctxmsg(&[0u8; 1], &[0u8; 64]),
        ctxmsg(&[], &(0..200).map(|i| i as u8).collect::<Vec<u8>>()),
    ]
}
fn sp_ed_ctxmsg_small() -> Vec<Vec<u8>> { vec![ctxmsg(&[], &[]), ctxmsg(&[0xA5u8; 255], &[1, 2, 3])] }
fn rnd_ed_ctxmsg(r: &mut Rng) -> Vec<u8> {
    let cl = match r.below(5) { 0 => 0, 1 => 255, 2 => 1, 3 => 254, _ => r.below(40) as usize };
    let ml = match r.below(5) { 0 => 0, 1 => 64, 2 => 1, _ => r.below(150) as usize };
    ctxmsg(&biased_bytes(r, cl), &biased_bytes(r, ml))
}

fn reg_ed(v: &mut Vec<Case>) {
    fn add<E: EdLib + 'static>(v: &mut Vec<Case>, name: &str, seedlen: usize, sp_seed: fn() -> Vec<Vec<u8>>, sp_seed_small: fn() -> Vec<Vec<u8>>, rnd_seed: fn(&mut Rng) -> Vec<u8>) {
        let seed_op = Op::Custom { len: Some(seedlen), specials: sp_seed, random: rnd_seed };
        let ops = vec![seed_op.clone(), Op::Custom { len: Some(8), specials: sp_ed_ctl_sign, random: rnd_ed_ctl_sign }, Op::Custom { len: None, specials: sp_ed_ctxmsg, random: rnd_ed_ctxmsg }];
        { let o = ops.clone();
          v.push(Case { id: format!("{}_sign", name), describe: "public key and sign_raw/ctx/ph output == RFC 8032 deterministic signer (big-integer reference); own signature accepted. Input: seed | ctl(8: mode%3,..) | ctx_len ctx msg",
            ops, run: Box::new(move |inp: &[u8]| { let s = split(&o, inp).ok_or("bad input length")?; run_ed_sign::<E>(s[0], s[1], s[2]) }) }); }
        let ops = vec![Op::Custom { len: Some(seedlen), specials: sp_seed_small, random: rnd_seed }, Op::Custom { len: Some(8), specials: sp_ed_ctl_verify, random: rnd_ed_ctl_verify }, Op::Custom { len: None, specials: sp_ed_ctxmsg_small, random: rnd_ed_ctxmsg }];
        { let o = ops.clone();
          v.push(Case { id: format!("{}_verify", name), describe: "verify_raw/ctx/ph verdict on (mutated / crafted) signatures == strict cofactored RFC 8032 reference verifier. Input: seed | ctl(8: mode%3, mutation%17, par32, par8, -) | ctx_len ctx msg",
            ops, run: Box::new(move |inp: &[u8]| { let s = split(&o, inp).ok_or("bad input length")?; run_ed_verify::<E>(s[0], s[1], s[2]) }) }); }
    }
    add::<L25519>(v, "ed25519", 32, sp_seed32, sp_seed32_small, rnd_seed32);
    add::<L448>(v, "ed448", 57, sp_seed57, sp_seed57_small, rnd_seed57);
}

#[cfg(test)]
mod ed_tests {
    use super::*;
    #[test]
    fn ed_reference_sanity() {
        for c in [ed25519_curve(), ed448_curve()] {
            assert!(ed_on_curve(c, &c.bx, &c.by));
            let b = ed_base(c);
            assert!(ed_is_neutral(c, &ed_mul(c, &c.l, &b)));
            // projective law == affine law
            let q = ed_affine(c, &ed_mul(c, &bi(123456789), &b));
            let s1 = ed_add_affine(c, &q, &(c.bx.clone(), c.by.clone()));
            let s2 = ed_affine(c, &ed_add(c, &(q.0.clone(), q.1.clone(), bi(1)), &b));
            assert_eq!(s1, s2);
            assert!(ed_on_curve(c, &s1.0, &s1.1));
            let d1 = ed_add_affine(c, &q, &q);
            assert_eq!(d1, ed_affine(c, &ed_mul(c, &bi(2 * 123456789), &b)));
            assert_eq!(ed_decode(c, &ed_encode(c, &q)).unwrap(), q);
        }
        assert_eq!(ed25519_low().len(), 8);
        assert_eq!(ed448_low().len(), 4);
        // RFC 8032 7.1 TEST 1
        let seed = hex::decode("9d61b19deffd5a60ba844af492ec2cc44449c5697b326919703bac031cae7f60").unwrap();
        let (sig, pk) = ed_ref_sign(ed25519_curve(), &seed, EdMode::Raw, &[], &[]);
        assert_eq!(hex(&pk), "d75a980182b10ab7d54bfed3c964073a0ee172f3daa62325af021a68f707511a");
        assert_eq!(hex(&sig), "e5564300c360ac729086e2cc806e828a84877f1eb8e5d974d873e065224901555fb8821590a33bacc61e39701cf9b46bd25bf5f0595bbe24655141438e7a100b");
        assert!(ed_ref_verify(ed25519_curve(), &pk, &sig, EdMode::Raw, &[], &[]));
        assert!(!ed_ref_verify(ed25519_curve(), &pk, &sig, EdMode::Raw, &[], &[1]));
        // RFC 8032 7.4, blank message
        let seed = hex::decode("6c82a562cb808d10d632be89c8513ebf6c929f34ddfa8c9f63c9960ef6e348a3528c8a3fcc2f044e39a3fc5b94492f8f032e7549a20098f95b").unwrap();
        let (sig, pk) = ed_ref_sign(ed448_curve(), &seed, EdMode::Raw, &[], &[]);
        assert_eq!(hex(&pk), "5fd7449b59b461fd2ce787ec616ad46a1da1342485a70e1f8a0ea75d80e96778edf124769b46c7061bd6783df1e50f6cd1fa1abeafe8256180");
        assert_eq!(hex(&sig), "533a37f6bbe457251f023c0d88f976ae2dfb504a843e34d2074fd823d41a591f2b233f034f628281f2fd7a22ddd47d7828c59bd0a21bfd3980ff0d2028d4b18a9df63e006c5d1c2d345b925d8dc00b4104852db99ac5c7cdda8530a113a0f4dbb61149f05a7363268c71d95808ff2e652600");
        assert!(ed_ref_verify(ed448_curve(), &pk, &sig, EdMode::Raw, &[], &[]));
    }
}


// ======================================================================
// C08: ECDSA over P-256 and secp256k1
// ======================================================================
//
// Reference arithmetic: short Weierstrass y^2 = x^3 + a*x + b. The textbook affine
// chord-and-tangent law is `ws_add_affine`; scalar multiplications use the same law on
// Jacobian fractions (X/Z^2, Y/Z^3) with every exceptional case (infinity, P == Q,
// P == -Q) handled explicitly, cross-checked against the affine law in the unit test.

struct WsCurve { p: BigInt, a: BigInt, b: BigInt, n: BigInt, gx: BigInt, gy: BigInt, is_p256: bool }
type WsAff = Option<(BigInt, BigInt)>; // None = point at infinity
type WsJac = (BigInt, BigInt, BigInt); // Z == 0: infinity

fn p256_curve() -> &'static WsCurve {
    static C: OnceLock<WsCurve> = OnceLock::new();
    C.get_or_init(|| {
        let p = pow2(256) - pow2(224) + pow2(192) + pow2(96) - 1;
        WsCurve {
            a: &p - 3, p,
            b: hexint("5ac635d8aa3a93e7b3ebbd55769886bc651d06b0cc53b0f63bce3c3e27d2604b"),
            n: hexint("ffffffff00000000ffffffffffffffffbce6faada7179e84f3b9cac2fc632551"),
            gx: hexint("6b17d1f2e12c4247f8bce6e563a440f277037d812deb33a0f4a13945d898c296"),
            gy: hexint("4fe342e2fe1a7f9b8ee7eb4a7c0f9e162bce33576b315ececbb6406837bf51f5"),
            is_p256: true,
        }
    })
}
fn k256_curve() -> &'static WsCurve {
    static C: OnceLock<WsCurve> = OnceLock::new();
    C.get_or_init(|| WsCurve {
        p: pow2(256) - pow2(32) - 977, a: bi(0), b: bi(7),
        n: hexint("fffffffffffffffffffffffffffffffebaaedce6af48a03bbfd25e8cd0364141"),
        gx: hexint("79be667ef9dcbbac55a06295ce870b07029bfcdb2dce28d959f2815b16f81798"),
        gy: hexint("483ada7726a3c4655da4fbfc0e1108a8fd17b448a68554199c47d08ffb10d4b8"),
        is_p256: false,
    })
}

fn ws_on_curve(c: &WsCurve, x: &BigInt, y: &BigInt) -> bool {
    let p = &c.p;
    (y * y) % p == emod(&(x * x % p * x + &c.a * x + &c.b), p)
}
#[allow(dead_code)]
fn ws_add_affine(c: &WsCurve, p1: &WsAff, p2: &WsAff) -> WsAff {
    let p = &c.p;
    let (x1, y1) = match p1 { None => return p2.clone(), Some(q) => q };
    let (x2, y2) = match p2 { None => return p1.clone(), Some(q) => q };
    let lam;
    if x1 == x2 {
        if emod(&(y1 + y2), p) == bi(0) { return None; }
        lam = (emod(&(bi(3) * x1 * x1 + &c.a), p) * modinv(&((bi(2) * y1) % p), p)) % p;
    } else {
        lam = (emod(&(y2 - y1), p) * modinv(&emod(&(x2 - x1), p), p)) % p;
    }
    let x3 = emod(&(&lam * &lam - x1 - x2), p);
    let y3 = emod(&(&lam * (x1 - &x3) - y1), p);
    Some((x3, y3))
}
fn ws_dbl(c: &WsCurve, q: &WsJac) -> WsJac {
    let p = &c.p;
    let (x, y, z) = q;
    if is_zero(z) || is_zero(y) { return (bi(1), bi(1), bi(0)); }
    let yy = (y * y) % p;
    let s = (bi(4) * x % p * &yy) % p;
    let zz = (z * z) % p;
    let m = (bi(3) * x % p * x + &c.a * ((&zz * &zz) % p)) % p;
    let x3 = emod(&(&m * &m - bi(2) * &s), p);
    let y3 = emod(&(&m * emod(&(&s - &x3), p) - bi(8) * ((&yy * &yy) % p)), p);
    let z3 = (bi(2) * y % p * z) % p;
    (x3, y3, z3)
}
fn ws_add(c: &WsCurve, q1: &WsJac, q2: &WsJac) -> WsJac {
    let p = &c.p;
    if is_zero(&q1.2) { return q2.clone(); }
    if is_zero(&q2.2) { return q1.clone(); }
    let (x1, y1, z1) = q1;
    let (x2, y2, z2) = q2;
    let z1z1 = (z1 * z1) % p;
    let z2z2 = (z2 * z2) % p;
    let u1 = (x1 * &z2z2) % p;
    let u2 = (x2 * &z1z1) % p;
    let s1 = (y1 * z2 % p * &z2z2) % p;
    let s2 = (y2 * z1 % p * &z1z1) % p;
    if u1 == u2 {
        return if s1 == s2 { ws_dbl(c, q1) } else { (bi(1), bi(1), bi(0)) };
    }
    let h = emod(&(&u2 - &u1), p);
    let r = emod(&(&s2 - &s1), p);
    let hh = (&h * &h) % p;
    let hhh = (&hh * &h) % p;
    let v = (&u1 * &hh) % p;
    let x3 = emod(&(&r * &r - &hhh - bi(2) * &v), p);
    let y3 = emod(&(&r * emod(&(&v - &x3), p) - &s1 * &hhh), p);
    let z3 = (&h * z1 % p * z2) % p;
    (x3, y3, z3)
}
fn ws_to_affine(c: &WsCurve, q: &WsJac) -> WsAff {
    if is_zero(&q.2) { return None; }
    let zi = modinv(&q.2, &c.p);
    let zi2 = (&zi * &zi) % &c.p;
    Some(((&q.0 * &zi2) % &c.p, (&q.1 * &zi2 % &c.p * &zi) % &c.p))
}
fn ws_mul(c: &WsCurve, k: &BigInt, q: &WsJac) -> WsJac {
    let mut acc = (bi(1), bi(1), bi(0));
    for t in (0..k.bits()).rev() {
        acc = ws_dbl(c, &acc);
        if bit(k, t) { acc = ws_add(c, &acc, q); }
    }
    acc
}
fn ws_mul2(c: &WsCurve, k1: &BigInt, q1: &WsJac, k2: &BigInt, q2: &WsJac) -> WsJac {
    let q12 = ws_add(c, q1, q2);
    let mut acc = (bi(1), bi(1), bi(0));
    for t in (0..k1.bits().max(k2.bits())).rev() {
        acc = ws_dbl(c, &acc);
        match (bit(k1, t), bit(k2, t)) {
            (true, true) => acc = ws_add(c, &acc, &q12),
            (true, false) => acc = ws_add(c, &acc, q1),
            (false, true) => acc = ws_add(c, &acc, q2),
            _ => {}
        }
    }
    acc
}
fn ws_gen(c: &WsCurve) -> WsJac { (c.gx.clone(), c.gy.clone(), bi(1)) }

/// hash value -> integer: leftmost 32 bytes (all of it when shorter), big-endian, reduced mod n
fn ecdsa_h(c: &WsCurve, hv: &[u8]) -> BigInt { be_to_int(&hv[..hv.len().min(32)]) % &c.n }

/// The verification rule of the property statement. `q` = public point (affine, on curve).
fn ecdsa_ref_verify(c: &WsCurve, q: &(BigInt, BigInt), sig: &[u8], hv: &[u8]) -> bool {
    if sig.len() % 2 != 0 { return false; }
    let half = sig.len() / 2;
    // big-endian halves; when longer than 32 bytes the surplus leading bytes must be zero,
    // which is the same as requiring the integer to be < 2^256 (and then < n below)
    let r = be_to_int(&sig[..half]);
    let s = be_to_int(&sig[half..]);
    if half > 32 && (sig[..half - 32].iter().any(|&b| b != 0) || sig[half..sig.len() - 32].iter().any(|&b| b != 0)) { return false; }
    if is_zero(&r) || is_zero(&s) || r >= c.n || s >= c.n { return false; }
    let h = ecdsa_h(c, hv);
    let w = modinv(&s, &c.n);
    let u1 = (&h * &w) % &c.n;
    let u2 = (&r * &w) % &c.n;
    let rr = ws_mul2(c, &u1, &ws_gen(c), &u2, &(q.0.clone(), q.1.clone(), bi(1)));
    match ws_to_affine(c, &rr) { None => false, Some((x, _)) => x % &c.n == r }
}

fn hmac_sha256(key: &[u8], parts: &[&[u8]]) -> Vec<u8> {
    use crrl::sha2::Sha256;
    let mut k = [0u8; 64];
    if key.len() > 64 { k[..32].copy_from_slice(&Sha256::hash(key)); } else { k[..key.len()].copy_from_slice(key); }
    let mut sh = Sha256::new();
    sh.update(&k.iter().map(|b| b ^ 0x36).collect::<Vec<u8>>());
    for p in parts { sh.update(p); }
    let inner = sh.finalize();
    let mut sh = Sha256::new();
    sh.update(&k.iter().map(|b| b ^ 0x5C).collect::<Vec<u8>>());
    sh.update(&inner);
    sh.finalize().to_vec()
}

/// Deterministic ECDSA signer. P-256: RFC 6979 (HMAC-SHA-256), the extra randomness appended as
/// additional input k' in both keying steps (RFC 6979 section 3.6). secp256k1: documented custom
/// derivation k = SHA-512(LE32(x) || LE32(h) || extra) as a little-endian integer mod n, 0 -> 1,
/// k+1 on the (never observed) r == 0 or s == 0.
fn ecdsa_ref_sign(c: &WsCurve, x: &BigInt, hv: &[u8], extra: &[u8]) -> Vec<u8> {
    let n = &c.n;
    let h = ecdsa_h(c, hv);
    let try_k = |k: &BigInt| -> Option<Vec<u8>> {
        let rp = ws_to_affine(c, &ws_mul(c, k, &ws_gen(c)))?;
        let r = rp.0 % n;
        let s = ((&h + x * &r) % n * modinv(k, n)) % n;
        if is_zero(&r) || is_zero(&s) { return None; }
        let mut sig = int_to_be(&r, 32);
        sig.extend_from_slice(&int_to_be(&s, 32));
        Some(sig)
    };
    if c.is_p256 {
        let xb = int_to_be(x, 32);
        let hb = int_to_be(&h, 32); // bits2octets
        let mut v = vec![1u8; 32];
        let mut k = vec![0u8; 32];
        k = hmac_sha256(&k, &[&v, &[0u8], &xb, &hb, extra]);
        v = hmac_sha256(&k, &[&v]);
        k = hmac_sha256(&k, &[&v, &[1u8], &xb, &hb, extra]);
        v = hmac_sha256(&k, &[&v]);
        loop {
            v = hmac_sha256(&k, &[&v]);
            let kk = be_to_int(&v);
            if !is_zero(&kk) && &kk < n {
                if let Some(sig) = try_k(&kk) { return sig; }
            }
            k = hmac_sha256(&k, &[&v, &[0u8]]);
            v = hmac_sha256(&k, &[&v]);
        }
    } else {
        let mut sh = crrl::sha2::Sha512::new();
        sh.update(&int_to_le(x, 32));
        sh.update(&int_to_le(&h, 32));
        sh.update(extra);
        let mut kk = le_to_int(&sh.finalize()) % n;
        loop {
            if is_zero(&kk) { kk = bi(1); }
            if let Some(sig) = try_k(&kk) { return sig; }
            kk = (kk + 1) % n;
        }
    }
}

// ---- library bindings ----

trait EcdsaLib {
    fn curve() -> &'static WsCurve;
    /// (signature, uncompressed public key) for the private scalar given as 32 big-endian bytes
    fn sign(xb: &[u8], hv: &[u8], extra: &[u8]) -> Option<(Vec<u8>, Vec<u8>)>;
    fn verify(pk_unc: &[u8], sig: &[u8], hv: &[u8]) -> Option<bool>;
}
struct LP256;
struct LK256;
macro_rules! impl_ecdsalib { ($T:ty, $m:ident, $curve:ident) => {
    impl EcdsaLib for $T {
        fn curve() -> &'static WsCurve { $curve() }
        fn sign(xb: &[u8], hv: &[u8], extra: &[u8]) -> Option<(Vec<u8>, Vec<u8>)> {
            let sk = crrl::$m::PrivateKey::decode(xb)?;
            Some((sk.sign_hash(hv, extra).to_vec(), sk.to_public_key().encode_uncompressed().to_vec()))
        }
        fn verify(pk_unc: &[u8], sig: &[u8], hv: &[u8]) -> Option<bool> {
            Some(crrl::$m::PublicKey::decode(pk_unc)?.verify_hash(sig, hv))
        }
    }
} }
impl_ecdsalib!(LP256, p256, p256_curve);
impl_ecdsalib!(LK256, secp256k1, k256_curve);

/// private scalar in [1, n-1] from 32 arbitrary bytes (values already in range are kept)
fn ecdsa_key(c: &WsCurve, b: &[u8]) -> BigInt {
    let v = be_to_int(b);
    if !is_zero(&v) && v < c.n { v } else { v % (&c.n - 1) + 1 }
}

// input: key(32) | ctl(8) | hv_len(1) hv(hv_len) extra(rest)
fn parse_hv(b: &[u8]) -> Option<(&[u8], &[u8])> {
    let n = *b.first()? as usize;
    if b.len() < 1 + n { return None; }
    Some((&b[1..1 + n], &b[1 + n..]))
}

fn run_ecdsa_sign<E: EcdsaLib>(key: &[u8], _ctl: &[u8], rest: &[u8]) -> Result<(), String> {
    let c = E::curve();
    let (hv, extra) = match parse_hv(rest) { Some(x) => x, None => return Ok(()) };
    let x = ecdsa_key(c, key);
    let xb = int_to_be(&x, 32);
    let (sig, pk) = E::sign(&xb, hv, extra).ok_or_else(|| format!("private key {} not accepted", hex(&xb)))?;
    let (sig2, _) = E::sign(&xb, hv, extra).unwrap();
    chk(sig == sig2, || "signing is not deterministic".into())?;
    chk(sig.len() == 64, || format!("signature length {}", sig.len()))?;
    let q = ws_to_affine(c, &ws_mul(c, &x, &ws_gen(c))).unwrap();
    let mut want_pk = vec![4u8];
    want_pk.extend_from_slice(&int_to_be(&q.0, 32));
    want_pk.extend_from_slice(&int_to_be(&q.1, 32));
    chk(pk == want_pk, || format!("public key: got {} want {}", hex(&pk), hex(&want_pk)))?;
    let want = ecdsa_ref_sign(c, &x, hv, extra);
    chk(sig == want, || format!("signature: got {} want {} (key {} hv {} extra {})", hex(&sig), hex(&want), hex(&xb), hex(hv), hex(extra)))?;
    let (r, s) = (be_to_int(&sig[..32]), be_to_int(&sig[32..]));
    chk(!is_zero(&r) && !is_zero(&s) && r < c.n && s < c.n, || "r or s out of range".into())?;
    let ok = E::verify(&pk, &sig, hv);
    chk(ok == Some(true), || format!("own signature not accepted: {:?}", ok))
}

const ECDSA_MUTATIONS: u8 = 17;

fn run_ecdsa_verify<E: EcdsaLib>(key: &[u8], ctl: &[u8], rest: &[u8]) -> Result<(), String> {
    let c = E::curve();
    let n = &c.n;
    let (hv0, extra) = match parse_hv(rest) { Some(x) => x, None => return Ok(()) };
    let x = ecdsa_key(c, key);
    let xb = int_to_be(&x, 32);
    let (sig0, pk) = E::sign(&xb, hv0, &[]).ok_or_else(|| format!("private key {} not accepted", hex(&xb)))?;
    if sig0.len() != 64 || pk.len() != 65 || pk[0] != 4 { return Err("unexpected signature / public key format".into()); }
    let q = (be_to_int(&pk[1..33]), be_to_int(&pk[33..65]));
    if !ws_on_curve(c, &q.0, &q.1) { return Err(format!("library public key not on curve: {}", hex(&pk))); }
    let (r0, s0) = (be_to_int(&sig0[..32]), be_to_int(&sig0[32..]));
    let mutation = ctl[0] % ECDSA_MUTATIONS;
    let par = u32::from_le_bytes([ctl[1], ctl[2], ctl[3], ctl[4]]) as usize;
    let par2 = ctl[5] as usize;
    let join = |r: &BigInt, s: &BigInt, len: usize| -> Vec<u8> { let mut o = int_to_be(r, len); o.extend_from_slice(&int_to_be(s, len)); o };
    let mut sig = sig0.clone();
    let mut hv = hv0.to_vec();
    let mut expect: Option<bool> = None;
    match mutation {
        0 => { expect = Some(true); }
        1 => { sig = join(&r0, &(n - &s0), 32); expect = Some(true); }
        2 => { sig = join(&bi(0), &s0, 32); expect = Some(false); }
        3 => { sig = join(&r0, &bi(0), 32); expect = Some(false); }
        4 => { sig = join(&(n + bi((par % 2) as i64)), &s0, 32); expect = Some(false); }
        5 => { sig = join(&r0, &(n + bi((par % 2) as i64)), 32); expect = Some(false); }
        6 => { // r + n or s + n, encoded over 33 bytes per half
            sig = if par & 1 == 0 { join(&(&r0 + n), &s0, 33) } else { join(&r0, &(&s0 + n), 33) };
            expect = Some(false);
        }
        7 => { sig = join(&r0, &s0, 32 + 1 + par % 4); expect = Some(true); } // 66, 68, 70, 72 bytes, zero surplus
        8 => { // non-zero surplus byte
            let k = 1 + par % 3;
            sig = join(&r0, &s0, 32 + k);
            let pos = if par2 & 1 == 0 { par2 / 2 % k } else { 32 + k + par2 / 2 % k };
            sig[pos] = 1 + (par >> 8) as u8 % 255;
            expect = Some(false);
        }
        9 => { if par & 1 == 0 { sig.pop(); } else { sig.push(par2 as u8); } expect = Some(false); }
        10 => { sig.clear(); expect = Some(false); }
        11 => { let b = par % 512; sig[b / 8] ^= 1 << (b % 8); }
        12 => { // halves shortened by k leading bytes each: same integers iff those bytes were zero
            let k = 1 + par % 3;
            let mut o = sig0[k..32].to_vec(); o.extend_from_slice(&sig0[32 + k..]);
            sig = o;
        }
        13 => { // different hash value (changes beyond the 32nd byte do not matter)
            match par2 % 3 {
                0 if !hv.is_empty() => { let b = par % (8 * hv.len()); hv[b / 8] ^= 1 << (b % 8); }
                1 if !hv.is_empty() => { hv.pop(); }
                _ => { hv.push(par as u8); }
            }
        }
        14 => { // arbitrary bytes
            let l = par % 74;
            let mut s = extra.to_vec(); s.extend_from_slice(hv0); s.extend_from_slice(key); s.extend_from_slice(ctl);
            while s.len() < l { let m = s.len(); s.extend_from_within(..m); }
            s.truncate(l);
            sig = s;
        }
        15 => { // forged-on-hash signature: R = [u1]G + [u2]Q, r = x(R), s = r/u2, h = u1*s  (u1 = 0 => h = 0)
            let u1 = if par2 & 1 == 0 { bi(0) } else { be_to_int(hv0) % n };
            let u2 = be_to_int(&sig0[32..]) % n; // some non-zero value
            let rr = match ws_to_affine(c, &ws_mul2(c, &u1, &ws_gen(c), &u2, &(q.0.clone(), q.1.clone(), bi(1)))) { Some(p) => p, None => return Ok(()) };
            let r = rr.0 % n;
            if is_zero(&r) || is_zero(&u2) { return Ok(()); }
            let s = (&r * modinv(&u2, n)) % n;
            let h = (&u1 * &s) % n;
            hv = int_to_be(&h, 32);
            if par2 & 2 != 0 { hv.extend_from_slice(extra); } // bytes past the 32nd are ignored
            sig = join(&r, &s, 32);
            expect = Some(true);
        }
        _ => { // hash >= n must be reduced: hv' = hv + n when that fits in 32 bytes
            if hv.len() != 32 { return Ok(()); }
            let hplus = be_to_int(&hv) + n;
            if hplus >= pow2(256) { return Ok(()); }
            hv = int_to_be(&hplus, 32);
            expect = Some(true);
        }
    }
    let want = ecdsa_ref_verify(c, &q, &sig, &hv);
    if let Some(e) = expect {
        if e != want { return Err(format!("ORACLE SELF-CHECK: mutation {} expected {} but reference says {} (sig {} hv {})", mutation, e, want, hex(&sig), hex(&hv))); }
    }
    let got = E::verify(&pk, &sig, &hv).ok_or("library does not decode its own public key")?;
    chk(got == want, || format!("verify_hash returned {} but the rule says {}: mutation {} pk {} sig {} hv {}", got, want, mutation, hex(&pk), hex(&sig), hex(&hv)))
}

// ---- generators ----

fn sp_ecdsa_key() -> Vec<Vec<u8>> {
    let mut v = vec![int_to_be(&bi(1), 32), int_to_be(&bi(2), 32), (1..=32u8).collect::<Vec<u8>>(), vec![0x7Fu8; 32]];
    for c in [p256_curve(), k256_curve()] { v.push(int_to_be(&(&c.n - 1), 32)); v.push(int_to_be(&((&c.n - 1) / 2), 32)); }
    v
}
fn rnd_ecdsa_key(r: &mut Rng) -> Vec<u8> { if r.below(5) == 0 { let s = sp_ecdsa_key(); s[r.below(s.len() as u64) as usize].clone() } else { biased_bytes(r, 32) } }
fn hvx(hv: &[u8], extra: &[u8]) -> Vec<u8> { let mut o = vec![hv.len() as u8]; o.extend_from_slice(hv); o.extend_from_slice(extra); o }
fn sp_ecdsa_hv() -> Vec<Vec<u8>> {
    let mut v = Vec::new();
    for l in [0usize, 1, 31, 32, 33, 64] {
        v.push(hvx(&vec![0u8; l], &[]));
        v.push(hvx(&vec![0xFFu8; l], &[]));
        v.push(hvx(&(0..l).map(|i| (i * 29 + 5) as u8).collect::<Vec<u8>>(), &[1, 2, 3]));
    }
    for c in [p256_curve(), k256_curve()] {
        for d in [-1i64, 0, 1] { v.push(hvx(&int_to_be(&(&c.n + bi(d)), 32), &[])); }
        let mut long = int_to_be(&c.n, 32); long.extend_from_slice(&[0xEE; 8]); v.push(hvx(&long, &[0u8; 40]));
    }
    v.push(hvx(&int_to_be(&bi(1), 32), &[]));
    v
}
fn rnd_ecdsa_hv(r: &mut Rng) -> Vec<u8> {
    let l = match r.below(8) { 0 => 0, 1 => 1, 2 => 31, 3 => 33, 4 => 64, 5 => r.below(70) as usize, _ => 32 };
    let mut hv = biased_bytes(r, l);
    if l >= 32 && r.below(4) == 0 { let c = if r.below(2) == 0 { p256_curve() } else { k256_curve() }; hv[..32].copy_from_slice(&int_to_be(&(&c.n + bi(r.below(5) as i64 - 2)), 32)); }
    let el = match r.below(4) { 0 | 1 => 0, 2 => 1 + r.below(4) as usize, _ => r.below(80) as usize };
    hvx(&hv, &biased_bytes(r, el))
}
fn sp_ecdsa_key_small() -> Vec<Vec<u8>> { vec![int_to_be(&bi(1), 32), (1..=32u8).collect::<Vec<u8>>(), vec![0xFFu8; 32]] }
fn sp_ecdsa_hv_small() -> Vec<Vec<u8>> {
    let mut v = Vec::new();
    for l in [0usize, 1, 31, 32, 33, 64] { v.push(hvx(&(0..l).map(|i| (i * 29 + 5) as u8).collect::<Vec<u8>>(), &[1, 2, 3])); }
    v.push(hvx(&[0u8; 32], &[]));
    v.push(hvx(&[0xFFu8; 32], &[]));
    v.push(hvx(&[0u8; 20], &[]));
    v
}
fn sp_ecdsa_ctl_none() -> Vec<Vec<u8>> { vec![vec![0u8; 8]] }
fn rnd_ecdsa_ctl_none(r: &mut Rng) -> Vec<u8> { rand_bytes(r, 8) }
fn sp_ecdsa_ctl() -> Vec<Vec<u8>> {
    let mut v = Vec::new();
    for mu in 0..ECDSA_MUTATIONS {
        let pars: Vec<u32> = match mu { 11 => vec![0, 7, 255, 256, 511, 248], 14 => vec![0, 1, 63, 64, 65, 66, 70, 73], _ => vec![0, 1, 2, 3] };
        for p in pars { for p2 in [0u8, 1, 2, 3] {
            if !matches!(mu, 8 | 13 | 15) && p2 != 0 { continue; }
            let pb = p.to_le_bytes();
            v.push(vec![mu, pb[0], pb[1], pb[2], pb[3], p2, 0, 0]);
        } }
    }
    v
}
fn rnd_ecdsa_ctl(r: &mut Rng) -> Vec<u8> { let mut c = rand_bytes(r, 8); c[0] = r.below(ECDSA_MUTATIONS as u64) as u8; if r.below(2) == 0 { c[3] = 0; c[4] = 0; } c }

fn reg_ecdsa(v: &mut Vec<Case>) {
    fn add<E: EcdsaLib + 'static>(v: &mut Vec<Case>, tag: &str) {
        let key_op = Op::Custom { len: Some(32), specials: sp_ecdsa_key, random: rnd_ecdsa_key };
        let hv_op = Op::Custom { len: None, specials: sp_ecdsa_hv, random: rnd_ecdsa_hv };
        let ops = vec![key_op.clone(), Op::Custom { len: Some(8), specials: sp_ecdsa_ctl_none, random: rnd_ecdsa_ctl_none }, hv_op.clone()];
        { let o = ops.clone();
          v.push(Case { id: format!("ecdsa_sign@{}", tag), describe: "sign_hash: deterministic, 64 bytes, == reference signer (P-256: RFC 6979 + extra; secp256k1: documented SHA-512 nonce), public key == [x]G, verifies. Input: key(32 BE, mapped into [1,n-1]) | ctl(8, unused) | hv_len hv extra",
            ops, run: Box::new(move |inp: &[u8]| { let s = split(&o, inp).ok_or("bad input length")?; run_ecdsa_sign::<E>(s[0], s[1], s[2]) }) }); }
        let ops = vec![Op::Custom { len: Some(32), specials: sp_ecdsa_key_small, random: rnd_ecdsa_key }, Op::Custom { len: Some(8), specials: sp_ecdsa_ctl, random: rnd_ecdsa_ctl },
            Op::Custom { len: None, specials: sp_ecdsa_hv_small, random: rnd_ecdsa_hv }];
        { let o = ops.clone();
          v.push(Case { id: format!("ecdsa_verify@{}", tag), describe: "verify_hash verdict on (mutated / re-encoded / forged-on-hash) signatures == rule evaluated with big-integer Weierstrass arithmetic. Input: key(32) | ctl(8: mutation%17, par32, par8, ..) | hv_len hv extra",
            ops, run: Box::new(move |inp: &[u8]| { let s = split(&o, inp).ok_or("bad input length")?; run_ecdsa_verify::<E>(s[0], s[1], s[2]) }) }); }
    }
    add::<LP256>(v, "p256");
    add::<LK256>(v, "secp256k1");
}

#[cfg(test)]
mod ecdsa_tests {
    use super::*;
    #[test]
    fn ws_reference_sanity() {
        for c in [p256_curve(), k256_curve()] {
            assert!(ws_on_curve(c, &c.gx, &c.gy));
            let g = ws_gen(c);
            assert!(ws_to_affine(c, &ws_mul(c, &c.n, &g)).is_none());
            // Jacobian == affine law
            let ga: WsAff = Some((c.gx.clone(), c.gy.clone()));
            let mut acc: WsAff = None;
            for _ in 0..11 { acc = ws_add_affine(c, &acc, &ga); }
            assert_eq!(acc, ws_to_affine(c, &ws_mul(c, &bi(11), &g)));
            let two = ws_add_affine(c, &ga, &ga);
            assert_eq!(two, ws_to_affine(c, &ws_dbl(c, &g)));
            assert_eq!(ws_to_affine(c, &ws_mul2(c, &bi(5), &g, &bi(3), &ws_dbl(c, &g))), ws_to_affine(c, &ws_mul(c, &bi(11), &g)));
            // (n-1)G + G = infinity through the generic addition
            let m = ws_mul(c, &(&c.n - 1), &g);
            assert!(ws_to_affine(c, &ws_add(c, &m, &g)).is_none());
        }
        // RFC 6979 A.2.5, P-256 / SHA-256, message "sample"
        let c = p256_curve();
        let x = hexint("C9AFA9D845BA75166B5C215767B1D6934E50C3DB36E89B127B8A622B120F6721");
        let hv = crrl::sha2::Sha256::hash(b"sample");
        let sig = ecdsa_ref_sign(c, &x, &hv, &[]);
        assert_eq!(hex(&sig).to_uppercase(), "EFD48B2AACB6A8FD1140DD9CD45E81D69D2C877B56AAF991C34D0EA84EAF3716F7CB1C942D657C41D436C7A1B6E29F65F3E900DBB9AFF4064DC4AB2F843ACDA8");
        let q = ws_to_affine(c, &ws_mul(c, &x, &ws_gen(c))).unwrap();
        assert_eq!(q.0, hexint("60FED4BA255A9D31C961EB74C6356D68C049B8923B61FA6CE669622E60F29FB6"));
        assert!(ecdsa_ref_verify(c, &q, &sig, &hv));
    }
}


// ======================================================================
// C09: jq255e / jq255s / gls254 Schnorr signatures and ECDH (relational oracles)
// ======================================================================
//
// The verdict oracle re-evaluates the verification equation through a different code path
// of the library (constant-time mulgen / mul and point subtraction instead of the combined
// variable-time routine), the documented BLAKE2s framing, and big-integer range checks.

const HASH_NAMES: [&str; 6] = ["", "sha256", "blake2s", "sha512", "sha3256", "x"];

fn schnorr_frame(sh: &mut crrl::blake2s::Blake2s256, hash_name: &str, data: &[u8]) {
    if hash_name.is_empty() { sh.update(&[0x52]); } else { sh.update(&[0x48]); sh.update(hash_name.as_bytes()); sh.update(&[0x00]); }
    sh.update(data);
}

// input: sk(32) | sk2(32) | ctl(8) | seed_len(1) seed data
//   ctl[0] % 6 hash name, ctl[1] mutation, ctl[2..6] par32, ctl[6] par8

const SCHNORR_MUTATIONS: u8 = 12;

macro_rules! schnorr_cases { ($v:ident, $name:expr, $m:ident, $order:expr, $cscalar:expr) => { {
    use crrl::$m::{Point, PrivateKey, PublicKey, Scalar};
    fn order() -> BigInt { hexint($order) }
    fn key(b: &[u8]) -> Option<PrivateKey> {
        let s = Scalar::decode_reduce(b);
        if s.iszero() != 0 { None } else { Some(PrivateKey::from_scalar(&s)) }
    }
    fn challenge(r_enc: &[u8], pk: &[u8], hash_name: &str, data: &[u8]) -> [u8; 16] {
        let mut sh = crrl::blake2s::Blake2s256::new();
        sh.update(r_enc);
        sh.update(pk);
        schnorr_frame(&mut sh, hash_name, data);
        let mut c = [0u8; 16];
        c.copy_from_slice(&sh.finalize()[..16]);
        c
    }
    /// verification equation through the constant-time path
    fn alt_verify(pk: &PublicKey, sig: &[u8], hash_name: &str, data: &[u8]) -> bool {
        if sig.len() != 48 { return false; }
        if le_to_int(&sig[16..]) >= order() { return false; }
        let s = Scalar::decode_reduce(&sig[16..]);
        let cs: Scalar = ($cscalar)(&sig[..16]);
        let r = Point::mulgen(&s) - pk.point * cs;
        challenge(&r.encode(), &pk.encoded, hash_name, data)[..] == sig[..16]
    }
    fn parse(inp: &[u8]) -> Option<(PrivateKey, PrivateKey, &[u8], &[u8], &[u8])> {
        if inp.len() < 73 { return None; }
        let sk1 = key(&inp[..32])?;
        let sk2 = key(&inp[32..64])?;
        let rest = &inp[72..];
        let sl = rest[0] as usize;
        if rest.len() < 1 + sl { return None; }
        Some((sk1, sk2, &inp[64..72], &rest[1..1 + sl], &rest[1 + sl..]))
    }
    let ops = vec![Op::Custom { len: Some(32), specials: sp_schnorr_key, random: rnd_schnorr_key }, Op::Custom { len: Some(32), specials: sp_schnorr_key2, random: rnd_schnorr_key },
                   Op::Custom { len: Some(8), specials: sp_schnorr_ctl, random: rnd_schnorr_ctl }, Op::Custom { len: None, specials: sp_schnorr_data, random: rnd_schnorr_data }];

    let ops_v = ops.clone();
    let mut ops = ops;
    ops[2] = Op::Custom { len: Some(8), specials: sp_schnorr_ctl_small, random: rnd_schnorr_ctl };
    $v.push(Case { id: format!("{}_sign", $name), describe: "sign / sign_seeded: deterministic, == documented derivation (BLAKE2s nonce, challenge, s = k + c*sec), canonical s, accepted by verify. Input: sk(32) sk2(32) ctl(8: hashname%6,..) seed_len seed data",
        ops: ops.clone(), run: Box::new(|inp: &[u8]| {
            let (sk, _, ctl, seed, data) = match parse(inp) { Some(x) => x, None => return Ok(()) };
            let hn = HASH_NAMES[(ctl[0] % 6) as usize];
            let pk = sk.public_key;
            let want_pk = Point::mulgen(&Scalar::decode_reduce(&sk.encode())).encode();
            chk(pk.encoded == want_pk && pk.point.encode() == want_pk, || "public key != [sec]G".into())?;
            for sd in [&[][..], seed] {
                let sig = if sd.is_empty() { sk.sign(hn, data) } else { sk.sign_seeded(sd, hn, data) };
                let again = sk.sign_seeded(sd, hn, data);
                chk(sig == again, || format!("signature not deterministic (seed len {})", sd.len()))?;
                // documented derivation
                let mut sh = crrl::blake2s::Blake2s256::new();
                sh.update(&sk.encode());
                sh.update(&pk.encoded);
                sh.update(&(sd.len() as u64).to_le_bytes());
                sh.update(sd);
                schnorr_frame(&mut sh, hn, data);
                let k = Scalar::decode_reduce(&sh.finalize());
                let cb = challenge(&Point::mulgen(&k).encode(), &pk.encoded, hn, data);
                let cs: Scalar = ($cscalar)(&cb[..]);
                let s = k + Scalar::decode_reduce(&sk.encode()) * cs;
                let mut want = cb.to_vec(); want.extend_from_slice(&s.encode());
                chk(sig[..] == want[..], || format!("signature != documented derivation: got {} want {}", hex(&sig), hex(&want)))?;
                chk(le_to_int(&sig[16..]) < order(), || format!("non-canonical s in produced signature {}", hex(&sig)))?;
                chk(pk.verify(&sig, hn, data), || format!("produced signature rejected: {} (hash name {:?}, seed len {})", hex(&sig), hn, sd.len()))?;
                chk(alt_verify(&pk, &sig, hn, data), || format!("produced signature fails the verification equation: {}", hex(&sig)))?;
                // a decoded copy of the public key behaves the same
                let pk2 = PublicKey::decode(&pk.encode()).ok_or("own public key does not decode")?;
                chk(pk2.verify(&sig, hn, data), || "decoded public key rejects the signature".to_string())?;
            }
            Ok(())
        }) });

    $v.push(Case { id: format!("{}_verify", $name), describe: "verify: rejects length != 48, non-canonical s, flipped bits, wrong data / hash name / key; verdict == equation re-evaluated through the constant-time path. Input as <curve>_sign; ctl[1] mutation%12, ctl[2..6] par32, ctl[6] par8",
        ops: ops_v, run: Box::new(|inp: &[u8]| {
            let (sk, sk2, ctl, seed, data0) = match parse(inp) { Some(x) => x, None => return Ok(()) };
            let hn0 = HASH_NAMES[(ctl[0] % 6) as usize];
            let mutation = ctl[1] % SCHNORR_MUTATIONS;
            let par = u32::from_le_bytes([ctl[2], ctl[3], ctl[4], ctl[5]]) as usize;
            let par2 = ctl[6] as usize;
            let mut pk = sk.public_key;
            let mut sig = sk.sign_seeded(seed, hn0, data0).to_vec();
            let mut hn = hn0;
            let mut data = data0.to_vec();
            let mut expect: Option<bool> = None;
            match mutation {
                0 => { expect = Some(true); }
                1 => { sig.truncate(if par2 & 1 == 0 { 47 } else { par % 48 }); expect = Some(false); }
                2 => { for i in 0..1 + par2 % 3 { sig.push((par >> (8 * i)) as u8); } expect = Some(false); }
                3 => { // s + order: same scalar, non-canonical encoding
                    let s = le_to_int(&sig[16..]) + order();
                    if s >= pow2(256) { return Ok(()); }
                    sig.truncate(16); sig.extend_from_slice(&int_to_le(&s, 32));
                    expect = Some(false);
                }
                4 => { // s = order + small / 2^256 - 1
                    let s = if par2 & 1 == 0 { order() + bi((par % 3) as i64) } else { pow2(256) - 1 - bi((par % 3) as i64) };
                    sig.truncate(16); sig.extend_from_slice(&int_to_le(&s, 32));
                    expect = Some(false);
                }
                5 => { let b = par % 128; sig[b / 8] ^= 1 << (b % 8); expect = Some(false); }
                6 => { let b = 128 + par % 256; sig[b / 8] ^= 1 << (b % 8); expect = Some(false); }
                7 => { // different data
                    match par2 % 3 {
                        0 if !data.is_empty() => { let b = par % (8 * data.len()); data[b / 8] ^= 1 << (b % 8); }
                        1 if !data.is_empty() => { data.pop(); }
                        _ => { data.push(par as u8); }
                    }
                    expect = Some(false);
                }
                8 => { hn = HASH_NAMES[((ctl[0] % 6) as usize + 1 + par2 % 5) % 6]; expect = Some(false); }
                9 => { // hash name moved into the data (framing must keep them apart)
                    if hn0.is_empty() { return Ok(()); }
                    hn = "";
                    let mut d = hn0.as_bytes().to_vec(); d.push(0); d.extend_from_slice(data0); data = d;
                    expect = Some(false);
                }
                10 => { // other public key
                    if sk2.encode() == sk.encode() { return Ok(()); }
                    pk = sk2.public_key;
                    expect = Some(false);
                }
                _ => { // arbitrary bytes
                    let mut s = data0.to_vec(); s.extend_from_slice(seed); s.extend_from_slice(&inp[..72]);
                    s.truncate(48);
                    sig = s;
                }
            }
            let want = alt_verify(&pk, &sig, hn, &data);
            if let Some(e) = expect {
                // negligible-probability exceptions (16-byte challenge collision) are ignored
                if e != want { return Err(format!("ORACLE SELF-CHECK: mutation {} expected {} but alternate path says {} (sig {})", mutation, e, want, hex(&sig))); }
            }
            let got = pk.verify(&sig, hn, &data);
            chk(got == want, || format!("verify returned {} expected {}: mutation {} pk {} sig {} hash name {:?} data {}", got, want, mutation, hex(&pk.encoded), hex(&sig), hn, hex(&data)))
        }) });

    $v.push(Case { id: format!("{}_ecdh", $name), describe: "ECDH: symmetric with success status for valid keys, == documented BLAKE2s derivation; invalid / neutral / wrong-length peer: failure status, deterministic, key depends on the local secret. Input as <curve>_sign; the seed||data bytes double as an arbitrary peer key",
        ops: ops.clone(), run: Box::new(|inp: &[u8]| {
            let (sk1, sk2, ctl, seed, data) = match parse(inp) { Some(x) => x, None => return Ok(()) };
            let (pk1, pk2) = (sk1.public_key.encode(), sk2.public_key.encode());
            let (k12, ok12) = sk1.ECDH(&pk2);
            let (k21, ok21) = sk2.ECDH(&pk1);
            chk(ok12 == 0xFFFFFFFF && ok21 == 0xFFFFFFFF, || format!("ECDH status {:08x} / {:08x} on valid public keys", ok12, ok21))?;
            chk(k12 == k21, || format!("ECDH not symmetric: {} vs {}", hex(&k12), hex(&k21)))?;
            // documented derivation: BLAKE2s(min(pk) || max(pk) || 0x53 || enc([sec]Q))
            let shared = (PublicKey::decode(&pk2).ok_or("peer key does not decode")?.point * Scalar::decode_reduce(&sk1.encode())).encode();
            let (lo, hi) = if pk1 < pk2 { (pk1, pk2) } else { (pk2, pk1) };
            let mut sh = crrl::blake2s::Blake2s256::new();
            sh.update(&lo); sh.update(&hi); sh.update(&[0x53]); sh.update(&shared);
            let want = sh.finalize();
            chk(k12 == want, || format!("ECDH key {} != documented derivation {}", hex(&k12), hex(&want)))?;
            // arbitrary / invalid peer
            let mut peer = seed.to_vec(); peer.extend_from_slice(data);
            match ctl[1] % 5 {
                0 => { peer.resize(32, 0); }
                1 => { peer = Point::NEUTRAL.encode().to_vec(); }
                2 => { peer = pk2.to_vec(); let b = (ctl[2] as usize) % 256; peer[b / 8] ^= 1 << (b % 8); }
                3 => { peer = pk2.to_vec(); if ctl[2] & 1 == 0 { peer.pop(); } else { peer.push(ctl[3]); } }
                _ => {}
            }
            let valid = peer.len() == 32 && match Point::decode(&peer) { Some(p) => p.isneutral() == 0, None => false };
            let (ka, oka) = sk1.ECDH(&peer);
            let (ka2, oka2) = sk1.ECDH(&peer);
            chk(ka == ka2 && oka == oka2, || "ECDH not deterministic".to_string())?;
            chk(oka == if valid { 0xFFFFFFFF } else { 0 }, || format!("ECDH status {:08x} for peer {} (valid: {})", oka, hex(&peer), valid))?;
            chk((PublicKey::decode(&peer).is_some()) == valid, || format!("PublicKey::decode and Point::decode disagree on {}", hex(&peer)))?;
            if !valid {
                // documented failure path: the encoded private scalar replaces the shared point, tag byte 0x46;
                // public keys ordered only when the peer has the regular length
                let mut sh = crrl::blake2s::Blake2s256::new();
                if peer.len() == 32 && peer[..] < pk1[..] { sh.update(&peer); sh.update(&pk1); } else { sh.update(&pk1); sh.update(&peer); }
                sh.update(&[0x46]); sh.update(&sk1.encode());
                let want = sh.finalize();
                chk(ka == want, || format!("failure key {} != documented derivation {} (peer {})", hex(&ka), hex(&want), hex(&peer)))?;
            }
            if !valid && sk1.encode() != sk2.encode() {
                let (kb, okb) = sk2.ECDH(&peer);
                chk(okb == 0, || format!("ECDH status {:08x} for invalid peer {}", okb, hex(&peer)))?;
                chk(ka != kb, || format!("failure key does not depend on the local secret: {}", hex(&ka)))?;
                chk(ka != k12, || "failure key equals a success key".to_string())?;
            }
            Ok(())
        }) });
} } }

fn sp_schnorr_key() -> Vec<Vec<u8>> {
    let mut one = vec![0u8; 32]; one[0] = 1;
    vec![one, (1..=32u8).collect(), vec![0xFFu8; 32]]
}
fn sp_schnorr_key2() -> Vec<Vec<u8>> {
    let mut two = vec![0u8; 32]; two[0] = 2;
    vec![two, (0..32).map(|i| (i * 73 + 19) as u8).collect()]
}
fn rnd_schnorr_key(r: &mut Rng) -> Vec<u8> { if r.below(8) == 0 { let mut k = vec![0u8; 32]; k[0] = 1 + r.below(3) as u8; k } else { biased_bytes(r, 32) } }
fn sp_schnorr_ctl() -> Vec<Vec<u8>> {
    let mut v = Vec::new();
    for hn in [0u8, 1, 2] {
        for mu in 0..SCHNORR_MUTATIONS {
            let pars: Vec<u32> = match mu { 5 => vec![0, 7, 64, 127], 6 => vec![0, 7, 128, 251, 252, 253, 254, 255], 1 => vec![0, 16, 32, 47], _ => vec![0, 1, 2] };
            for p in pars { for p2 in [0u8, 1, 2] {
                if !matches!(mu, 1 | 2 | 4 | 7 | 8) && p2 != 0 { continue; }
                let pb = p.to_le_bytes();
                v.push(vec![hn, mu, pb[0], pb[1], pb[2], pb[3], p2, 0]);
            } }
        }
    }
    v
}
fn sp_schnorr_ctl_small() -> Vec<Vec<u8>> {
    let mut v = Vec::new();
    for hn in 0..6u8 { for mode in 0..5u8 { for p in [0u8, 1, 255] { if mode != 2 && mode != 3 && p > 1 { continue; } v.push(vec![hn, mode, p, 0x5A, 0, 0, 0, 0]); } } }
    v
}
fn rnd_schnorr_ctl(r: &mut Rng) -> Vec<u8> { let mut c = rand_bytes(r, 8); c[0] = r.below(6) as u8; c[1] = r.below(SCHNORR_MUTATIONS as u64) as u8; if r.below(2) == 0 { c[4] = 0; c[5] = 0; } c }
fn seeddata(seed: &[u8], data: &[u8]) -> Vec<u8> { let mut o = vec![seed.len() as u8]; o.extend_from_slice(seed); o.extend_from_slice(data); o }
fn sp_schnorr_data() -> Vec<Vec<u8>> {
    vec![seeddata(&[], &[]), seeddata(&[], b"sample"), seeddata(&[7u8; 32], &[0xA5u8; 32]), seeddata(&[0u8; 1], &(0..100).map(|i| i as u8).collect::<Vec<u8>>())]
}
fn rnd_schnorr_data(r: &mut Rng) -> Vec<u8> {
    let sl = match r.below(4) { 0 => 0, 1 => 32, _ => r.below(40) as usize };
    let dl = match r.below(5) { 0 => 0, 1 => 32, 2 => 64, _ => r.below(130) as usize };
    seeddata(&biased_bytes(r, sl), &biased_bytes(r, dl))
}

fn reg_schnorr(v: &mut Vec<Case>) {
    schnorr_cases!(v, "jq255e", jq255e, "3FFFFFFFFFFFFFFFFFFFFFFFFFFFFFFF9D0C930F54078C531F52C8AE74D84525",
        |c: &[u8]| Scalar::from_u128(u128::from_le_bytes(c.try_into().unwrap())));
    schnorr_cases!(v, "jq255s", jq255s, "400000000000000000000000000000002ACF567A912B7F03DCF2AC65396152C7",
        |c: &[u8]| Scalar::from_u128(u128::from_le_bytes(c.try_into().unwrap())));
    schnorr_cases!(v, "gls254", gls254, "200000000000000000000000000000003F1A47DEDC1A1DAD3CBDE37CF43A8CF5",
        |c: &[u8]| Scalar::from_u64(u64::from_le_bytes(c[..8].try_into().unwrap())) + Scalar::MU * Scalar::from_u64(u64::from_le_bytes(c[8..16].try_into().unwrap())));
}


// ======================================================================
// C16: LMS (RFC 8554 / SP 800-208 parameter sets, h = 5) state handling
// ======================================================================

/// deterministic generator for the LM-OTS randomizer C and for key generation
struct DetRng(u64);
impl crrl::RngCore for DetRng {
    fn next_u32(&mut self) -> u32 { self.next_u64() as u32 }
    fn next_u64(&mut self) -> u64 { let mut r = Rng(self.0); let x = r.next(); self.0 = r.0; x }
    fn fill_bytes(&mut self, dest: &mut [u8]) { for b in dest.iter_mut() { *b = self.next_u64() as u8; } }
    fn try_fill_bytes(&mut self, dest: &mut [u8]) -> Result<(), crrl::RngError> { self.fill_bytes(dest); Ok(()) }
}
impl crrl::CryptoRng for DetRng {}

// input: set(1) | start leaf (4, LE) | ctl(8) | msg
fn lms_parse(inp: &[u8]) -> Option<(usize, u32, &[u8], &[u8])> {
    if inp.len() < 13 { return None; }
    Some(((inp[0] % 4) as usize, u32::from_le_bytes([inp[1], inp[2], inp[3], inp[4]]), &inp[5..13], &inp[13..]))
}

macro_rules! lms_set { ($modname:ident, $set:ident, $seed:expr, $n:expr, $hash:expr) => {
    mod $modname {
        use super::*;
        use crrl::lms::$set::{PrivateKey, PublicKey};
        const LEAVES: u32 = 1 << PrivateKey::VERIF_H;
        const SIGLEN: usize = PrivateKey::VERIF_SIGLEN;

        /// key generated once from a fixed seed (key generation costs ~10^5 hash calls)
        fn base_key() -> &'static PrivateKey {
            static K: OnceLock<PrivateKey> = OnceLock::new();
            K.get_or_init(|| PrivateKey::generate(&mut DetRng($seed)))
        }
        fn key_at(leaf: u32) -> PrivateKey {
            let k = base_key();
            PrivateKey::verif_from_parts(k.verif_I(), k.verif_SEED(), leaf, *k.verif_T())
        }
        fn same_static_parts(a: &PrivateKey, b: &PrivateKey) -> bool {
            a.verif_I() == b.verif_I() && a.verif_SEED() == b.verif_SEED() && a.verif_T()[..] == b.verif_T()[..]
        }
        fn nth_msg(msg: &[u8], i: u32) -> Vec<u8> { let mut m = msg.to_vec(); m.push(i as u8); m }

        /// from leaf `start` to exhaustion and beyond
        pub fn life(start: u32, ctl: &[u8], msg: &[u8]) -> Result<(), String> {
            let mut sk = key_at(start);
            chk(sk.verif_current_leaf() == start, || "verif_from_parts".into())?;
            let pk: PublicKey = sk.compute_public();
            let mut rng = DetRng(u64::from_le_bytes(ctl.try_into().unwrap()));
            let mut expected = start;
            let mut seen: Vec<u32> = Vec::new();
            let pick = (ctl[0] % 8) as u32;
            let mut last = None;
            while expected < LEAVES {
                let m = nth_msg(msg, expected);
                let sig = match sk.sign(&mut rng, &m) { Some(s) => s, None => return Err(format!("sign returned None at leaf {} of {}", expected, LEAVES)) };
                chk(sig.len() == SIGLEN, || format!("signature length {}", sig.len()))?;
                let q = u32::from_be_bytes([sig[0], sig[1], sig[2], sig[3]]);
                chk(q == expected, || format!("signature uses leaf {} but the state said {}", q, expected))?;
                chk(!seen.contains(&q), || format!("leaf {} used twice", q))?;
                seen.push(q);
                chk(sk.verif_current_leaf() == expected + 1, || format!("state after signing with leaf {}: {}", expected, sk.verif_current_leaf()))?;
                if expected == start || expected == LEAVES - 1 || expected % 8 == pick {
                    chk(pk.verify(&sig, &m), || format!("signature for leaf {} rejected", q))?;
                    if expected == start { chk(!pk.verify(&sig, &nth_msg(msg, expected + 1)), || format!("signature for leaf {} accepted for another message", q))?; }
                }
                last = Some((sig, m));
                expected += 1;
            }
            // exhausted (or started at / beyond 2^h): None, state untouched
            for round in 0..3 {
                let before = sk.verif_current_leaf();
                let r = sk.sign(&mut rng, msg);
                chk(r.is_none(), || format!("sign produced a signature with state {} >= 2^h (round {})", before, round))?;
                chk(sk.verif_current_leaf() == before, || format!("state changed by a refused sign: {} -> {}", before, sk.verif_current_leaf()))?;
            }
            chk(sk.verif_current_leaf() == start.max(LEAVES), || format!("final state {}", sk.verif_current_leaf()))?;
            chk(same_static_parts(&sk, base_key()), || "I / SEED / tree changed during the key life".into())?;
            let pk2 = sk.compute_public();
            match last { Some((sig, m)) => chk(pk2.verify(&sig, &m), || "public key changed during the key life".into()), None => Ok(()) }
        }

        /// independent RFC 8554 verifier (Algorithms 4b and 6a, w = 8, ls = 0) built on the harness's own hash references
        fn rfc_h(parts: &[&[u8]]) -> Vec<u8> { let mut m = Vec::new(); for p in parts { m.extend_from_slice(p); } let f: fn(&[u8]) -> Vec<u8> = $hash; f(&m) }
        fn rfc_q(i_: &[u8], q: u32, c: &[u8], msg: &[u8]) -> Vec<u8> { rfc_h(&[i_, &q.to_be_bytes(), &[0x81, 0x81], c, msg]) }
        fn rfc_verify(i_: &[u8], t1: &[u8], sig: &[u8], msg: &[u8]) -> bool {
            let n: usize = $n;
            let p = if n == 32 { 34 } else { 26 };
            let h = PrivateKey::VERIF_H as usize;
            if sig.len() != 4 + (4 + n + p * n) + 4 + h * n { return false; }
            let q = u32::from_be_bytes([sig[0], sig[1], sig[2], sig[3]]);
            if q >= LEAVES { return false; }
            let ots = &sig[4..4 + 4 + n + p * n];
            let c = &ots[4..4 + n];
            let qd = rfc_q(i_, q, c, msg);
            let mut ck: u32 = 0; for b in &qd { ck += 255 - *b as u32; }
            let mut qck = qd.clone(); qck.extend_from_slice(&(ck as u16).to_be_bytes());
            let mut zs: Vec<u8> = Vec::new();
            for i in 0..p {
                let a = qck[i] as usize;
                let mut tmp = ots[4 + n + i * n..4 + n + (i + 1) * n].to_vec();
                for j in a..255 { tmp = rfc_h(&[i_, &q.to_be_bytes(), &(i as u16).to_be_bytes(), &[j as u8], &tmp]); }
                zs.extend_from_slice(&tmp);
            }
            let kc = rfc_h(&[i_, &q.to_be_bytes(), &[0x80, 0x80], &zs]);
            let mut node = LEAVES + q;
            let mut tmp = rfc_h(&[i_, &node.to_be_bytes(), &[0x82, 0x82], &kc]);
            let path = &sig[4 + 4 + n + p * n + 4..];
            for i in 0..h {
                let sib = &path[i * n..(i + 1) * n];
                let par = node / 2;
                tmp = if node & 1 == 1 { rfc_h(&[i_, &par.to_be_bytes(), &[0x83, 0x83], sib, &tmp]) } else { rfc_h(&[i_, &par.to_be_bytes(), &[0x83, 0x83], &tmp, sib]) };
                node = par;
            }
            tmp[..] == t1[..]
        }
        /// signatures made by the library are accepted by the independent RFC 8554 verifier - also for message digests Q with
        /// leading zero bytes (searched with the reference hash: the randomizer C is the next output of the deterministic RNG)
        pub fn rfcref(start: u32, ctl: &[u8], msg: &[u8]) -> Result<(), String> {
            let n: usize = $n;
            let leaf = start % LEAVES;
            let mut sk = key_at(leaf);
            let i_ = sk.verif_I();
            let t1 = sk.verif_T()[1];
            let seed = u64::from_le_bytes(ctl.try_into().unwrap()) ^ 0x5EED;
            let mut c = vec![0u8; n];
            { use crrl::RngCore; DetRng(seed).fill_bytes(&mut c); }
            let mut m = msg.to_vec();
            if ctl[0] % 2 == 0 {
                // look for a suffix that makes the first digit(s) of Q zero
                let want = 1 + (ctl[1] % 2) as usize * 0;
                for t in 0..3000u32 {
                    let mut cand = msg.to_vec(); cand.extend_from_slice(&t.to_le_bytes());
                    let qd = rfc_q(&i_, leaf, &c, &cand);
                    if qd[..want].iter().all(|&b| b == 0) { m = cand; break; }
                }
            }
            let mut rng = DetRng(seed);
            let sig = sk.sign(&mut rng, &m).ok_or_else(|| format!("sign returned None at leaf {}", leaf))?;
            chk(sig[8..8 + n] == c[..], || "randomizer C is not the next RNG output (harness assumption)".into())?;
            let qd = rfc_q(&i_, leaf, &c, &m);
            chk(rfc_verify(&i_, &t1, &sig, &m), || format!("signature made by the library is rejected by the RFC 8554 reference verifier (leaf {}, Q = {}, msg {})", leaf, hex(&qd), hex(&m)))?;
            chk(sk.compute_public().verify(&sig, &m), || format!("own signature rejected (leaf {})", leaf))
        }

        /// one signature at leaf `start % 2^h`, then one corruption
        pub fn corrupt(start: u32, ctl: &[u8], msg: &[u8]) -> Result<(), String> {
            let leaf = start % LEAVES;
            let mut sk = key_at(leaf);
            let pk = sk.compute_public();
            let mut rng = DetRng(u64::from_le_bytes(ctl.try_into().unwrap()) ^ 0x1234);
            let sig = sk.sign(&mut rng, msg).ok_or_else(|| format!("sign returned None at leaf {}", leaf))?;
            chk(u32::from_be_bytes([sig[0], sig[1], sig[2], sig[3]]) == leaf, || "leaf index".into())?;
            chk(pk.verify(&sig, msg), || format!("fresh signature rejected (leaf {})", leaf))?;
            let par = u32::from_le_bytes([ctl[1], ctl[2], ctl[3], ctl[4]]) as usize;
            let par2 = ctl[5] as usize;
            let mut s = sig.to_vec();
            let mut m = msg.to_vec();
            let what;
            match ctl[0] % 7 {
                0 => { what = "different message";
                    match par2 % 3 {
                        0 if !m.is_empty() => { let b = par % (8 * m.len()); m[b / 8] ^= 1 << (b % 8); }
                        1 if !m.is_empty() => { m.pop(); }
                        _ => { m.push(par as u8); }
                    } }
                1 => { what = "flipped bit"; let b = par % (8 * SIGLEN); s[b / 8] ^= 1 << (b % 8); }
                2 => { what = "truncated"; s.truncate(if par2 & 1 == 0 { SIGLEN - 1 } else { par % SIGLEN }); }
                3 => { what = "extended"; for i in 0..1 + par2 % 3 { s.push((par >> (8 * i)) as u8); } }
                4 => { what = "other leaf index"; let q = (leaf + 1 + (par as u32) % (LEAVES - 1)) % LEAVES; s[..4].copy_from_slice(&q.to_be_bytes()); }
                5 => { what = "leaf index out of range"; let q = [LEAVES, 0x8000_0000u32, 0xFFFF_FFFFu32][par % 3]; s[..4].copy_from_slice(&q.to_be_bytes()); }
                _ => { what = "flipped bit near a field boundary";
                    let ots = PrivateKey::VERIF_OTS_SIGLEN;
                    let marks = [0usize, 3, 4, 7, 8, 4 + ots - 1, 4 + ots, 4 + ots + 3, 4 + ots + 4, SIGLEN - 1];
                    let b = 8 * marks[par % marks.len()] + par2 % 8; s[b / 8] ^= 1 << (b % 8); }
            }
            chk(!pk.verify(&s, &m), || format!("corrupted signature accepted ({}; leaf {}, ctl {}): {}", what, leaf, hex(ctl), hex(&s)))
        }
    }
} }
lms_set!(lms0, LMS_SHA256_M32_H5_SHA256_N32_W8, 0x4C4D5330, 32, |m: &[u8]| crate::cases_hash::ref_sha256(m));
lms_set!(lms1, LMS_SHA256_M24_H5_SHA256_N24_W8, 0x4C4D5331, 24, |m: &[u8]| crate::cases_hash::ref_sha256(m)[..24].to_vec());
lms_set!(lms2, LMS_SHAKE_M24_H5_SHAKE_N24_W8, 0x4C4D5332, 24, |m: &[u8]| crate::cases_hash::ref_keccak(136, 0x1F, m, 24));
lms_set!(lms3, LMS_SHAKE_M32_H5_SHAKE_N32_W8, 0x4C4D5333, 32, |m: &[u8]| crate::cases_hash::ref_keccak(136, 0x1F, m, 32));

fn sp_lms_life() -> Vec<Vec<u8>> {
    let mut v = Vec::new();
    for set in 0..4u8 {
        for start in [0u32, 1, 30, 31, 32, 33, 0x7FFFFFFF, 0x80000000, 0xFFFFFFFF] {
            let mut x = vec![set];
            x.extend_from_slice(&start.to_le_bytes());
            x.extend_from_slice(&[set, 1, 2, 3, 4, 5, 6, 7]);
            x.extend_from_slice(b"message");
            v.push(x);
        }
    }
    v
}
fn rnd_lms_life(r: &mut Rng) -> Vec<u8> {
    let start: u32 = match r.below(8) { 0 => r.below(32) as u32, 1 => 32 + r.below(4) as u32, 2 => r.next() as u32 | 0x8000_0000, 3 => 0xFFFF_FFFF - r.below(3) as u32, 4 | 5 => 24 + r.below(8) as u32, _ => 28 + r.below(4) as u32 };
    let mut x = vec![r.below(4) as u8];
    x.extend_from_slice(&start.to_le_bytes());
    x.extend_from_slice(&rand_bytes(r, 8));
    let l = r.below(70) as usize;
    x.extend_from_slice(&biased_bytes(r, l));
    x
}
fn sp_lms_corrupt() -> Vec<Vec<u8>> {
    let mut v = Vec::new();
    for set in 0..4u8 {
        for (leaf, kind) in [(0u32, 0u8), (0, 1), (31, 1), (5, 2), (5, 3), (17, 4), (31, 4), (9, 5), (31, 6), (0, 6)] {
            for par in [0u32, 1, 7, 31, 32, 33, 8 * 36 + 1, 1000, 9999] {
                for par2 in [0u8, 1, 2] {
                    if par2 != 0 && !matches!(kind, 0 | 2 | 3 | 6) { continue; }
                    let mut x = vec![set];
                    x.extend_from_slice(&leaf.to_le_bytes());
                    x.push(kind);
                    x.extend_from_slice(&par.to_le_bytes());
                    x.extend_from_slice(&[par2, 0, 0]);
                    x.extend_from_slice(if par & 1 == 0 { b"message" } else { b"" });
                    v.push(x);
                }
            }
        }
    }
    v
}
fn rnd_lms_corrupt(r: &mut Rng) -> Vec<u8> {
    let mut x = vec![r.below(4) as u8];
    x.extend_from_slice(&(r.next() as u32).to_le_bytes());
    let mut ctl = rand_bytes(r, 8);
    ctl[0] = r.below(7) as u8;
    if r.below(3) == 0 { ctl[3] = 0; ctl[4] = 0; }
    x.extend_from_slice(&ctl);
    let l = r.below(70) as usize;
    x.extend_from_slice(&biased_bytes(r, l));
    x
}

fn reg_lms(v: &mut Vec<Case>) {
    v.push(Case { id: "lms_key_life".into(),
        describe: "from leaf `start` to exhaustion: q strictly increasing from the state, each once, state = q+1; at / after 2^h sign returns None and the state does not change; signatures verify for their message only; I/SEED/tree/public key unchanged. Input: set%4 | start leaf (u32 LE) | ctl(8) | msg",
        ops: vec![Op::Custom { len: None, specials: sp_lms_life, random: rnd_lms_life }],
        run: Box::new(|inp: &[u8]| {
            let (set, start, ctl, msg) = match lms_parse(inp) { Some(x) => x, None => return Ok(()) };
            match set { 0 => lms0::life(start, ctl, msg), 1 => lms1::life(start, ctl, msg), 2 => lms2::life(start, ctl, msg), _ => lms3::life(start, ctl, msg) }
        }) });
    v.push(Case { id: "lms_rfc_ref".into(),
        describe: "a signature made by the library (any leaf) is accepted by an independent RFC 8554 verifier (Algorithms 4b / 6a over the harness's own SHA-256 / SHAKE256), including messages whose digest Q starts with a zero digit (found by search: the randomizer comes from the deterministic RNG). Input: set(1) | leaf (4, LE) | ctl(8) | msg",
        ops: vec![Op::Custom { len: None, specials: sp_lms_corrupt, random: rnd_lms_corrupt }],
        run: Box::new(|inp: &[u8]| {
            let (set, start, ctl, msg) = match lms_parse(inp) { Some(x) => x, None => return Ok(()) };
            match set { 0 => lms0::rfcref(start, ctl, msg), 1 => lms1::rfcref(start, ctl, msg), 2 => lms2::rfcref(start, ctl, msg), _ => lms3::rfcref(start, ctl, msg) }
        }) });
    v.push(Case { id: "lms_sig_corrupt".into(),
        describe: "a produced signature verifies; different message, any single flipped bit, truncation, trailing bytes, other / out-of-range leaf index are rejected. Input: set%4 | leaf (u32 LE, mod 2^h) | ctl(8: kind%7, par32, par8, ..) | msg",
        ops: vec![Op::Custom { len: None, specials: sp_lms_corrupt, random: rnd_lms_corrupt }],
        run: Box::new(|inp: &[u8]| {
            let (set, start, ctl, msg) = match lms_parse(inp) { Some(x) => x, None => return Ok(()) };
            match set { 0 => lms0::corrupt(start, ctl, msg), 1 => lms1::corrupt(start, ctl, msg), 2 => lms2::corrupt(start, ctl, msg), _ => lms3::corrupt(start, ctl, msg) }
        }) });
}


pub fn register(v: &mut Vec<Case>) {
    reg_x(v);
    reg_ed(v);
    reg_ecdsa(v);
    reg_schnorr(v);
    reg_lms(v);
}
