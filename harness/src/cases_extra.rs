//! Additional executable postconditions:
//!   C06      quotient groups: isneutral() / equals(NEUTRAL) / encode() agree on every representative
//!   C08      ECDSA verification when x(R) lies in [n, p-1]
//!   C04/C11  endomorphism splits split_mu (jq255e) and split_theta (secp256k1), incl. exact rounding
//!   C13      truncated signatures (Ed25519, ECDSA/P-256)
#![allow(non_snake_case)]
use crate::gen::Rng;
use crate::ora::*;
use crate::{Case, Op};
use num_bigint::{BigInt, Sign};
use std::sync::OnceLock;

fn bi(x: i64) -> BigInt { BigInt::from(x) }
fn hexint(s: &str) -> BigInt { BigInt::parse_bytes(s.as_bytes(), 16).unwrap() }
fn int_to_be(x: &BigInt, len: usize) -> Vec<u8> { let mut v = int_to_le(x, len); v.reverse(); v }
fn chk(cond: bool, msg: impl FnOnce() -> String) -> Result<(), String> { if cond { Ok(()) } else { Err(msg()) } }
fn rand_bytes(r: &mut Rng, n: usize) -> Vec<u8> { (0..n).map(|_| r.next() as u8).collect() }
fn biased_bytes(r: &mut Rng, n: usize) -> Vec<u8> {
    match r.below(8) {
        0 => vec![0u8; n],
        1 => vec![0xFFu8; n],
        2 => { let mut v = vec![0u8; n]; if n > 0 { let i = r.below(n as u64) as usize; v[i] = 1 << r.below(8); } v }
        3 => { let mut v = vec![0xFFu8; n]; if n > 0 { let i = r.below(n as u64) as usize; v[i] ^= 1 << r.below(8); } v }
        4 => { let mut v = vec![0u8; n]; if n > 0 { v[0] = r.below(8) as u8; } v }
        _ => rand_bytes(r, n),
    }
}
fn rnd_below(r: &mut Rng, n: &BigInt) -> BigInt {
    let l = (n.bits() as usize + 7) / 8 + 8;
    le_to_int(&rand_bytes(r, l)) % n
}
/// 128-bit patterns whose limbs sit on carry boundaries
fn limb_pattern(r: &mut Rng) -> u64 {
    match r.below(8) {
        0 => 0,
        1 => u64::MAX,
        2 => 1,
        3 => u64::MAX - 1,
        4 => 1u64 << 63,
        5 => u64::MAX << r.below(64),
        6 => u64::MAX >> r.below(64),
        _ => r.next(),
    }
}

// ======================================================================
// 1. C06: neutral / equality tests do not depend on the representative
// ======================================================================

trait QG: Copy + 'static {
    type S: Copy;
    const ELEN: usize;
    fn neutral() -> Self;
    fn base() -> Self;
    fn mulgen(s: &Self::S) -> Self;
    fn mul(self, s: &Self::S) -> Self;
    fn mul64(self, k: u64) -> Self;
    fn add(self, o: Self) -> Self;
    fn sub(self, o: Self) -> Self;
    fn neg(self) -> Self;
    fn dbl(self) -> Self;
    fn xdbl(self, n: u32) -> Self;
    fn eq(self, o: Self) -> u32;
    fn isn(self) -> u32;
    fn enc(self) -> Vec<u8>;
    fn dec(b: &[u8]) -> Option<Self>;
    /// deterministic map of 128 input bytes to a group element with an "arbitrary" representative
    fn map(b: &[u8]) -> Self;
    fn mamg(self, u: &Self::S, v: &Self::S) -> Self;
    fn s_red(b: &[u8]) -> Self::S;
    fn s_zero() -> Self::S;
    fn s_one() -> Self::S;
    fn s_neg(a: Self::S) -> Self::S;
    fn s_add(a: Self::S, b: Self::S) -> Self::S;
    fn s_mul(a: Self::S, b: Self::S) -> Self::S;
    fn s_enc(a: Self::S) -> Vec<u8>;
}

macro_rules! impl_qg { ($m:ident, $elen:expr, $map:expr) => {
    impl QG for crrl::$m::Point {
        type S = crrl::$m::Scalar;
        const ELEN: usize = $elen;
        fn neutral() -> Self { Self::NEUTRAL }
        fn base() -> Self { Self::BASE }
        fn mulgen(s: &Self::S) -> Self { Self::mulgen(s) }
        fn mul(self, s: &Self::S) -> Self { self * s }
        fn mul64(self, k: u64) -> Self { self * k }
        fn add(self, o: Self) -> Self { self + o }
        fn sub(self, o: Self) -> Self { self - o }
        fn neg(self) -> Self { -self }
        fn dbl(self) -> Self { self.double() }
        fn xdbl(self, n: u32) -> Self { self.xdouble(n) }
        fn eq(self, o: Self) -> u32 { self.equals(o) }
        fn isn(self) -> u32 { self.isneutral() }
        fn enc(self) -> Vec<u8> { self.encode().to_vec() }
        fn dec(b: &[u8]) -> Option<Self> { Self::decode(b) }
        fn map(b: &[u8]) -> Self { let f: fn(&[u8]) -> Self = $map; f(b) }
        fn mamg(self, u: &Self::S, v: &Self::S) -> Self { self.mul_add_mulgen_vartime(u, v) }
        fn s_red(b: &[u8]) -> Self::S { <Self::S>::decode_reduce(b) }
        fn s_zero() -> Self::S { <Self::S>::ZERO }
        fn s_one() -> Self::S { <Self::S>::ONE }
        fn s_neg(a: Self::S) -> Self::S { -a }
        fn s_add(a: Self::S, b: Self::S) -> Self::S { a + b }
        fn s_mul(a: Self::S, b: Self::S) -> Self::S { a * b }
        fn s_enc(a: Self::S) -> Vec<u8> { a.encode().to_vec() }
    }
} }
impl_qg!(ristretto255, 32, |b| crrl::ristretto255::Point::one_way_map(&b[..64]));
impl_qg!(decaf448, 56, |b| crrl::decaf448::Point::one_way_map(&b[..112]));
impl_qg!(jq255e, 32, |b| crrl::jq255e::Point::hash_to_curve("", b));
impl_qg!(jq255s, 32, |b| crrl::jq255s::Point::hash_to_curve("", b));
impl_qg!(gls254, 32, |b| crrl::gls254::Point::hash_to_curve("", b));

fn flag(x: u32, what: &str) -> Result<bool, String> {
    match x { 0 => Ok(false), 0xFFFFFFFF => Ok(true), _ => Err(format!("{}: status word {:#010x} is neither 0 nor 0xFFFFFFFF", what, x)) }
}

/// all the views of "N is the neutral" must say yes
fn check_neutral<G: QG>(nn: G, q: G, what: &str) -> Result<(), String> {
    let zero = vec![0u8; G::ELEN];
    let e = nn.enc();
    let a = flag(nn.isn(), what)?;
    let b = flag(nn.eq(G::neutral()), what)?;
    let c = flag(G::neutral().eq(nn), what)?;
    let d = e == zero;
    chk(a && b && c && d, || format!("{}: a representative of the neutral gives isneutral()={} equals(NEUTRAL)={} NEUTRAL.equals()={} encode()={}", what, a, b, c, hex(&e)))?;
    // it behaves as the neutral in further operations
    let s = nn.add(q);
    let qe = q.enc();
    chk(flag(s.eq(q), what)? && s.enc() == qe, || format!("{}: N + Q differs from Q (encode {} vs {})", what, hex(&s.enc()), hex(&qe)))?;
    let s = q.sub(nn);
    chk(flag(q.eq(s), what)? && s.enc() == qe, || format!("{}: Q - N differs from Q", what))?;
    let m = nn.neg();
    chk(flag(m.isn(), what)? && m.enc() == zero && flag(m.eq(nn), what)?, || format!("{}: -N is not reported neutral", what))?;
    let m = nn.dbl();
    chk(flag(m.isn(), what)? && m.enc() == zero, || format!("{}: 2N is not reported neutral (isneutral {:#x}, encode {})", what, m.isn(), hex(&m.enc())))?;
    // Q - Q computed through N: (Q + N) - Q
    let m = nn.add(q).sub(q);
    chk(flag(m.isn(), what)? && flag(m.eq(G::neutral()), what)? && m.enc() == zero, || format!("{}: (N + Q) - Q is not reported neutral", what))
}

/// the three equality views agree (and match `expect` when the answer is known)
fn check_pair<G: QG>(a: G, b: G, expect: Option<bool>, what: &str) -> Result<(), String> {
    let zero = vec![0u8; G::ELEN];
    let e1 = flag(a.eq(b), what)?;
    let e2 = flag(b.eq(a), what)?;
    let (ea, eb) = (a.enc(), b.enc());
    let e3 = ea == eb;
    let d = a.sub(b);
    let e4 = flag(d.isn(), what)?;
    let e5 = d.enc() == zero;
    let e6 = flag(b.sub(a).eq(G::neutral()), what)?;
    chk(e1 == e2 && e2 == e3 && e3 == e4 && e4 == e5 && e5 == e6, || format!("{}: A.equals(B)={} B.equals(A)={} same encoding={} (A-B).isneutral()={} (A-B).encode()==0: {} (B-A).equals(NEUTRAL)={}; A={} B={}", what, e1, e2, e3, e4, e5, e6, hex(&ea), hex(&eb)))?;
    if let Some(x) = expect { chk(e1 == x, || format!("{}: expected equal={} but all views say {}; A={} B={}", what, x, e1, hex(&ea), hex(&eb)))?; }
    // a decoded copy is the same element
    match G::dec(&ea) { Some(a2) => chk(flag(a2.eq(a), what)? && a2.enc() == ea && flag(a2.isn(), what)? == (ea == zero), || format!("{}: decode(encode(A)) differs from A", what)), None => Err(format!("{}: encode(A) = {} does not decode", what, hex(&ea))) }
}

fn order_of<G: QG>() -> BigInt { le_to_int(&G::s_enc(G::s_neg(G::s_one()))) + 1 }

// input: ctl(4) | a(64) | b(64)
fn run_neutral<G: QG>(inp: &[u8]) -> Result<(), String> {
    if inp.len() != 132 { return Ok(()); }
    let (c0, c1, c2, c3) = (inp[0], inp[1], inp[2], inp[3]);
    let (ab, bb) = (&inp[4..68], &inp[68..132]);
    let a = G::s_red(ab);
    let b = G::s_red(bb);
    let mut mapin = ab.to_vec(); mapin.extend_from_slice(bb);
    let mut mapin2 = bb.to_vec(); mapin2.extend_from_slice(ab);
    let p: G = match c2 % 8 {
        0 => G::mulgen(&a),
        1 => G::map(&mapin),
        2 => match G::dec(&G::mulgen(&a).enc()) { Some(x) => x, None => return Err("encode(mulgen(a)) does not decode".into()) },
        3 => G::base().mul(&a),
        4 => G::mulgen(&a).add(G::map(&mapin)),
        5 => G::neutral(),
        6 => G::map(&mapin).dbl().neg(),
        _ => G::base().mul64(u64::from_le_bytes(ab[..8].try_into().unwrap())),
    };
    let q: G = match (c2 >> 3) % 4 { 0 => G::mulgen(&b), 1 => G::map(&mapin2), 2 => G::base(), _ => G::mulgen(&b).neg() };
    let np = p.neg();
    let dnp = G::dec(&np.enc()).ok_or("encode(-P) does not decode")?;
    let dp = G::dec(&p.enc()).ok_or("encode(P) does not decode")?;

    // --- representatives of the neutral ---
    let sel = c0 % 16;
    let all = c0 >= 0xF0;
    let mut reps: Vec<(G, &str)> = Vec::new();
    if all || sel == 0 { reps.push((p.sub(p), "P - P")); reps.push((p.add(np), "P + (-P)")); }
    if all || sel == 1 { reps.push((p.add(dnp), "P + decode(encode(-P))")); reps.push((dnp.add(p), "decode(encode(-P)) + P")); }
    if all || sel == 2 { reps.push((dp.sub(p), "decode(encode(P)) - P")); reps.push((p.sub(dp), "P - decode(encode(P))")); reps.push((np.sub(dnp), "(-P) - decode(encode(-P))")); }
    if all || sel == 3 { reps.push((p.add(q).sub(q).sub(p), "(P + Q) - Q - P")); reps.push((p.add(q).sub(p.add(q)), "(P + Q) - (P + Q)")); reps.push((p.add(q).add(np).add(q.neg()), "P + Q + (-P) + (-Q)")); }
    if all || sel == 4 { reps.push((G::mulgen(&G::s_zero()), "mulgen(0)")); reps.push((G::mulgen(&a).add(G::mulgen(&G::s_neg(a))), "mulgen(a) + mulgen(-a)")); }
    if all || sel == 5 { reps.push((G::mulgen(&a).add(G::mulgen(&b)).sub(G::mulgen(&G::s_add(a, b))), "mulgen(a) + mulgen(b) - mulgen(a+b)")); }
    if all || sel == 6 { reps.push((p.mul(&G::s_zero()), "P * 0")); reps.push((p.mul64(0), "P * 0u64")); reps.push((p.mul(&a).add(p.mul(&G::s_neg(a))), "a*P + (-a)*P")); }
    if all || sel == 7 { reps.push((G::neutral().add(G::neutral()), "NEUTRAL + NEUTRAL")); reps.push((G::neutral().dbl(), "2*NEUTRAL")); reps.push((G::neutral().neg(), "-NEUTRAL")); reps.push((G::neutral().xdbl(1 + c3 as u32 % 70), "NEUTRAL.xdouble(n)")); reps.push((G::neutral().mul(&a), "NEUTRAL * a")); }
    if all || sel == 8 { let g = G::mulgen(&a); reps.push((g.mul(&b).sub(G::mulgen(&G::s_mul(a, b))), "b*mulgen(a) - mulgen(a*b)")); }
    if all || sel == 9 { reps.push((G::mulgen(&a).mamg(&b, &G::s_neg(G::s_mul(a, b))), "mul_add_mulgen_vartime: b*(a*G) + (-a*b)*G")); reps.push((p.mamg(&G::s_zero(), &G::s_zero()), "mul_add_mulgen_vartime(0, 0)")); }
    if all || sel == 10 { // [order]P with a double-and-add chain over the public operations
        let r = order_of::<G>();
        let mut acc = G::neutral();
        for t in (0..r.bits()).rev() { acc = acc.dbl(); if r.bit(t) { acc = acc.add(p); } }
        reps.push((acc, "[order]P by double-and-add"));
    }
    if all || sel == 11 { // (order - k)*P + k*P with a small k
        let k = 1 + (c3 as u64 % 31);
        let km = G::s_neg(G::s_red(&k.to_le_bytes()));
        reps.push((p.mul(&km).add(p.mul64(k)), "(order-k)*P + k*P"));
        reps.push((G::mulgen(&km).add(G::base().mul64(k)), "mulgen(order-k) + k*G"));
    }
    if all || sel == 12 { reps.push((dp.add(dnp), "decode(encode(P)) + decode(encode(-P))")); reps.push((p.dbl().sub(p).sub(dp), "2P - P - decode(encode(P))")); }
    if all || sel == 13 { let n = 1 + c3 as u32 % 9; reps.push((p.xdbl(n).sub(p.mul64(1u64 << n)), "P.xdouble(n) - (2^n)*P")); reps.push((p.dbl().add(dnp.dbl()), "2P + 2*decode(encode(-P))")); }
    if all || sel == 14 { let z = G::dec(&vec![0u8; G::ELEN]).ok_or("the all-zero encoding does not decode")?; reps.push((z, "decode(0)")); reps.push((z.add(p).sub(dp), "decode(0) + P - decode(encode(P))")); }
    if all || sel == 15 { let t = p.add(dnp); reps.push((t.add(t), "N + N for N = P + decode(encode(-P))")); reps.push((t.sub(p.sub(p)), "N - (P - P)")); reps.push((t.mul(&a), "N * a")); reps.push((t.mul64(3), "N * 3")); }
    for (i, (nn, what)) in reps.iter().enumerate() {
        check_neutral::<G>(*nn, q, what)?;
        if i > 0 { chk(flag(nn.eq(reps[0].0), what)?, || format!("two representatives of the neutral are not equal: {} vs {}", what, reps[0].1))?; }
    }

    // --- other targets: equality views agree ---
    let k = 1 + (c3 as u64 % 7);
    let kg = G::base().mul64(k);
    match c1 % 12 {
        0 => check_pair::<G>(p.add(q), q.add(p), Some(true), "P+Q vs Q+P"),
        1 => check_pair::<G>(p.add(q), dp.add(G::dec(&q.enc()).ok_or("encode(Q) does not decode")?), Some(true), "P+Q vs decode(encode(P)) + decode(encode(Q))"),
        2 => check_pair::<G>(p.dbl(), p.add(dp), Some(true), "2P vs P + decode(encode(P))"),
        3 => check_pair::<G>(p.add(q).sub(q), p, Some(true), "(P+Q)-Q vs P"),
        4 => check_pair::<G>(p, p.add(kg), Some(false), "P vs P + k*G"),
        5 => check_pair::<G>(p.add(dnp).add(q), q, Some(true), "N + Q vs Q"),
        6 => check_pair::<G>(p, q, None, "P vs Q"),
        7 => check_pair::<G>(p, np, None, "P vs -P"),
        8 => check_pair::<G>(dp, p.add(dnp).add(p), Some(true), "decode(encode(P)) vs N + P"),
        9 => check_pair::<G>(p.add(dnp), kg, Some(false), "N vs k*G"),
        10 => check_pair::<G>(p.mul64(k), p.mul(&G::s_red(&k.to_le_bytes())), Some(true), "P*k (u64) vs P*k (scalar)"),
        _ => check_pair::<G>(p.add(dnp).add(kg), dnp.add(p).sub(kg.neg()), Some(true), "N + kG vs N' + kG"),
    }
}

fn sp_neutral_ctl() -> Vec<Vec<u8>> {
    let mut v = Vec::new();
    for c2 in [0u8, 1, 2, 3, 4, 5, 6, 7, 8 + 1, 16 + 0, 24 + 1] { v.push(vec![0xF0, c2, c2, 3]); }
    for c1 in 0..12u8 { for c2 in [0u8, 1, 5, 9] { v.push(vec![c1, c1, c2, c1]); } }
    v
}
fn rnd_neutral_ctl(r: &mut Rng) -> Vec<u8> { let mut c = rand_bytes(r, 4); if r.below(8) == 0 { c[0] |= 0xF0; } else { c[0] &= 0x0F; } c }
fn sp_bytes64() -> Vec<Vec<u8>> {
    let mut v = vec![vec![0u8; 64], vec![0xFFu8; 64], (0..64).map(|i| (i * 37 + 11) as u8).collect::<Vec<u8>>()];
    let mut w = vec![0u8; 64]; w[0] = 1; v.push(w);
    v
}
fn rnd_bytes64(r: &mut Rng) -> Vec<u8> { biased_bytes(r, 64) }

fn reg_neutral(v: &mut Vec<Case>) {
    fn add<G: QG>(v: &mut Vec<Case>, name: &str) {
        v.push(Case { id: format!("{}_neutral_consistency", name),
            describe: "isneutral(), equals(NEUTRAL) and encode()==0 agree for every representative of the neutral built through the public API (P-P, P+decode(encode(-P)), [order]P, ...); equals / same encoding / (A-B).isneutral() agree for other pairs. Input: ctl(4: neutral construction, pair construction, P/Q source, small k) | a(64) | b(64)",
            ops: vec![Op::Custom { len: Some(4), specials: sp_neutral_ctl, random: rnd_neutral_ctl }, Op::Custom { len: Some(64), specials: sp_bytes64, random: rnd_bytes64 }, Op::Custom { len: Some(64), specials: sp_bytes64, random: rnd_bytes64 }],
            run: Box::new(run_neutral::<G>) });
    }
    add::<crrl::ristretto255::Point>(v, "ristretto255");
    add::<crrl::decaf448::Point>(v, "decaf448");
    add::<crrl::jq255e::Point>(v, "jq255e");
    add::<crrl::jq255s::Point>(v, "jq255s");
    add::<crrl::gls254::Point>(v, "gls254");
}

// ======================================================================
// 2. C08: ECDSA signatures whose R has x in [n, p-1]
// ======================================================================

struct WsParams { p: BigInt, a: BigInt, b: BigInt, n: BigInt }
fn p256_params() -> &'static WsParams {
    static C: OnceLock<WsParams> = OnceLock::new();
    C.get_or_init(|| {
        let p = hexint("ffffffff00000001000000000000000000000000ffffffffffffffffffffffff");
        WsParams { a: &p - 3, b: hexint("5ac635d8aa3a93e7b3ebbd55769886bc651d06b0cc53b0f63bce3c3e27d2604b"), n: hexint("ffffffff00000000ffffffffffffffffbce6faada7179e84f3b9cac2fc632551"), p }
    })
}
fn secp256k1_params() -> &'static WsParams {
    static C: OnceLock<WsParams> = OnceLock::new();
    C.get_or_init(|| WsParams { p: hexint("fffffffffffffffffffffffffffffffffffffffffffffffffffffffefffffc2f"), a: bi(0), b: bi(7), n: hexint("fffffffffffffffffffffffffffffffebaaedce6af48a03bbfd25e8cd0364141") })
}
/// y with y^2 = x^3 + a*x + b (p = 3 mod 4), if any
fn ws_lift(c: &WsParams, x: &BigInt) -> Option<BigInt> {
    let rhs = emod(&(x * x * x + &c.a * x + &c.b), &c.p);
    let y = modpow(&rhs, &((&c.p + 1) / 4), &c.p);
    if (&y * &y) % &c.p == rhs { Some(y) } else { None }
}

macro_rules! highx_case { ($v:ident, $id:expr, $m:ident, $params:ident) => {
    $v.push(Case { id: $id.into(),
        describe: "ECDSA verify_hash accepts (r = x(R) - n, s) when x(R) lies in [n, p-1] (public key built as (s*R - h*G)/r), rejects r+1 and the unreduced x. Input: j(17, reduced mod p-n) | ctl(1: bit0 parity of y) | s(32) | hash(32)",
        ops: vec![Op::Custom { len: Some(17), specials: sp_highx_j, random: rnd_highx_j }, Op::Custom { len: Some(1), specials: sp_bit, random: rnd_bit }, Op::Custom { len: Some(32), specials: sp_s32_small, random: rnd_s32 }, Op::Custom { len: Some(32), specials: sp_hash32, random: rnd_hash32 }],
        run: Box::new(|inp: &[u8]| {
            use crrl::$m::{Point, PublicKey, Scalar};
            if inp.len() != 82 { return Ok(()); }
            let c = $params();
            let span = &c.p - &c.n;
            // smallest j' >= j (cyclically in [1, p-n-1]) such that n + j' is the abscissa of a curve point
            let mut j = le_to_int(&inp[..17]) % &span;
            let mut y = None;
            for _ in 0..200 {
                if j.sign() != Sign::NoSign { if let Some(yy) = ws_lift(c, &(&c.n + &j)) { y = Some(yy); break; } }
                j = (j + 1) % &span;
            }
            let mut y = match y { Some(y) => y, None => return Ok(()) };
            if y.bit(0) != (inp[17] & 1 == 1) { y = &c.p - &y; }
            let x = &c.n + &j;
            let mut enc = vec![4u8]; enc.extend_from_slice(&int_to_be(&x, 32)); enc.extend_from_slice(&int_to_be(&y, 32));
            let R = match Point::decode(&enc) { Some(r) => r, None => return Err(format!("point ({}, {}) is on the curve but Point::decode refuses it", x, y)) };
            let mut s = Scalar::decode_reduce(&inp[18..50]);
            if s.iszero() != 0 { s = Scalar::ONE; }
            let hv = &inp[50..82];
            let mut hle = hv.to_vec(); hle.reverse();
            let h = Scalar::decode_reduce(&hle);
            let r = Scalar::decode_reduce(&int_to_le(&j, 32));
            let Q = (R * s - Point::mulgen(&h)) * (Scalar::ONE / r);
            if Q.isneutral() != 0 { return Ok(()); }
            let pk = match PublicKey::decode(&Q.encode_compressed()) { Some(pk) => pk, None => return Err("constructed public key does not decode".into()) };
            let mut sbe = s.encode().to_vec(); sbe.reverse();
            let mut sig = int_to_be(&j, 32); sig.extend_from_slice(&sbe);
            let desc = |sig: &[u8]| format!("x(R) = n + {} , Q = {} sig = {} hash = {}", j, hex(&Q.encode_compressed()), hex(sig), hex(hv));
            chk(pk.verify_hash(&sig, hv), || format!("valid signature rejected (x(R) mod n == r): {}", desc(&sig)))?;
            // also with the leading zeros of r and s removed pairwise / added (documented: any even length)
            let mut padded = vec![0u8]; padded.extend_from_slice(&sig[..32]); padded.push(0); padded.extend_from_slice(&sig[32..]);
            chk(pk.verify_hash(&padded, hv), || format!("valid signature rejected when r and s are padded to 33 bytes: {}", desc(&padded)))?;
            // r + 1
            let mut sig2 = int_to_be(&(&j + 1), 32); sig2.extend_from_slice(&sbe);
            chk(!pk.verify_hash(&sig2, hv), || format!("signature with r+1 accepted: {}", desc(&sig2)))?;
            // r replaced by the unreduced abscissa (out of range: must be refused)
            let mut sig3 = int_to_be(&x, 32); sig3.extend_from_slice(&sbe);
            chk(!pk.verify_hash(&sig3, hv), || format!("signature with r = x(R) >= n accepted: {}", desc(&sig3)))?;
            // another hash
            let mut hv2 = hv.to_vec(); hv2[31] ^= 1;
            chk(!pk.verify_hash(&sig, &hv2), || format!("signature accepted for another hash: {}", desc(&sig)))
        }) });
} }
fn sp_highx_j() -> Vec<Vec<u8>> {
    let mut v: Vec<Vec<u8>> = Vec::new();
    for j in 0..24u64 { v.push(int_to_le(&BigInt::from(j), 17)); }
    // just below p - n for both curves (the search wraps around), and some large values
    for c in [p256_params(), secp256k1_params()] {
        let span = &c.p - &c.n;
        for d in 1..8 { v.push(int_to_le(&(&span - d), 17)); }
    }
    for k in [32u32, 63, 64, 65, 96, 125, 127] { v.push(int_to_le(&pow2(k), 17)); v.push(int_to_le(&(pow2(k) - 1), 17)); }
    v
}
fn rnd_highx_j(r: &mut Rng) -> Vec<u8> {
    match r.below(4) {
        0 => int_to_le(&BigInt::from(r.below(4096)), 17),
        1 => { let c = if r.below(2) == 0 { p256_params() } else { secp256k1_params() }; let span = &c.p - &c.n; int_to_le(&(&span - r.below(5000)), 17) }
        2 => { let mut b = Vec::new(); b.extend_from_slice(&limb_pattern(r).to_le_bytes()); b.extend_from_slice(&limb_pattern(r).to_le_bytes()); b.push(r.below(2) as u8); b }
        _ => rand_bytes(r, 17),
    }
}
fn sp_bit() -> Vec<Vec<u8>> { vec![vec![0u8], vec![1u8]] }
fn rnd_bit(r: &mut Rng) -> Vec<u8> { vec![r.next() as u8] }
fn sp_s32_small() -> Vec<Vec<u8>> { vec![{ let mut o = vec![0u8; 32]; o[0] = 1; o }, vec![0xFFu8; 32], (0..32).map(|i| (i * 29 + 5) as u8).collect::<Vec<u8>>()] }
fn rnd_s32(r: &mut Rng) -> Vec<u8> { biased_bytes(r, 32) }
fn sp_hash32() -> Vec<Vec<u8>> {
    let mut v = vec![vec![0u8; 32], vec![0xFFu8; 32], (0..32).map(|i| (i * 37 + 11) as u8).collect::<Vec<u8>>()];
    for c in [p256_params(), secp256k1_params()] { for d in [-1i64, 0, 1] { v.push(int_to_be(&(&c.n + d), 32)); } }
    v
}
fn rnd_hash32(r: &mut Rng) -> Vec<u8> {
    if r.below(4) == 0 { let c = if r.below(2) == 0 { p256_params() } else { secp256k1_params() }; int_to_be(&(&c.n + r.below(9) - 4), 32) } else { biased_bytes(r, 32) }
}

// ======================================================================
// 3. C04 / C11: endomorphism splits
// ======================================================================

struct SplitParams {
    r: BigInt,            // group order
    eig: BigInt,          // eigenvalue (mu / theta)
    e: [BigInt; 2],       // the two multipliers of the rounded divisions
}
fn jq255e_split() -> &'static SplitParams {
    static C: OnceLock<SplitParams> = OnceLock::new();
    C.get_or_init(|| {
        let r = pow2(254) - hexint("62F36CF0ABF873ACE0AD37518B27BADB");
        let u = hexint("1A509F7A53C2C6E62ACCF9DEC93F6111");
        let v = hexint("7D440C6AFFBB3A930B7A31305466F77E");
        let mu = hexint("3304A73398CAEADB37382C8933C3F6D9B153382D88E2CF399C46EF0C23DF370D");
        assert!(&u * &u + &v * &v == r, "jq255e: u^2 + v^2 != r");
        assert!((&mu * &mu + 1) % &r == bi(0), "jq255e: mu^2 != -1");
        assert!(emod(&(&mu * &v - &u), &r) == bi(0), "jq255e: mu != u/v");
        SplitParams { r, eig: mu, e: [u, v] }
    })
}
fn secp256k1_split() -> &'static SplitParams {
    static C: OnceLock<SplitParams> = OnceLock::new();
    C.get_or_init(|| {
        let n = secp256k1_params().n.clone();
        let s = hexint("3086D221A7D46BCDE86C90E49284EB15");
        let t = hexint("E4437ED6010E88286F547FA90ABFE4C3");
        let theta = hexint("5363AD4CC05C30E0A5261C028812645A122E22EA20816678DF02967C1B23BD72");
        assert!(&s * &s + &t * &t + &s * &t == n, "secp256k1: s^2 + t^2 + s*t != n");
        assert!((&theta * &theta + &theta + 1) % &n == bi(0), "secp256k1: theta^2 + theta + 1 != 0");
        assert!(emod(&(&theta * &t - &s), &n) == bi(0), "secp256k1: theta != s/t");
        SplitParams { r: n, eig: theta, e: [s, t] }
    })
}

fn signed(abs: u128, sgn: u32) -> Result<BigInt, String> {
    match sgn { 0 => Ok(BigInt::from(abs)), 0xFFFFFFFF => Ok(-BigInt::from(abs)), _ => Err(format!("sign word {:#010x} is neither 0 nor 0xFFFFFFFF", sgn)) }
}

/// scalars built from a chosen quotient c of the rounded division round(k*e/r), or sitting on a rounding boundary
fn split_scalars_special(c: &SplitParams) -> Vec<Vec<u8>> {
    let r = &c.r;
    let mut ks: Vec<BigInt> = vec![bi(0), bi(1), bi(2), r - 1, r - 2, (r - 1) / 2, (r + 1) / 2, pow2(127), pow2(128) - 1, pow2(128), pow2(64) - 1, pow2(192), pow2(253), c.eig.clone(), r - &c.eig, (&c.eig + 1) % r];
    for e in &c.e {
        let ehi: u64 = (e >> 64u32).to_u64_digits().1.first().cloned().unwrap_or(0);
        let mut cs: Vec<BigInt> = Vec::new();
        for hi in [0u64, 1, 2, 0x1234567, ehi / 2, ehi - 1, u64::MAX >> (ehi.leading_zeros() + 1), 1u64 << 32, (1u64 << 32) - 1] {
            for lo in [0u64, 1, u64::MAX, u64::MAX - 1, 1u64 << 63, (1u64 << 63) - 1, 0xFFFFFFFF00000000, 0x00000000FFFFFFFF] {
                cs.push((BigInt::from(hi) << 64u32) + BigInt::from(lo));
            }
        }
        for c0 in cs {
            if &c0 >= e { continue; }
            // k*e/r just above c0, and on the boundary c0 - 1/2
            let k1 = (&c0 * r + e - 1) / e;
            let k2 = ((&c0 * 2 - 1) * r + e * 2 - 1) / (e * 2);
            for d in [-1i64, 0, 1] { ks.push(&k1 + d); ks.push(&k2 + d); }
        }
        // k*e mod r within a few units of r/2
        let einv = modinv(e, r);
        for d in -3i64..=3 { ks.push(emod(&(((r + 1) / 2 + d) * &einv), r)); ks.push(emod(&(((r - 1) / 2 + d) * &einv), r)); ks.push(emod(&(bi(d) * &einv), r)); }
    }
    ks.into_iter().filter(|k| k.sign() != Sign::Minus && k < r).map(|k| int_to_le(&k, 32)).collect()
}
fn split_scalar_random(c: &SplitParams, r: &mut Rng) -> Vec<u8> {
    let q = &c.r;
    let e = &c.e[r.below(2) as usize];
    let k: BigInt = match r.below(8) {
        0 | 1 | 2 => { // chosen quotient with limbs on carry boundaries
            let mut c0 = ((BigInt::from(limb_pattern(r)) << 64u32) + BigInt::from(limb_pattern(r))) % e;
            if r.below(3) == 0 { c0 = ((&c0 >> 64u32) << 64u32) + BigInt::from(if r.below(2) == 0 { u64::MAX } else { 0 }); c0 = c0 % e; }
            let d = bi(r.below(9) as i64 - 4);
            if r.below(2) == 0 { (&c0 * q + e - 1) / e + d } else { ((&c0 * 2 - 1) * q + e * 2 - 1) / (e * 2) + d }
        }
        3 => { // k*e mod r close to r/2 (rounding flips) or to 0
            let t = match r.below(3) { 0 => (q + 1) / 2, 1 => (q - 1) / 2, _ => bi(0) } + bi(r.below(17) as i64 - 8);
            emod(&(t * modinv(e, q)), q)
        }
        4 => { // small k0, k1 combinations: k = k0 + k1*eig
            let k0 = BigInt::from(limb_pattern(r)) * if r.below(2) == 0 { bi(1) } else { pow2(62) };
            let k1 = BigInt::from(limb_pattern(r)) * if r.below(2) == 0 { bi(1) } else { pow2(62) };
            let s0 = if r.below(2) == 0 { bi(1) } else { bi(-1) };
            emod(&(s0 * k0 + k1 * &c.eig), q)
        }
        5 => { // structured: few bits, runs
            let mut x = BigInt::from(0);
            for _ in 0..4 { x = (x << 64u32) + BigInt::from(limb_pattern(r)); }
            x % q
        }
        6 => q - 1 - BigInt::from(r.below(1 << 20)),
        _ => rnd_below(r, q),
    };
    int_to_le(&emod(&k, q), 32)
}
fn sp_split_mu() -> Vec<Vec<u8>> { split_scalars_special(jq255e_split()) }
fn rnd_split_mu(r: &mut Rng) -> Vec<u8> { split_scalar_random(jq255e_split(), r) }
fn sp_split_theta() -> Vec<Vec<u8>> { split_scalars_special(secp256k1_split()) }
fn rnd_split_theta(r: &mut Rng) -> Vec<u8> { split_scalar_random(secp256k1_split(), r) }

fn reg_split(v: &mut Vec<Case>) {
    v.push(Case { id: "jq255e_split_mu".into(),
        describe: "split_mu(k) = (|k0|, s0, |k1|, s1): k == k0 + k1*mu mod r, |k0|,|k1| < 2^127, and c, d are the exactly rounded quotients (|k0*u - k1*v| <= r/2, |k0*v + k1*u| <= r/2). Input: k (32 bytes LE, reduced)",
        ops: vec![Op::Custom { len: Some(32), specials: sp_split_mu, random: rnd_split_mu }],
        run: Box::new(|inp: &[u8]| {
            if inp.len() != 32 { return Ok(()); }
            let c = jq255e_split();
            let ks = crrl::jq255e::Scalar::decode_reduce(inp);
            let k = le_to_int(&ks.encode());
            let (n0, s0, n1, s1) = crrl::jq255e::Point::verif_split_mu(&ks);
            let k0 = signed(n0, s0)?;
            let k1 = signed(n1, s1)?;
            let desc = || format!("k = {:#x}: k0 = {} k1 = {}", k, k0, k1);
            chk(emod(&(&k0 + &k1 * &c.eig - &k), &c.r) == bi(0), || format!("k0 + k1*mu != k mod r; {}", desc()))?;
            chk(n0 < 1u128 << 127 && n1 < 1u128 << 127, || format!("|k0| or |k1| >= 2^127; {}", desc()))?;
            // exact rounding: (k0, k1) = -f*(u,-v) - e*(v,u) with |e|, |f| <= 1/2
            let (u, vv) = (&c.e[0], &c.e[1]);
            let f2: BigInt = (&k0 * u - &k1 * vv) * 2;
            let e2: BigInt = (&k0 * vv + &k1 * u) * 2;
            chk(f2.magnitude() <= c.r.magnitude() && e2.magnitude() <= c.r.magnitude(), || format!("quotients are not the rounded ones: 2*(k*u/r - d) = {}/r, 2*(k*v/r - c) = {}/r; {}", f2, e2, desc()))
        }) });
    v.push(Case { id: "secp256k1_split_theta".into(),
        describe: "split_theta(k) = (|k0|, s0, |k1|, s1): k == k0 + k1*theta mod n, k0^2 + k1^2 within the documented bound (< 2^255.08, so |k0|,|k1| < 2^127.54), and c, d are the exactly rounded quotients. Input: k (32 bytes LE, reduced)",
        ops: vec![Op::Custom { len: Some(32), specials: sp_split_theta, random: rnd_split_theta }],
        run: Box::new(|inp: &[u8]| {
            if inp.len() != 32 { return Ok(()); }
            let c = secp256k1_split();
            let ks = crrl::secp256k1::Scalar::decode_reduce(inp);
            let k = le_to_int(&ks.encode());
            let (n0, s0, n1, s1) = crrl::secp256k1::Point::verif_split_theta(&ks);
            let k0 = signed(n0, s0)?;
            let k1 = signed(n1, s1)?;
            let desc = || format!("k = {:#x}: k0 = {} k1 = {}", k, k0, k1);
            chk(emod(&(&k0 + &k1 * &c.eig - &k), &c.r) == bi(0), || format!("k0 + k1*theta != k mod n; {}", desc()))?;
            // documented: N(k0,k1)^2 <= (N(v1)^2 + N(v2)^2)/4 + |<v1,v2>|/2 with v1 = (s,-t), v2 = (s+t,s), <v1,v2> = s^2
            let (s, t) = (&c.e[0], &c.e[1]);
            let bound4 = (s * s + t * t) + ((s + t) * (s + t) + s * s) + s * s * 2;
            chk((&k0 * &k0 + &k1 * &k1) * 4 <= bound4, || format!("k0^2 + k1^2 exceeds the documented bound; {}", desc()))?;
            // exact rounding: (k0,k1) = e*(s,-t) + f*(s+t,s) with |e|, |f| <= 1/2
            let e2: BigInt = (&k0 * s - &k1 * (s + t)) * 2;
            let f2: BigInt = (&k0 * t + &k1 * s) * 2;
            chk(e2.magnitude() <= c.r.magnitude() && f2.magnitude() <= c.r.magnitude(), || format!("quotients are not the rounded ones: 2*(s*k/n - c) = {}/n, 2*(t*k/n - d) = {}/n; {}", e2, f2, desc()))
        }) });
}

// ======================================================================
// 4. C13: truncated signatures
// ======================================================================

fn overwrite_tail(sig: &mut [u8], rm: usize, garbage: u32) {
    // the last rm bits: bits 512-rm .. 511 (little-endian bit order inside the byte string)
    let n = sig.len() * 8;
    for i in 0..rm { let bit = n - rm + i; let g = (garbage >> (i % 32)) & 1; sig[bit / 8] = (sig[bit / 8] & !(1 << (bit % 8))) | ((g as u8) << (bit % 8)); }
}
fn sel_of(rm: u8) -> u8 { if rm <= 16 { rm - 8 } else if rm <= 24 { 200 + (rm - 17) } else { 248 + (rm - 25) } }
fn rm_of(sel: u8) -> usize {
    match sel { 0..=199 => 8 + (sel % 9) as usize, 200..=247 => 17 + (sel % 8) as usize, _ => 25 + (sel % 8) as usize }
}

fn ed25519_L() -> BigInt { pow2(252) + BigInt::parse_bytes(b"27742317777372353535851937790883648493", 10).unwrap() }
fn ed25519_low_order() -> &'static Vec<Vec<u8>> {
    static C: OnceLock<Vec<Vec<u8>>> = OnceLock::new();
    C.get_or_init(|| {
        let mut v = Vec::new();
        for h in ["0100000000000000000000000000000000000000000000000000000000000000", "ecffffffffffffffffffffffffffffffffffffffffffffffffffffffffffff7f",
                  "0000000000000000000000000000000000000000000000000000000000000000", "0000000000000000000000000000000000000000000000000000000000000080",
                  "26e8958fc2b227b045c3f489f2ef98f0d5dfac05d3c63339b13802886d53fc05", "26e8958fc2b227b045c3f489f2ef98f0d5dfac05d3c63339b13802886d53fc85",
                  "c7176a703d4dd84fba3c0b760d10670f2a2053fa2c39ccc64ec7fd7792ac037a", "c7176a703d4dd84fba3c0b760d10670f2a2053fa2c39ccc64ec7fd7792ac03fa"] {
            let e = hex::decode(h).unwrap();
            // keep only what really is a point of order dividing 8 (input construction only)
            if let Some(p) = crrl::ed25519::Point::decode(&e) { if p.xdouble(3).isneutral() != 0 { v.push(e); } }
        }
        assert!(!v.is_empty());
        v
    })
}

/// crafted scalar for the low-order-key variant: boundary values of the (s0, s1) decomposition used by the search
fn ed_trunc_special_s(rm: usize, par: u32, seed: &[u8]) -> BigInt {
    let l = ed25519_L();
    let n = 256 - rm as u32;
    let m = rm as u32 - 5;
    let nj = m.min(14);
    let ni = m - nj;
    let big_i = pow2(ni);
    let rnd = le_to_int(seed);
    if (par >> 8) % 8 == 7 {
        let list = [bi(0), bi(1), &l - 1, &l - 2, pow2(252), pow2(252) - 1, pow2(251), pow2(251) - 1, pow2(251) + 1, (&l - 1) / 2];
        return list[(par as usize >> 11) % list.len()].clone();
    }
    let s0 = match par % 4 { 0 => bi(0), 1 => bi(1), 2 => pow2(n) - 1, _ => &rnd % pow2(n) };
    let s1: BigInt = match (par >> 2) % 16 {
        0 => bi(0), 1 => bi(1), 2 => bi(-1), 3 => &big_i - 1, 4 => big_i.clone(), 5 => &big_i + 1, 6 => -big_i.clone(), 7 => pow2(m), 8 => pow2(m) - 1, 9 => -pow2(m), 10 => -pow2(m) + 1,
        11 => &big_i * 2, 12 => -(&big_i) + 1, 13 => pow2(m) - &big_i, 14 => (&rnd >> 100u32) % pow2(m), _ => -((&rnd >> 100u32) % pow2(m)),
    };
    let s = s0 + pow2(251) + s1 * pow2(n);
    if s.sign() == Sign::Minus || s >= l { &rnd % &l } else { s }
}

// input: seed(32) | ctl(12: mode, rm selector, garbage(4), variant, par, par32(4)) | msg
fn run_ed25519_trunc(inp: &[u8]) -> Result<(), String> {
    use crrl::ed25519::{Point, PrivateKey, PublicKey, Scalar};
    if inp.len() < 44 { return Ok(()); }
    let seed = &inp[..32];
    let ctl = &inp[32..44];
    let msg0 = &inp[44..];
    let mode = ctl[0] % 3;
    let rm = rm_of(ctl[1]);
    let garbage = u32::from_le_bytes(ctl[2..6].try_into().unwrap());
    let variant = ctl[6] % 8;
    let par = ctl[7] as usize;
    let par32 = u32::from_le_bytes(ctl[8..12].try_into().unwrap());
    let ctx: &[u8] = if mode == 0 { &[] } else { &seed[..par % 9] };
    let verify = |pk: PublicKey, sig: &[u8], m: &[u8]| match mode { 0 => pk.verify_raw(sig, m), 1 => pk.verify_ctx(sig, ctx, m), _ => pk.verify_ph(sig, ctx, m) };
    let vtrunc = |pk: PublicKey, sig: &[u8], rm: usize, m: &[u8]| match mode { 0 => pk.verify_trunc_raw(sig, rm, m), 1 => pk.verify_trunc_ctx(sig, rm, ctx, m), _ => pk.verify_trunc_ph(sig, rm, ctx, m) };

    // signature and key
    let (pk, sig): (PublicKey, [u8; 64]) = if variant == 3 {
        // public key of low order: (R = s*B + T, s) is valid for every s < L under the cofactored equation
        let low = ed25519_low_order();
        let pk = PublicKey::decode(&low[par % low.len()]).ok_or("low-order public key refused by decode")?;
        let s = ed_trunc_special_s(rm, par32, seed);
        let ss = Scalar::decode_reduce(&int_to_le(&s, 32));
        let t = Point::decode(&low[(par >> 4) % low.len()]).unwrap();
        let r = Point::mulgen(&ss) + t;
        let mut sig = [0u8; 64];
        sig[..32].copy_from_slice(&r.encode());
        sig[32..].copy_from_slice(&int_to_le(&s, 32));
        (pk, sig)
    } else {
        let sk = PrivateKey::from_seed(seed);
        let sig = match mode { 0 => sk.sign_raw(msg0), 1 => sk.sign_ctx(ctx, msg0), _ => sk.sign_ph(ctx, msg0) };
        (sk.public_key, sig)
    };
    if !verify(pk, &sig, msg0) {
        // outside the domain of this property (the ordinary verifier is the subject of ed25519_verify)
        return if variant == 3 { Ok(()) } else { Err("own signature rejected by the ordinary verifier".into()) };
    }
    if variant == 6 && variant != 3 {
        // prefix of the NON-canonical S + L (defect D8): the canonical S is the only valid scalar for (R, A, msg), so no
        // completion of such a prefix is valid and nothing may be returned. The rebuilt value can only collide with the
        // search range for a fraction ~2^(4-rm) of the signatures: try a batch of derived messages.
        let sk = PrivateKey::from_seed(seed);
        let l = BigInt::parse_bytes(b"7237005577332262213973186563042994240857116359379907606001950938285454250989", 10).unwrap();
        for t in 0..48u8 {
            let mut m = msg0.to_vec(); m.push(t); m.push(par as u8);
            let sg = match mode { 0 => sk.sign_raw(&m), 1 => sk.sign_ctx(ctx, &m), _ => sk.sign_ph(ctx, &m) };
            let s = le_to_int(&sg[32..]) + &l;
            let mut ts = sg;
            ts[32..].copy_from_slice(&int_to_le(&s, 32));
            overwrite_tail(&mut ts, rm, garbage);
            if let Some(s2) = vtrunc(sk.public_key, &ts, rm, &m) {
                chk(verify(sk.public_key, &s2, &m), || format!("truncated verification returned {} which the ordinary verifier rejects (prefix of S+L, rm {})", hex(&s2), rm))?;
                chk(s2[..(512 - rm) / 8] == ts[..(512 - rm) / 8], || format!("rebuilt signature {} does not extend the received prefix {} (prefix of the non-canonical S+L; no completion of it is valid); mode {} rm {} pk {} msg {}", hex(&s2), hex(&ts), mode, rm, hex(&sk.public_key.encode()), hex(&m)))?;
            }
        }
        return Ok(());
    }
    let mut tsig = sig;
    overwrite_tail(&mut tsig, rm, garbage);
    let mut msg = msg0.to_vec();
    let mut expect_some = true;
    match variant {
        2 => { // another message
            match par % 3 { 0 if !msg.is_empty() => { let b = par32 as usize % (8 * msg.len()); msg[b / 8] ^= 1 << (b % 8); } 1 if !msg.is_empty() => { msg.pop(); } _ => msg.push(par32 as u8) }
            expect_some = false;
        }
        4 => { // one bit of the kept prefix altered
            let b = par32 as usize % (512 - rm);
            tsig[b / 8] ^= 1 << (b % 8);
            expect_some = false;
        }
        5 => { // wrong length
            let mut short = tsig.to_vec();
            match par % 3 { 0 => { short.pop(); } 1 => short.push(par32 as u8), _ => short.clear() }
            let r = vtrunc(pk, &short, rm, &msg);
            return chk(r.is_none(), || format!("truncated verification accepts a signature of {} bytes", short.len()));
        }
        _ => {}
    }
    let got = vtrunc(pk, &tsig, rm, &msg);
    let desc = || format!("mode {} rm {} variant {} pk {} sig {} truncated {} msg {}", mode, rm, variant, hex(&pk.encode()), hex(&sig), hex(&tsig), hex(&msg));
    if let Some(s2) = got {
        chk(verify(pk, &s2, &msg), || format!("truncated verification returned {} which the ordinary verifier rejects; {}", hex(&s2), desc()))?;
        chk(s2[..(512 - rm) / 8] == tsig[..(512 - rm) / 8], || format!("rebuilt signature {} does not extend the received prefix; {}", hex(&s2), desc()))?;
    }
    if expect_some {
        chk(got == Some(sig), || format!("truncated verification returned {:?} instead of the original signature; {}", got.map(|s| hex(&s)), desc()))
    } else {
        chk(got.is_none(), || format!("truncated verification accepted an invalid prefix (returned {}); {}", hex(&got.unwrap()), desc()))
    }
}

/// C13: the whole UX_COMP table against its definition (extra/mkuxcomp.sage), and a truncated-verification round trip whose
/// search solution goes through each of its 16385 entries (rm = 32: nJ = 14, every entry is a legitimate match), both signs.
/// Input: chunk(1: 256 consecutive table tags j) | par(1: low-order key, garbage pattern, baby-step offset)
fn run_ed25519_uxcomp(inp: &[u8]) -> Result<(), String> {
    use crrl::ed25519::{Point, PublicKey, Scalar};
    if inp.len() != 2 { return Ok(()); }
    let chunk = inp[0] as usize % 65;
    let par = inp[1] as usize;
    let tab = PublicKey::verif_ux_comp();
    if chunk == 0 {
        for k in 1..tab.len() { chk(tab[k - 1] < tab[k], || format!("UX_COMP is not strictly ascending at index {}: {:016x} then {:016x}", k, tab[k - 1], tab[k]))?; }
        let mut seen = vec![false; 16385];
        for (k, z) in tab.iter().enumerate() {
            let t = (z & 0xFFFF) as usize;
            chk(t <= 16384 && !seen[t], || format!("UX_COMP[{}] = {:016x}: tag {} out of range or repeated", k, z, t))?;
            seen[t] = true;
        }
    }
    let p = pow2(255) - bi(19);
    let l = ed25519_L();
    let step = Point::mulgen(&Scalar::decode_reduce(&int_to_le(&pow2(240), 32)));
    let lo = chunk * 256;
    let hi = (lo + 256).min(16385);
    let mut t = step * (lo as u64);
    for j in lo..hi {
        let mut e = t.encode();
        e[31] &= 0x7F;
        let y = le_to_int(&e);
        let u = if y == bi(1) { bi(0) } else { (bi(1) + &y) * modinv(&((&p + bi(1) - &y) % &p), &p) % &p };
        let low48: u64 = (&u % pow2(48)).to_u64_digits().1.first().copied().unwrap_or(0);
        let z = (low48 << 16) | (j as u64);
        chk(tab.binary_search(&z).is_ok(), || format!("UX_COMP has no entry {:016x} = (u({}*2^240*B) mod 2^48) << 16 | {}", z, j, j))?;
        t = t + step;
    }
    // round trips: S = s0 + 2^251 + (i +/- j*2^13) * 2^224, valid under a public key of low order for R = S*B + T
    let low = ed25519_low_order();
    let pk = PublicKey::decode(&low[par % low.len()]).ok_or("low-order public key refused by decode")?;
    let tors = Point::decode(&low[(par >> 3) % low.len()]).unwrap();
    let garbage = [0u32, u32::MAX, 0xA55A_C33C, 0x8000_0001][(par >> 6) % 4];
    let msg = [inp[0], inp[1], b'u', b'x'];
    let rm = 32usize;
    for j in lo..hi {
        for neg in [false, true] {
            let i = bi(((j * 7 + par) % 5) as i64);
            let ji = bi(j as i64) * pow2(13);
            let s1 = if neg { &i - &ji } else { &i + &ji };
            let s0 = bi((j as i64) * 0x1_0001 + 1);
            let sv = &s0 + pow2(251) + &s1 * pow2(224);
            if sv.sign() == Sign::Minus || sv >= l { continue; }
            let ss = Scalar::decode_reduce(&int_to_le(&sv, 32));
            let r = Point::mulgen(&ss) + tors;
            let mut sig = [0u8; 64];
            sig[..32].copy_from_slice(&r.encode());
            sig[32..].copy_from_slice(&int_to_le(&sv, 32));
            chk(pk.verify_raw(&sig, &msg), || format!("signature with chosen S rejected by the ordinary verifier (low-order key {}, S {})", hex(&pk.encode()), sv))?;
            let mut tsig = sig;
            overwrite_tail(&mut tsig, rm, garbage);
            let got = pk.verify_trunc_raw(&tsig, rm, &msg);
            chk(got == Some(sig), || format!("truncated verification (rm 32) returned {:?} instead of the original signature whose search solution is s1 = {} {} {}*2^13 (table tag {}); pk {} sig {} truncated {} msg {}",
                got.map(|x| hex(&x)), i, if neg { "-" } else { "+" }, j, j, hex(&pk.encode()), hex(&sig), hex(&tsig), hex(&msg)))?;
        }
    }
    Ok(())
}

fn sp_seed32() -> Vec<Vec<u8>> { vec![hex::decode("9d61b19deffd5a60ba844af492ec2cc44449c5697b326919703bac031cae7f60").unwrap()] }
fn rnd_seed32(r: &mut Rng) -> Vec<u8> { rand_bytes(r, 32) }
fn sp_ed_trunc_ctl() -> Vec<Vec<u8>> {
    let mut v = Vec::new();
    // every rm once with a genuine key (mode cycles), garbage all-ones / zero
    for rm in 8..=32u8 {
        let sel = sel_of(rm);
        assert!(rm_of(sel) == rm as usize);
        v.push(vec![rm % 3, sel, 0xFF, 0xFF, 0xFF, 0xFF, 0, 0, 0, 0, 0, 0]);
        v.push(vec![rm % 3, sel, 0, 0, 0, 0, 2, rm, rm, 0, 0, 0]);
        // crafted scalars: every boundary of the search for this rm
        if rm <= 16 || rm % 4 == 0 {
            for s1 in 0..14u32 { for s0 in [0u32, 2] { let p = (s0 | (s1 << 2)).to_le_bytes(); v.push(vec![0, sel, 0xA5, 0x5A, 0xFF, 0x00, 3, (s1 as u8) % 8, p[0], p[1], p[2], p[3]]); } }
            for i in 0..10u32 { let p = ((7u32 << 8) | (i << 11)).to_le_bytes(); v.push(vec![0, sel, 0xFF, 0xFF, 0xFF, 0xFF, 3, 16 * (i as u8 % 8), p[0], p[1], p[2], p[3]]); }
        }
    }
    for k in [4u8, 5] { for p in 0..3u8 { v.push(vec![p, 3, 1, 2, 3, 4, k, p, 0xFF, 1, 0, 0]); } }
    // prefixes of the non-canonical S + L, smallest rm values (where the rebuilt S can fall in the search range)
    for rm in 8..=10u8 { for p in 0..3u8 { v.push(vec![p, sel_of(rm), 0xFF, 0xFF, 0xFF, 0xFF, 6, p, 0, 0, 0, 0]); v.push(vec![p, sel_of(rm), 0, 0, 0, 0, 6, 8 + p, 0, 0, 0, 0]); } }
    v
}
fn rnd_ed_trunc_ctl(r: &mut Rng) -> Vec<u8> {
    let mut c = rand_bytes(r, 12);
    c[6] = match r.below(10) { 0 | 1 | 2 => 0, 3 => 2, 4 | 5 | 6 => 3, 7 => 4, 8 => 5, _ => 1 };
    if r.below(3) == 0 { let g = [0u32, u32::MAX, 1, 0x80000000][r.below(4) as usize]; c[2..6].copy_from_slice(&g.to_le_bytes()); }
    if c[6] == 3 && r.below(2) == 0 { c[9] = if r.below(4) == 0 { 7 } else { 0 }; }
    c
}
fn sp_msg_small() -> Vec<Vec<u8>> { vec![b"truncated".to_vec()] }
fn rnd_msg(r: &mut Rng) -> Vec<u8> { let l = match r.below(4) { 0 => 0, 1 => 1, _ => r.below(80) as usize }; biased_bytes(r, l) }

// ---- P-256 ----

fn p256_prepare_ref(sig: &[u8]) -> Option<Vec<u8>> {
    // documented behaviour for 64-byte signatures
    let c = p256_params();
    let r = be_to_int(&sig[..32]);
    let s = be_to_int(&sig[32..]);
    if r < &c.p - &c.n || r >= c.n || s.sign() == Sign::NoSign || s >= c.n { return None; }
    let s2 = if s >= pow2(255) { &c.n - &s } else { s };
    let mut o = sig[..32].to_vec();
    o.extend_from_slice(&int_to_le(&s2, 32));
    Some(o)
}

/// s values on the boundaries of the search s = s0 + (a + b*2^k)*2^n
fn p256_trunc_special_s(rm: usize, par: usize, par2: usize, raw: &[u8]) -> BigInt {
    let c = p256_params();
    let n = 256 - rm as u32;
    let m = rm as u32 - 1;
    let k = (m + 1) >> 1;
    let rnd = le_to_int(raw);
    if par2 % 8 == 7 {
        let list = [bi(1), bi(2), &c.n - 1, &c.n - 2, pow2(255), pow2(255) - 1, pow2(255) + 1, &c.n - pow2(255), &c.n - pow2(255) + 1, &c.n - pow2(255) - 1, (&c.n - 1) / 2, (&c.n + 1) / 2];
        return list[par % list.len()].clone();
    }
    let s0 = match par % 4 { 0 => bi(0), 1 => bi(1), 2 => pow2(n) - 1, _ => &rnd % pow2(n) };
    let a: BigInt = match (par >> 2) % 4 { 0 => bi(0), 1 => bi(1), 2 => pow2(k) - 1, _ => (&rnd >> 64u32) % pow2(k) };
    let b: BigInt = match (par >> 4) % 4 { 0 => bi(0), 1 => bi(1), 2 => pow2(m - k) - 1, _ => (&rnd >> 96u32) % pow2(m - k) };
    let mut s = s0 + (a + b * pow2(k)) * pow2(n);
    if s.sign() == Sign::NoSign { s = bi(1); }
    if par2 & 8 != 0 { s = &c.n - &s; } // the signer produced the "high" s
    s
}

// input: k(32) | s(32) | hash(32) | ctl(8: rm selector, garbage(4), variant, par, par2)
fn run_p256_trunc(inp: &[u8]) -> Result<(), String> {
    use crrl::p256::{Point, PrivateKey, PublicKey, Scalar};
    if inp.len() != 104 { return Ok(()); }
    let c = p256_params();
    let (kb, sb, hv, ctl) = (&inp[..32], &inp[32..64], &inp[64..96], &inp[96..104]);
    let rm = rm_of(ctl[0]);
    let garbage = u32::from_le_bytes(ctl[1..5].try_into().unwrap());
    let variant = ctl[5] % 8;
    let par = ctl[6] as usize;
    let par2 = ctl[7] as usize;

    if variant == 6 {
        // prepare_truncate on arbitrary (r, s) of 64 bytes
        let mut sig = kb.to_vec(); sig.extend_from_slice(sb);
        let got = PrivateKey::prepare_truncate(&sig).map(|x| x.to_vec());
        let want = p256_prepare_ref(&sig);
        return chk(got == want, || format!("prepare_truncate({}) = {:?}, documented result {:?}", hex(&sig), got.map(|x| hex(&x)), want.map(|x| hex(&x))));
    }

    if variant == 1 && par & 1 == 1 {
        // second half of defect D9: the only candidate the search can meet is s0 - j*2^n, which wraps modulo the order: the
        // rebuilt value is valid for the ordinary verifier but its low bits are not the received ones. Prefix (r, s0) with a
        // key under which (r, j*2^n - s0) - hence also (r, s0 - j*2^n mod n) - is valid; whatever is returned must be
        // accepted by verify_hash AND extend the received prefix.
        let nb = 256 - rm as u32;
        let j = bi(1 + (par2 % 16.min(1usize << (rm - 5))) as i64);
        let s0 = le_to_int(sb) % pow2(nb - 1);
        let sv = &j * pow2(nb) - &s0;
        if sv.sign() != Sign::Plus || sv >= c.n { return Ok(()); }
        let mut hle = hv.to_vec(); hle.reverse();
        let h = Scalar::decode_reduce(&hle);
        let k0 = { let k = Scalar::decode_reduce(kb); if k.iszero() != 0 { Scalar::ONE } else { k } };
        for k in [k0, -k0] {
            let R = Point::mulgen(&k);
            let r_int = be_to_int(&R.encode_compressed()[1..]) % &c.n;
            let r = Scalar::decode_reduce(&int_to_le(&r_int, 32));
            if r.iszero() != 0 { continue; }
            let Q = (R * Scalar::decode_reduce(&int_to_le(&sv, 32)) - Point::mulgen(&h)) * (Scalar::ONE / r);
            if Q.isneutral() != 0 { continue; }
            let pk = PublicKey::decode(&Q.encode_compressed()).ok_or("constructed public key does not decode")?;
            let mut full = int_to_be(&r_int, 32); full.extend_from_slice(&int_to_be(&sv, 32));
            if !pk.verify_hash(&full, hv) { continue; }
            let mut tsig = int_to_be(&r_int, 32); tsig.extend_from_slice(&int_to_le(&s0, 32));
            overwrite_tail(&mut tsig, rm, garbage);
            if let Some(s2) = pk.verify_trunc_hash(&tsig, rm, hv) {
                let desc = || format!("rm {} pk {} truncated {} hash {} (candidate s0 - {}*2^{} wraps modulo the order)", rm, hex(&pk.encode_compressed()), hex(&tsig), hex(hv), j, nb);
                chk(pk.verify_hash(&s2, hv), || format!("verify_trunc_hash returned {} which the ordinary verifier rejects; {}", hex(&s2), desc()))?;
                let mut sle = s2[32..].to_vec(); sle.reverse();
                let mut a = s2[..32].to_vec(); a.extend_from_slice(&sle);
                let mut b = tsig.clone();
                overwrite_tail(&mut a, rm, 0); overwrite_tail(&mut b, rm, 0);
                chk(a == b, || format!("verify_trunc_hash returned {} which is not a completion of the received prefix; {}", hex(&s2), desc()))?;
            }
        }
        return Ok(());
    }
    if variant == 1 {
        // defect D9: h*G + r*Q is the point at infinity (Q = -(h/r)*G) and the received value of s is zero: (r, 0) is not a
        // valid signature, nothing that verify_hash rejects may be returned
        let mut k = Scalar::decode_reduce(kb);
        if k.iszero() != 0 { k = Scalar::ONE; }
        let R = Point::mulgen(&k);
        let r_int = be_to_int(&R.encode_compressed()[1..]) % &c.n;
        let r = Scalar::decode_reduce(&int_to_le(&r_int, 32));
        let mut hle = hv.to_vec(); hle.reverse();
        let h = Scalar::decode_reduce(&hle);
        if r.iszero() != 0 || h.iszero() != 0 { return Ok(()); }
        let Q = Point::mulgen(&(-(h / r)));
        let pk = PublicKey::decode(&Q.encode_compressed()).ok_or("constructed public key does not decode")?;
        let mut tsig = int_to_be(&r_int, 32); tsig.extend_from_slice(&[0u8; 32]);
        overwrite_tail(&mut tsig, rm, garbage);
        if let Some(s2) = pk.verify_trunc_hash(&tsig, rm, hv) {
            chk(pk.verify_hash(&s2, hv), || format!("verify_trunc_hash returned {} which the ordinary verifier rejects (h*G + r*Q at infinity, received s = 0); rm {} pk {} hash {}", hex(&s2), rm, hex(&pk.encode_compressed()), hex(hv)))?;
        }
        return Ok(());
    }

    // a valid signature (r, s) for hash hv under a public key pk
    // variants 3 / 5 (invalid prefix) use a genuine key pair: with a crafted key (R = k*G for a known k)
    // an altered hash can have a valid completion (e.g. k = 1: (h + d, s + d) is valid for d = 2^249)
    let genuine = matches!(variant, 3 | 4 | 5);
    let (pk, sig): (PublicKey, Vec<u8>) = if genuine {
        let sk = PrivateKey::from_seed(kb);
        (sk.to_public_key(), sk.sign_hash(hv, if par & 1 == 0 { &[] } else { sb }).to_vec())
    } else {
        let mut k = Scalar::decode_reduce(kb);
        if k.iszero() != 0 { k = Scalar::ONE; }
        let R = Point::mulgen(&k);
        let xr = be_to_int(&R.encode_compressed()[1..]);
        let r_int = &xr % &c.n;
        let s_int = if variant == 2 { p256_trunc_special_s(rm, par, par2, sb) } else { let s = le_to_int(sb) % &c.n; if s.sign() == Sign::NoSign { bi(1) } else { s } };
        let s = Scalar::decode_reduce(&int_to_le(&s_int, 32));
        let mut hle = hv.to_vec(); hle.reverse();
        let h = Scalar::decode_reduce(&hle);
        let r = Scalar::decode_reduce(&int_to_le(&r_int, 32));
        if r.iszero() != 0 { return Ok(()); }
        let Q = (R * s - Point::mulgen(&h)) * (Scalar::ONE / r);
        if Q.isneutral() != 0 { return Ok(()); }
        let pk = PublicKey::decode(&Q.encode_compressed()).ok_or("constructed public key does not decode")?;
        let mut sig = int_to_be(&r_int, 32); sig.extend_from_slice(&int_to_be(&s_int, 32));
        (pk, sig)
    };
    if !pk.verify_hash(&sig, hv) {
        return if genuine { Err("own signature rejected by the ordinary verifier".into()) } else { Ok(()) };
    }
    let want_prep = p256_prepare_ref(&sig);
    let prep = PrivateKey::prepare_truncate(&sig).map(|x| x.to_vec());
    chk(prep == want_prep, || format!("prepare_truncate({}) = {:?}, documented result {:?}", hex(&sig), prep.clone().map(|x| hex(&x)), want_prep.clone().map(|x| hex(&x))))?;
    let prep = match prep { Some(p) => p, None => return Ok(()) }; // r < p - n: documented refusal
    // the complete signature the verifier must rebuild: r || s' big-endian, s' = the prepared (low) s
    let mut full = prep[..32].to_vec();
    let mut sbe = prep[32..].to_vec(); sbe.reverse();
    full.extend_from_slice(&sbe);
    let mut tsig = prep.clone();
    overwrite_tail(&mut tsig, rm, garbage);
    let mut hv2 = hv.to_vec();
    let mut expect_some = true;
    match variant {
        3 => { let b = (par + 256 * par2) % 256; hv2[b / 8] ^= 1 << (b % 8); expect_some = false; }
        5 => { let b = (par + 256 * par2) % (512 - rm); tsig[b / 8] ^= 1 << (b % 8); expect_some = false; }
        7 => {
            let mut short = tsig.clone();
            match par % 3 { 0 => { short.pop(); } 1 => short.push(par2 as u8), _ => short.clear() }
            return chk(pk.verify_trunc_hash(&short, rm, hv).is_none(), || format!("verify_trunc_hash accepts a signature of {} bytes", short.len()));
        }
        _ => {}
    }
    let got = pk.verify_trunc_hash(&tsig, rm, &hv2);
    let desc = || format!("rm {} variant {} pk {} sig {} prepared {} truncated {} hash {}", rm, variant, hex(&pk.encode_compressed()), hex(&sig), hex(&prep), hex(&tsig), hex(&hv2));
    if let Some(s2) = got {
        chk(pk.verify_hash(&s2, &hv2), || format!("verify_trunc_hash returned {} which the ordinary verifier rejects; {}", hex(&s2), desc()))?;
        // the rebuilt signature is a completion of the received prefix (r, then s little-endian, last rm bits ignored)
        let mut sle = s2[32..].to_vec(); sle.reverse();
        let mut cmp = s2[..32].to_vec(); cmp.extend_from_slice(&sle);
        let mut a = cmp.clone(); let mut b = tsig.clone();
        overwrite_tail(&mut a, rm, 0); overwrite_tail(&mut b, rm, 0);
        chk(a == b, || format!("rebuilt signature {} does not extend the received prefix; {}", hex(&s2), desc()))?;
    }
    if expect_some {
        chk(got.map(|x| x.to_vec()) == Some(full.clone()), || format!("verify_trunc_hash returned {:?} instead of {}; {}", got.map(|s| hex(&s)), hex(&full), desc()))
    } else {
        chk(got.is_none(), || format!("verify_trunc_hash accepted an invalid prefix (returned {}); {}", hex(&got.unwrap()), desc()))
    }
}

fn sp_one32() -> Vec<Vec<u8>> { vec![(0..32).map(|i| (i * 41 + 7) as u8).collect::<Vec<u8>>()] }
fn sp_p256_trunc_ctl() -> Vec<Vec<u8>> {
    let mut v = Vec::new();
    for rm in 8..=32u8 {
        let sel = sel_of(rm);
        assert!(rm_of(sel) == rm as usize);
        if rm <= 20 || rm % 4 == 0 {
            v.push(vec![sel, 0xFF, 0xFF, 0xFF, 0xFF, 0, 0, 0]);
            v.push(vec![sel, 0, 0, 0, 0, 4, rm, 0]);
        }
        if rm <= 16 {
            for par in 0..64u8 { if par % 4 == 3 || par % 4 == 1 || (par >> 2) % 4 == 3 || (par >> 4) % 4 == 3 || (rm % 2 == 1 && par % 4 != 0) { continue; } v.push(vec![sel, 0x5A, 0xA5, 0xFF, 0, 2, par, 8 * ((par >> 2) & 1)]); }
            if rm == 8 || rm == 13 || rm == 16 { for par in 0..12u8 { v.push(vec![sel, 0xFF, 0xFF, 0xFF, 0xFF, 2, par, 7]); } }
        }
    }
    for k in [3u8, 5, 7] { for p in 0..3u8 { v.push(vec![3, 1, 2, 3, 4, k, p, 0]); } }
    // h*G + r*Q at infinity, received s = 0 (defect D9)
    for rm in [8u8, 13, 16, 24, 32] { v.push(vec![sel_of(rm), 0xFF, 0xFF, 0xFF, 0xFF, 1, 0, 0]); v.push(vec![sel_of(rm), 0, 0, 0, 0, 1, 0, 0]); }
    // the only matching candidate wraps modulo the order (defect D9, second half)
    for rm in [8u8, 9, 13, 16, 20, 24, 32] { for j in [0u8, 1, 2, 7, 15] { v.push(vec![sel_of(rm), 0xFF, 0xFF, 0xFF, 0xFF, 1, 1, j]); v.push(vec![sel_of(rm), 0, 0, 0, 0, 1, 3, j]); } }
    v.push(vec![0, 0, 0, 0, 0, 6, 0, 0]);
    v
}
fn rnd_p256_trunc_ctl(r: &mut Rng) -> Vec<u8> {
    let mut c = rand_bytes(r, 8);
    c[5] = match r.below(12) { 0 | 1 | 2 => 0, 3 | 4 | 5 => 2, 6 => 3, 7 => 4, 8 => 5, 9 => 6, 10 => 7, _ => 1 };
    if r.below(3) == 0 { let g = [0u32, u32::MAX, 1, 0x80000000][r.below(4) as usize]; c[1..5].copy_from_slice(&g.to_le_bytes()); }
    if c[5] == 2 && r.below(3) == 0 { c[7] = (c[7] & 8) | 7; }
    c
}
/// (r, s) candidates for prepare_truncate (big-endian), also used as nonce / s sources
fn sp_p256_rs() -> Vec<Vec<u8>> {
    let c = p256_params();
    let pmn = &c.p - &c.n;
    let mut v: Vec<BigInt> = vec![bi(0), bi(1), bi(2), pow2(255) - 1, pow2(255), pow2(255) + 1, pow2(128), pow2(128) - 1, pow2(256) - 1];
    for d in [-1i64, 0, 1] { v.push(&pmn + d); v.push(&c.n + d); v.push(&c.n - pow2(255) + d); v.push(&c.p + d); }
    v.into_iter().filter(|x| x.sign() != Sign::Minus && x < &pow2(256)).map(|x| int_to_be(&x, 32)).collect()
}
fn rnd_p256_rs(r: &mut Rng) -> Vec<u8> {
    if r.below(3) == 0 { let sp = sp_p256_rs(); let x = be_to_int(&sp[r.below(sp.len() as u64) as usize]) + bi(r.below(9) as i64 - 4); if x.sign() != Sign::Minus && x < pow2(256) { return int_to_be(&x, 32); } }
    biased_bytes(r, 32)
}

fn reg_trunc(v: &mut Vec<Case>) {
    v.push(Case { id: "ed25519_trunc".into(),
        describe: "verify_trunc_raw/ctx/ph: a valid signature whose last rm bits (8..=32) are overwritten is rebuilt exactly; any returned signature passes the ordinary verifier and extends the received prefix; altered message / prefix / length gives None. Input: seed(32) | ctl(12: mode%3, rm selector, garbage(4), variant%8, par, par32(4)) | msg",
        ops: vec![Op::Custom { len: Some(32), specials: sp_seed32, random: rnd_seed32 }, Op::Custom { len: Some(12), specials: sp_ed_trunc_ctl, random: rnd_ed_trunc_ctl }, Op::Custom { len: None, specials: sp_msg_small, random: rnd_msg }],
        run: Box::new(run_ed25519_trunc) });
    v.push(Case { id: "ed25519_uxcomp".into(),
        describe: "C13: UX_COMP == the sorted list of (u(j*2^240*B) mod 2^48) << 16 | j, j = 0..=16384 (strictly ascending, every tag once, every entry recomputed with plain point operations and big integers), and verify_trunc_raw (rm = 32) rebuilds a signature whose search solution is i +/- j*2^13 for every tag j. Input: chunk of 256 tags (1) | par (1)",
        ops: vec![Op::Custom { len: Some(1), specials: || (0u8..65).map(|x| vec![x]).collect(), random: |r: &mut Rng| vec![r.below(65) as u8] }, Op::Custom { len: Some(1), specials: || vec![vec![0x5B]], random: |r: &mut Rng| vec![r.next() as u8] }],
        run: Box::new(run_ed25519_uxcomp) });
    v.push(Case { id: "p256_trunc".into(),
        describe: "prepare_truncate == documented (range checks, low s, s little-endian); verify_trunc_hash on a prepared signature whose last rm bits are overwritten returns r || s' (big-endian); any returned signature passes verify_hash; altered hash / prefix / length gives None. Input: k(32) | s(32) | hash(32) | ctl(8: rm selector, garbage(4), variant%8, par, par2)",
        ops: vec![Op::Custom { len: Some(32), specials: sp_one32, random: rnd_p256_rs }, Op::Custom { len: Some(32), specials: sp_one32, random: rnd_p256_rs }, Op::Custom { len: Some(32), specials: sp_one32, random: rnd_hash32 }, Op::Custom { len: Some(8), specials: sp_p256_trunc_ctl, random: rnd_p256_trunc_ctl }],
        run: Box::new(run_p256_trunc) });
    v.push(Case { id: "p256_prepare_truncate".into(),
        describe: "prepare_truncate on a 64-byte (r, s): None iff r < p-n or r >= n or s == 0 or s >= n; otherwise r unchanged, s replaced by n-s when s >= 2^255 and written little-endian. Input: r(32 BE) | s(32 BE)",
        ops: vec![Op::Custom { len: Some(32), specials: sp_p256_rs, random: rnd_p256_rs }, Op::Custom { len: Some(32), specials: sp_p256_rs, random: rnd_p256_rs }],
        run: Box::new(|inp: &[u8]| {
            if inp.len() != 64 { return Ok(()); }
            let got = crrl::p256::PrivateKey::prepare_truncate(inp).map(|x| x.to_vec());
            let want = p256_prepare_ref(inp);
            chk(got == want, || format!("prepare_truncate({}) = {:?}, documented result {:?}", hex(inp), got.map(|x| hex(&x)), want.map(|x| hex(&x))))
        }) });
    // Fails on the unchanged tree (suspected library defect, see the final report): for inputs shorter
    // than 64 bytes prepare_truncate() copies sig[..32] instead of the left-padded r.
    v.push(Case { id: "p256_prepare_truncate_short".into(),
        describe: "prepare_truncate on an even-length signature shorter than 64 bytes (r, s < 2^(4*len), as accepted by verify_hash) gives the same result as on the same integers written on 2*32 bytes. Input: r(32 BE) | s(32 BE) | half length selector (1: 16 + b % 17)",
        ops: vec![Op::Custom { len: Some(32), specials: sp_p256_rs, random: rnd_p256_rs }, Op::Custom { len: Some(32), specials: sp_p256_rs, random: rnd_p256_rs }, Op::Custom { len: Some(1), specials: sp_halflen, random: rnd_halflen }],
        run: Box::new(|inp: &[u8]| {
            if inp.len() != 65 { return Ok(()); }
            let nl = 16 + (inp[64] % 17) as usize;
            let mut short = inp[32 - nl..32].to_vec(); short.extend_from_slice(&inp[64 - nl..64]);
            let mut full = vec![0u8; 64];
            full[32 - nl..32].copy_from_slice(&inp[32 - nl..32]);
            full[64 - nl..64].copy_from_slice(&inp[64 - nl..64]);
            let want = p256_prepare_ref(&full);
            let got = crrl::p256::PrivateKey::prepare_truncate(&short).map(|x| x.to_vec());
            chk(got == want, || format!("prepare_truncate({}) ({} bytes) = {:?}, but the same (r, s) on 64 bytes gives {:?}", hex(&short), short.len(), got.map(|x| hex(&x)), want.map(|x| hex(&x))))
        }) });
}
fn sp_halflen() -> Vec<Vec<u8>> { (0..17u8).map(|x| vec![x]).collect() }
fn rnd_halflen(r: &mut Rng) -> Vec<u8> { vec![r.below(17) as u8] }

// ---- ModInt256::split_vartime on user-defined moduli close to 2^192 (defect D10: smul_trunc decided the sign of a
// three-word value from its top limb only; moduli below 2^192 + 2^190 then gave k*c1 != c0) ----
macro_rules! small_split_case {
    ($v:ident, $id:expr, $m0:expr, $m1:expr, $m2:expr, $m3:expr) => {
        $v.push(Case { id: $id.into(),
            describe: "split_vartime on a user-defined ModInt256 modulus close to 2^192 (below the documented bound): k*c1 == c0 mod m exactly, c1 != 0 mod m, zero splits as (0, 1). Input: k (32 bytes LE, reduced by the library)",
            ops: vec![Op::Custom { len: Some(32), specials: sp_split_small, random: rnd_split_small }],
            run: Box::new(|inp: &[u8]| {
                type F = crrl::field::ModInt256<{ $m0 }, { $m1 }, { $m2 }, { $m3 }>;
                if inp.len() != 32 { return Ok(()); }
                let m: BigInt = BigInt::from($m0 as u64) + (BigInt::from($m1 as u64) << 64) + (BigInt::from($m2 as u64) << 128) + (BigInt::from($m3 as u64) << 192);
                let x = F::decode_reduce(inp);
                let k = le_to_int(&x.encode32());
                let (c0, c1) = x.split_vartime();
                let (c0, c1) = (BigInt::from(c0), BigInt::from(c1));
                if k.sign() == Sign::NoSign { return chk(c0.sign() == Sign::NoSign && c1 == bi(1), || format!("zero split as ({}, {})", c0, c1)); }
                chk(emod(&c1, &m).sign() != Sign::NoSign, || format!("c1 = {} is zero mod m for k = {:#x}", c1, k))?;
                chk(emod(&(&k * &c1 - &c0), &m).sign() == Sign::NoSign, || format!("k*c1 != c0 mod m for k = {:#x}: c0 = {} c1 = {}", k, c0, c1))
            }) });
    };
}
fn sp_split_small() -> Vec<Vec<u8>> {
    let mut v: Vec<Vec<u8>> = vec![vec![0u8; 32], { let mut o = vec![0u8; 32]; o[0] = 1; o }];
    let mut k = hex::decode("adcb496802915aabdc7bc3eb1a93c686815d6460aa9f8c58").unwrap(); k.reverse(); k.resize(32, 0);
    v.push(k);
    for e in [1u32, 63, 64, 100, 127, 128, 150, 190, 191] { v.push(int_to_le(&pow2(e), 32)); v.push(int_to_le(&(pow2(e) - 1), 32)); v.push(int_to_le(&(pow2(192) - pow2(e)), 32)); }
    v
}
fn rnd_split_small(r: &mut Rng) -> Vec<u8> { let mut b = rand_bytes(r, 32); for i in 24..32 { b[i] = 0; } b }
fn reg_split_small(v: &mut Vec<Case>) {
    small_split_case!(v, "modint_split_small@2p192_2p128_1", 1u64, 0u64, 1u64, 1u64);
    small_split_case!(v, "modint_split_small@2p192_2p104_1", 1u64, 0x0000010000000000u64, 0u64, 1u64);
    small_split_case!(v, "modint_split_small@2p192_2p139_1", 1u64, 0u64, 0x800u64, 1u64);
    small_split_case!(v, "modint_split_small@2p193_1235", 0x1235u64, 0u64, 0u64, 2u64);
}

pub fn register(v: &mut Vec<Case>) {
    reg_neutral(v);
    reg_split_small(v);
    highx_case!(v, "ecdsa_verify_highx@p256", p256, p256_params);
    highx_case!(v, "ecdsa_verify_highx@secp256k1", secp256k1, secp256k1_params);
    reg_split(v);
    reg_trunc(v);
}
