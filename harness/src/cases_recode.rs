//! Executable postconditions for the signed-digit recoders and the
//! multi-scalar fast paths (contracts in contracts/recode_*.vrs).
use crate::{Case, Op};
use crate::gen::split;
use crate::ora::*;
use num_bigint::BigInt;

fn chk(cond: bool, msg: impl FnOnce() -> String) -> Result<(), String> { if cond { Ok(()) } else { Err(msg()) } }
fn digits_value(sd: &[i8], w: u32) -> BigInt {
    let mut acc = BigInt::from(0);
    for (i, d) in sd.iter().enumerate() { acc += BigInt::from(*d as i64) << (w as usize * i); }
    acc
}
fn naf_ok(sd: &[i8]) -> bool {
    // non-zero digits odd in -15..15
    sd.iter().all(|&d| d == 0 || (d & 1 != 0 && (-15..=15).contains(&d)))
}
fn w5_ok(sd: &[i8]) -> bool { sd.iter().all(|&d| (-15..=16).contains(&d)) && *sd.last().unwrap() >= 0 }
fn u128of(b: &[u8]) -> u128 { u128::from_le_bytes(b[..16].try_into().unwrap()) }

macro_rules! naf128_case { ($v:ident, $id:expr, $P:ty) => {
    $v.push(Case { id: $id.into(), describe: "recode_u128_NAF: sum sd[i]*2^i == n, digits odd in -15..15 or 0", ops: vec![Op::U128],
        run: Box::new(|inp: &[u8]| {
            let n = u128of(inp);
            let sd = <$P>::verif_recode_u128_NAF(n);
            chk(naf_ok(&sd) && digits_value(&sd, 1) == BigInt::from(n), || format!("n={:#x} digits {:?}", n, &sd[..]))
        }) });
} }
macro_rules! w5_128_case { ($v:ident, $id:expr, $P:ty) => {
    $v.push(Case { id: $id.into(), describe: "recode_u128: sum sd[j]*32^j == n, digits in -15..16, top >= 0", ops: vec![Op::U128],
        run: Box::new(|inp: &[u8]| {
            let n = u128of(inp);
            let sd = <$P>::verif_recode_u128(n);
            chk(w5_ok(&sd) && digits_value(&sd, 5) == BigInt::from(n), || format!("n={:#x} digits {:?}", n, &sd[..]))
        }) });
} }
macro_rules! scalar_w5_case { ($v:ident, $id:expr, $P:ty, $S:ty) => {
    $v.push(Case { id: $id.into(), describe: "recode_scalar: sum sd[j]*32^j == int(n), digits in -15..16, top >= 0", ops: vec![Op::Scalar32],
        run: Box::new(|inp: &[u8]| {
            let s = <$S>::decode_reduce(inp);
            let n = le_to_int(&s.encode()[..]);
            let sd = <$P>::verif_recode_scalar(&s);
            chk(w5_ok(&sd) && digits_value(&sd, 5) == n, || format!("n={} digits {:?}", n, &sd[..]))
        }) });
} }
macro_rules! scalar_naf_case { ($v:ident, $id:expr, $P:ty, $S:ty) => {
    $v.push(Case { id: $id.into(), describe: "recode_scalar_NAF: sum sd[i]*2^i == int(n), digits odd in -15..15 or 0", ops: vec![Op::Scalar32],
        run: Box::new(|inp: &[u8]| {
            let s = <$S>::decode_reduce(inp);
            let n = le_to_int(&s.encode()[..]);
            let sd = <$P>::verif_recode_scalar_NAF(&s);
            chk(naf_ok(&sd) && digits_value(&sd, 1) == n, || format!("n={} digits {:?}", n, &sd[..]))
        }) });
} }

pub fn register(v: &mut Vec<Case>) {
    naf128_case!(v, "jq255e_recode_u128_naf", crrl::jq255e::Point);
    naf128_case!(v, "jq255s_recode_u128_naf", crrl::jq255s::Point);
    naf128_case!(v, "ed25519_recode_u128_naf", crrl::ed25519::Point);
    naf128_case!(v, "secp256k1_recode_u128_naf", crrl::secp256k1::Point);
    w5_128_case!(v, "jq255e_recode_u128", crrl::jq255e::Point);
    w5_128_case!(v, "secp256k1_recode_u128", crrl::secp256k1::Point);
    scalar_w5_case!(v, "ed25519_recode_scalar", crrl::ed25519::Point, crrl::ed25519::Scalar);
    scalar_w5_case!(v, "jq255s_recode_scalar", crrl::jq255s::Point, crrl::jq255s::Scalar);
    scalar_w5_case!(v, "secp256k1_recode_scalar", crrl::secp256k1::Point, crrl::secp256k1::Scalar);
    scalar_w5_case!(v, "p256_recode_scalar", crrl::p256::Point, crrl::p256::Scalar);
    scalar_naf_case!(v, "ed25519_recode_scalar_naf", crrl::ed25519::Point, crrl::ed25519::Scalar);
    scalar_naf_case!(v, "jq255e_recode_scalar_naf", crrl::jq255e::Point, crrl::jq255e::Scalar);
    scalar_naf_case!(v, "jq255s_recode_scalar_naf", crrl::jq255s::Point, crrl::jq255s::Scalar);
    scalar_naf_case!(v, "secp256k1_recode_scalar_naf", crrl::secp256k1::Point, crrl::secp256k1::Scalar);
    scalar_naf_case!(v, "p256_recode_scalar_naf", crrl::p256::Point, crrl::p256::Scalar);
    v.push(Case { id: "p256_recode_u129_naf".into(), describe: "recode_u129_NAF: sum == nh*2^128+nl for n < 2^129-16", ops: vec![Op::U128, Op::U32],
        run: Box::new(|inp: &[u8]| {
            let nl = u128of(&inp[..16]); let nh = u32::from_le_bytes(inp[16..20].try_into().unwrap()) & 1;
            if nh == 1 && nl >= u128::MAX - 15 { return Ok(()); }
            let sd = crrl::p256::Point::verif_recode_u129_NAF(nh, nl);
            let n = (BigInt::from(nh) << 128) + BigInt::from(nl);
            chk(naf_ok(&sd) && digits_value(&sd, 1) == n, || format!("n={} digits {:?}", n, &sd[..]))
        }) });
    // ed448: scalar is 56 bytes
    v.push(Case { id: "ed448_recode_scalar".into(), describe: "ed448 recode_scalar: sum sd[j]*32^j == int(n)", ops: vec![Op::Raw(56)],
        run: Box::new(|inp: &[u8]| {
            let s = crrl::ed448::Scalar::decode_reduce(inp);
            let n = le_to_int(&s.encode()[..]);
            let sd = crrl::ed448::Point::verif_recode_scalar(&s);
            chk(w5_ok(&sd) && digits_value(&sd, 5) == n, || format!("n={} digits {:?}", n, &sd[..]))
        }) });
    v.push(Case { id: "ed448_recode_scalar_naf".into(), describe: "ed448 recode_scalar_NAF: sum sd[i]*2^i == int(n)", ops: vec![Op::Raw(56)],
        run: Box::new(|inp: &[u8]| {
            let s = crrl::ed448::Scalar::decode_reduce(inp);
            let n = le_to_int(&s.encode()[..]);
            let sd = crrl::ed448::Point::verif_recode_scalar_NAF(&s);
            chk(naf_ok(&sd) && digits_value(&sd, 1) == n, || format!("n={} digits {:?}", n, &sd[..]))
        }) });
    v.push(Case { id: "ed448_recode_halfwidth_naf".into(), describe: "ed448 recode_halfwidth_NAF: sum sd[i]*2^i == LE(n) for 224-bit n", ops: vec![Op::Raw(28)],
        run: Box::new(|inp: &[u8]| {
            let mut b = [0u8; 28]; b.copy_from_slice(inp);
            let sd = crrl::ed448::Point::verif_recode_halfwidth_NAF(&b);
            chk(naf_ok(&sd) && digits_value(&sd, 1) == le_to_int(inp), || format!("digits {:?}", &sd[..]))
        }) });
}
