//! Executable postconditions for the elliptic-curve group operations:
//! C03 (complete group law), C04 (scalar multiplication), C06 (point encodings)
//! on ed25519, ed448, p256, secp256k1, jq255e, jq255s, gls254, ristretto255, decaf448.
//!
//! Oracles: affine big-integer reference implementations written from the
//! textbook / RFC formulas (RFC 8032 Edwards curves, SEC 1 short Weierstrass,
//! RFC 9496 ristretto255/decaf448, Jacobi quartic (e,u) law for jq255e/s), and
//! relational oracles (group axioms, double-and-add over the crate's own + and
//! double) for all groups.
#![allow(non_snake_case)]
use crate::gen::Rng;
use crate::ora::*;
use crate::{Case, Op};
use num_bigint::{BigInt, Sign};
use std::sync::{Arc, OnceLock};

fn chk(cond: bool, msg: impl FnOnce() -> String) -> Result<(), String> { if cond { Ok(()) } else { Err(msg()) } }
fn bi(x: i64) -> BigInt { BigInt::from(x) }
fn is0(x: &BigInt) -> bool { x.sign() == Sign::NoSign }
fn odd(x: &BigInt) -> bool { x.bit(0) }
fn hexint(s: &str) -> BigInt { BigInt::parse_bytes(s.as_bytes(), 16).unwrap() }
fn int_to_be(x: &BigInt, len: usize) -> Vec<u8> { let mut v = int_to_le(x, len); v.reverse(); v }
/// low `8*len` bits of x, little-endian
fn int_to_le_trunc(x: &BigInt, len: usize) -> Vec<u8> { int_to_le(&emod(x, &pow2(8 * len as u32)), len) }

// ======================================================================
// Reference arithmetic (independent of crrl)
// ======================================================================

#[derive(Clone)]
struct Fp { p: BigInt }
impl Fp {
    fn r(&self, x: &BigInt) -> BigInt { emod(x, &self.p) }
    fn add(&self, a: &BigInt, b: &BigInt) -> BigInt { self.r(&(a + b)) }
    fn sub(&self, a: &BigInt, b: &BigInt) -> BigInt { self.r(&(a - b)) }
    fn mul(&self, a: &BigInt, b: &BigInt) -> BigInt { self.r(&(a * b)) }
    fn sq(&self, a: &BigInt) -> BigInt { self.r(&(a * a)) }
    fn neg(&self, a: &BigInt) -> BigInt { self.r(&(-a)) }
    /// inverse; inv(0) = 0
    fn inv(&self, a: &BigInt) -> BigInt { let a = self.r(a); if is0(&a) { a } else { a.modinv(&self.p).expect("modulus is prime") } }
    fn div(&self, a: &BigInt, b: &BigInt) -> BigInt { self.mul(a, &self.inv(b)) }
    fn abs(&self, a: &BigInt) -> BigInt { let a = self.r(a); if odd(&a) { &self.p - a } else { a } }
    /// some square root, if any
    fn sqrt(&self, a: &BigInt) -> Option<BigInt> {
        let a = self.r(a);
        if is0(&a) { return Some(a); }
        let p = &self.p;
        let r = if (p % bi(4)) == bi(3) {
            a.modpow(&((p + bi(1)) / bi(4)), p)
        } else if (p % bi(8)) == bi(5) {
            let mut r = a.modpow(&((p + bi(3)) / bi(8)), p);
            if self.sq(&r) != a { r = self.mul(&r, &bi(2).modpow(&((p - bi(1)) / bi(4)), p)); }
            r
        } else { panic!("unsupported modulus") };
        if self.sq(&r) == a { Some(r) } else { None }
    }
}

/// A reference group: strict decoding, encoding, affine group law.
trait RefGrp: Send + Sync + 'static {
    type Pt: Clone;
    /// strict decoding following the documented rules; None = reject
    fn decode(&self, buf: &[u8]) -> Option<Self::Pt>;
    /// parse the output of the crate's fixed-length encoder (same as decode except where documented)
    fn parse_enc(&self, buf: &[u8]) -> Option<Self::Pt> { self.decode(buf) }
    fn encode(&self, p: &Self::Pt) -> Vec<u8>;
    fn add(&self, p: &Self::Pt, q: &Self::Pt) -> Self::Pt;
    fn neg(&self, p: &Self::Pt) -> Self::Pt;
    fn neutral(&self) -> Self::Pt;
}

// ---------- (twisted) Edwards curves a*x^2 + y^2 = 1 + d*x^2*y^2, RFC 8032 encodings ----------
#[derive(Clone)]
struct EdRef { f: Fp, a: BigInt, d: BigInt, len: usize }
type APt = (BigInt, BigInt);
impl EdRef {
    fn ed25519() -> Self {
        let f = Fp { p: pow2(255) - bi(19) };
        let d = f.mul(&f.neg(&bi(121665)), &f.inv(&bi(121666)));
        let a = f.neg(&bi(1));
        EdRef { f, a, d, len: 32 }
    }
    fn ed448() -> Self {
        let f = Fp { p: pow2(448) - pow2(224) - bi(1) };
        let d = f.neg(&bi(39081));
        EdRef { f, a: bi(1), d, len: 57 }
    }
    fn on_curve(&self, p: &APt) -> bool {
        let f = &self.f;
        let (xx, yy) = (f.sq(&p.0), f.sq(&p.1));
        f.add(&f.mul(&self.a, &xx), &yy) == f.add(&bi(1), &f.mul(&self.d, &f.mul(&xx, &yy)))
    }
}
impl RefGrp for EdRef {
    type Pt = APt;
    fn decode(&self, buf: &[u8]) -> Option<APt> {
        let f = &self.f;
        if buf.len() != self.len { return None; }
        let mut b = buf.to_vec();
        let sign = b[self.len - 1] >> 7;
        b[self.len - 1] &= 0x7F;
        let y = le_to_int(&b);
        if y >= f.p { return None; }
        let yy = f.sq(&y);
        let u = f.sub(&yy, &bi(1));
        let v = f.sub(&f.mul(&self.d, &yy), &self.a);
        if is0(&v) { return None; }
        let mut x = f.sqrt(&f.div(&u, &v))?;
        if is0(&x) && sign == 1 { return None; }
        if odd(&x) != (sign == 1) { x = &f.p - x; }
        Some((x, y))
    }
    fn encode(&self, p: &APt) -> Vec<u8> {
        let mut b = int_to_le(&p.1, self.len);
        if odd(&p.0) { b[self.len - 1] |= 0x80; }
        b
    }
    fn add(&self, p: &APt, q: &APt) -> APt {
        let f = &self.f;
        let (x1, y1, x2, y2) = (&p.0, &p.1, &q.0, &q.1);
        let t = f.mul(&self.d, &f.mul(&f.mul(x1, x2), &f.mul(y1, y2)));
        let nx = f.add(&f.mul(x1, y2), &f.mul(x2, y1));
        let ny = f.sub(&f.mul(y1, y2), &f.mul(&self.a, &f.mul(x1, x2)));
        let (dx, dy) = (f.add(&bi(1), &t), f.sub(&bi(1), &t));
        assert!(!is0(&dx) && !is0(&dy), "reference Edwards addition: zero denominator (operand not on curve?)");
        (f.div(&nx, &dx), f.div(&ny, &dy))
    }
    fn neg(&self, p: &APt) -> APt { (self.f.neg(&p.0), p.1.clone()) }
    fn neutral(&self) -> APt { (bi(0), bi(1)) }
}

/// All points of the torsion subgroup of edwards25519 (order 8), by reference encoding;
/// index k holds k*T8 for a point T8 of order exactly 8.
fn ed25519_torsion() -> &'static Vec<Vec<u8>> {
    static C: OnceLock<Vec<Vec<u8>>> = OnceLock::new();
    C.get_or_init(|| {
        let ed = EdRef::ed25519();
        let f = &ed.f;
        let i = f.sqrt(&f.neg(&bi(1))).expect("sqrt(-1)");
        // order-8 points: x = i*y, d*y^4 + 2*y^2 - 1 = 0  =>  y^2 = (-1 +/- sqrt(1+d))/d
        let s = f.sqrt(&f.add(&bi(1), &ed.d)).expect("sqrt(1+d)");
        let mut t8 = None;
        for sg in [s.clone(), f.neg(&s)] {
            let yy = f.div(&f.sub(&sg, &bi(1)), &ed.d);
            if let Some(y) = f.sqrt(&yy) { if !is0(&y) { t8 = Some((f.mul(&i, &y), y)); break; } }
        }
        let t8 = t8.expect("order-8 point");
        assert!(ed.on_curve(&t8));
        let mut v = Vec::new();
        let mut acc = ed.neutral();
        for _ in 0..8 { v.push(ed.encode(&acc)); acc = ed.add(&acc, &t8); }
        assert!(acc == ed.neutral(), "8*T8 != 0");
        let t4 = ed.add(&ed.add(&t8, &t8), &ed.add(&t8, &t8));
        assert!(t4 == (bi(0), f.neg(&bi(1))), "4*T8 != (0,-1)");
        v
    })
}
/// The 4 torsion points of edwards448: (0,1), (1,0), (0,-1), (-1,0) (= k*T4).
fn ed448_torsion() -> &'static Vec<Vec<u8>> {
    static C: OnceLock<Vec<Vec<u8>>> = OnceLock::new();
    C.get_or_init(|| {
        let ed = EdRef::ed448();
        let t4 = (bi(1), bi(0));
        assert!(ed.on_curve(&t4));
        let mut v = Vec::new();
        let mut acc = ed.neutral();
        for _ in 0..4 { v.push(ed.encode(&acc)); acc = ed.add(&acc, &t4); }
        assert!(acc == ed.neutral());
        v
    })
}

// ---------- short Weierstrass y^2 = x^3 + a*x + b, SEC 1 encodings ----------
#[derive(Clone)]
struct WsRef { f: Fp, a: BigInt, b: BigInt }
type WPt = Option<APt>; // None = point at infinity
impl WsRef {
    fn p256() -> Self {
        let p = hexint("ffffffff00000001000000000000000000000000ffffffffffffffffffffffff");
        let b = hexint("5ac635d8aa3a93e7b3ebbd55769886bc651d06b0cc53b0f63bce3c3e27d2604b");
        let f = Fp { p };
        let a = f.neg(&bi(3));
        WsRef { f, a, b }
    }
    fn secp256k1() -> Self {
        let f = Fp { p: pow2(256) - pow2(32) - bi(977) };
        WsRef { f, a: bi(0), b: bi(7) }
    }
    fn rhs(&self, x: &BigInt) -> BigInt { let f = &self.f; f.add(&f.add(&f.mul(&f.sq(x), x), &f.mul(&self.a, x)), &self.b) }
    fn on_curve(&self, x: &BigInt, y: &BigInt) -> bool { self.f.sq(y) == self.rhs(x) }
    fn enc_unc(&self, p: &WPt) -> Vec<u8> {
        match p { None => vec![0u8; 65], Some((x, y)) => { let mut v = vec![4u8]; v.extend(int_to_be(x, 32)); v.extend(int_to_be(y, 32)); v } }
    }
    fn enc_cmp(&self, p: &WPt) -> Vec<u8> {
        match p { None => vec![0u8; 33], Some((x, y)) => { let mut v = vec![2u8 | (odd(y) as u8)]; v.extend(int_to_be(x, 32)); v } }
    }
}
impl RefGrp for WsRef {
    type Pt = WPt;
    fn decode(&self, buf: &[u8]) -> Option<WPt> {
        let f = &self.f;
        match buf.len() {
            1 => if buf[0] == 0 { Some(None) } else { None },
            33 => {
                if buf[0] != 2 && buf[0] != 3 { return None; }
                let x = be_to_int(&buf[1..]);
                if x >= f.p { return None; }
                let mut y = f.sqrt(&self.rhs(&x))?;
                if odd(&y) != (buf[0] == 3) { y = f.neg(&y); }
                Some(Some((x, y)))
            }
            65 => {
                if buf[0] != 4 { return None; }
                let (x, y) = (be_to_int(&buf[1..33]), be_to_int(&buf[33..]));
                if x >= f.p || y >= f.p || !self.on_curve(&x, &y) { return None; }
                Some(Some((x, y)))
            }
            _ => None,
        }
    }
    fn parse_enc(&self, buf: &[u8]) -> Option<WPt> {
        if (buf.len() == 65 || buf.len() == 33) && buf.iter().all(|&b| b == 0) { return Some(None); }
        self.decode(buf)
    }
    fn encode(&self, p: &WPt) -> Vec<u8> { self.enc_unc(p) }
    fn add(&self, p: &WPt, q: &WPt) -> WPt {
        let f = &self.f;
        let (x1, y1) = match p { None => return q.clone(), Some(t) => t };
        let (x2, y2) = match q { None => return p.clone(), Some(t) => t };
        let lam = if x1 == x2 {
            if is0(&f.add(y1, y2)) { return None; }
            // y1 == y2 != 0: tangent
            f.div(&f.add(&f.mul(&bi(3), &f.sq(x1)), &self.a), &f.mul(&bi(2), y1))
        } else {
            f.div(&f.sub(y2, y1), &f.sub(x2, x1))
        };
        let x3 = f.sub(&f.sub(&f.sq(&lam), x1), x2);
        let y3 = f.sub(&f.mul(&lam, &f.sub(x1, &x3)), y1);
        Some((x3, y3))
    }
    fn neg(&self, p: &WPt) -> WPt { p.as_ref().map(|(x, y)| (x.clone(), self.f.neg(y))) }
    fn neutral(&self) -> WPt { None }
}

// ---------- ristretto255 (RFC 9496 section 4) over the edwards25519 reference ----------
struct RistRef { ed: EdRef, sqrt_m1: BigInt, invsqrt_a_minus_d: BigInt }
impl RistRef {
    fn new() -> Self {
        let ed = EdRef::ed25519();
        let f = ed.f.clone();
        let sqrt_m1 = bi(2).modpow(&((&f.p - bi(1)) / bi(4)), &f.p);
        assert!(f.sq(&sqrt_m1) == f.neg(&bi(1)));
        let s = f.sqrt(&f.sub(&ed.a, &ed.d)).expect("sqrt(a-d)");
        let invsqrt_a_minus_d = f.inv(&s);
        RistRef { ed, sqrt_m1, invsqrt_a_minus_d }
    }
    /// SQRT_RATIO_M1(u, v), RFC 9496 section 4.2
    fn sqrt_ratio_m1(&self, u: &BigInt, v: &BigInt) -> (bool, BigInt) {
        let f = &self.ed.f;
        let v3 = f.mul(&f.sq(v), v);
        let v7 = f.mul(&f.sq(&v3), v);
        let e = (&f.p - bi(5)) / bi(8);
        let r = f.mul(&f.mul(u, &v3), &f.mul(u, &v7).modpow(&e, &f.p));
        let check = f.mul(v, &f.sq(&r));
        let u = f.r(u);
        let correct = check == u;
        let flipped = check == f.neg(&u);
        let flipped_i = check == f.neg(&f.mul(&u, &self.sqrt_m1));
        let r = if flipped || flipped_i { f.mul(&r, &self.sqrt_m1) } else { r };
        (correct || flipped, f.abs(&r))
    }
}
impl RefGrp for RistRef {
    type Pt = APt;
    fn decode(&self, buf: &[u8]) -> Option<APt> {
        let f = &self.ed.f;
        if buf.len() != 32 { return None; }
        let s = le_to_int(buf);
        if s >= f.p || odd(&s) { return None; }
        let one = bi(1);
        let ss = f.sq(&s);
        let u1 = f.sub(&one, &ss);
        let u2 = f.add(&one, &ss);
        let u2_sqr = f.sq(&u2);
        let v = f.sub(&f.neg(&f.mul(&self.ed.d, &f.sq(&u1))), &u2_sqr);
        let (was_square, invsqrt) = self.sqrt_ratio_m1(&one, &f.mul(&v, &u2_sqr));
        let den_x = f.mul(&invsqrt, &u2);
        let den_y = f.mul(&f.mul(&invsqrt, &den_x), &v);
        let x = f.abs(&f.mul(&f.mul(&bi(2), &s), &den_x));
        let y = f.mul(&u1, &den_y);
        let t = f.mul(&x, &y);
        if !was_square || odd(&t) || is0(&y) { return None; }
        Some((x, y))
    }
    fn encode(&self, p: &APt) -> Vec<u8> {
        let f = &self.ed.f;
        let (x0, y0) = (&p.0, &p.1);
        let z0 = bi(1);
        let t0 = f.mul(x0, y0);
        let u1 = f.mul(&f.add(&z0, y0), &f.sub(&z0, y0));
        let u2 = f.mul(x0, y0);
        let (_, invsqrt) = self.sqrt_ratio_m1(&bi(1), &f.mul(&u1, &f.sq(&u2)));
        let den1 = f.mul(&invsqrt, &u1);
        let den2 = f.mul(&invsqrt, &u2);
        let z_inv = f.mul(&f.mul(&den1, &den2), &t0);
        let ix0 = f.mul(x0, &self.sqrt_m1);
        let iy0 = f.mul(y0, &self.sqrt_m1);
        let enchanted = f.mul(&den1, &self.invsqrt_a_minus_d);
        let rotate = odd(&f.mul(&t0, &z_inv));
        let (x, mut y, den_inv) = if rotate { (iy0, ix0, enchanted) } else { (x0.clone(), y0.clone(), den2) };
        if odd(&f.mul(&x, &z_inv)) { y = f.neg(&y); }
        let s = f.abs(&f.mul(&den_inv, &f.sub(&z0, &y)));
        int_to_le(&s, 32)
    }
    fn add(&self, p: &APt, q: &APt) -> APt { self.ed.add(p, q) }
    fn neg(&self, p: &APt) -> APt { self.ed.neg(p) }
    fn neutral(&self) -> APt { self.ed.neutral() }
}

// ---------- decaf448 (RFC 9496 section 5) over the edwards448 reference ----------
struct DecafRef { ed: EdRef, sqrt_minus_d: BigInt, invsqrt_minus_d: BigInt }
impl DecafRef {
    fn new() -> Self {
        let ed = EdRef::ed448();
        let f = ed.f.clone();
        let sqrt_minus_d = f.sqrt(&f.neg(&ed.d)).expect("sqrt(-d)");
        let invsqrt_minus_d = f.inv(&sqrt_minus_d);
        DecafRef { ed, sqrt_minus_d, invsqrt_minus_d }
    }
    /// SQRT_RATIO_M1(u, v), RFC 9496 section 5.2
    fn sqrt_ratio_m1(&self, u: &BigInt, v: &BigInt) -> (bool, BigInt) {
        let f = &self.ed.f;
        let e = (&f.p - bi(3)) / bi(4);
        let r = f.mul(u, &f.mul(u, v).modpow(&e, &f.p));
        let was = f.mul(v, &f.sq(&r)) == f.r(u);
        (was, f.abs(&r))
    }
}
impl RefGrp for DecafRef {
    type Pt = APt;
    fn decode(&self, buf: &[u8]) -> Option<APt> {
        let f = &self.ed.f;
        if buf.len() != 56 { return None; }
        let s = le_to_int(buf);
        if s >= f.p || odd(&s) { return None; }
        let one = bi(1);
        let ss = f.sq(&s);
        let u1 = f.add(&one, &ss);
        let u2 = f.sub(&f.sq(&u1), &f.mul(&f.mul(&bi(4), &self.ed.d), &ss));
        let (was_square, invsqrt) = self.sqrt_ratio_m1(&one, &f.mul(&u2, &f.sq(&u1)));
        let u3 = f.abs(&f.mul(&f.mul(&f.mul(&bi(2), &s), &invsqrt), &f.mul(&u1, &self.sqrt_minus_d)));
        let x = f.mul(&f.mul(&u3, &invsqrt), &f.mul(&u2, &self.invsqrt_minus_d));
        let y = f.mul(&f.mul(&f.sub(&one, &ss), &invsqrt), &u1);
        if !was_square { return None; }
        Some((x, y))
    }
    fn encode(&self, p: &APt) -> Vec<u8> {
        let f = &self.ed.f;
        let (x0, y0) = (&p.0, &p.1);
        let z0 = bi(1);
        let t0 = f.mul(x0, y0);
        let one_minus_d = f.sub(&bi(1), &self.ed.d);
        let u1 = f.mul(&f.add(x0, &t0), &f.sub(x0, &t0));
        let (_, invsqrt) = self.sqrt_ratio_m1(&bi(1), &f.mul(&f.mul(&u1, &one_minus_d), &f.sq(x0)));
        let ratio = f.abs(&f.mul(&f.mul(&invsqrt, &u1), &self.sqrt_minus_d));
        let u2 = f.sub(&f.mul(&f.mul(&self.invsqrt_minus_d, &ratio), &z0), &t0);
        let s = f.abs(&f.mul(&f.mul(&one_minus_d, &invsqrt), &f.mul(x0, &u2)));
        int_to_le(&s, 56)
    }
    fn add(&self, p: &APt, q: &APt) -> APt { self.ed.add(p, q) }
    fn neg(&self, p: &APt) -> APt { self.ed.neg(p) }
    fn neutral(&self) -> APt { self.ed.neutral() }
}

// ---------- jq255e / jq255s: Jacobi quartic e^2 = b'*u^4 + a'*u^2 + 1, a' = -2a, b' = a^2 - 4b ----------
// A group element is the pair {(e,u), (-e,-u)}; its encoding is the u of the representative with even e.
struct JqRef { f: Fp, ap: BigInt, bp: BigInt }
impl JqRef {
    fn jq255e() -> Self { JqRef { f: Fp { p: pow2(255) - bi(18651) }, ap: bi(0), bp: bi(8) } }   // a = 0, b = -2
    fn jq255s() -> Self { let f = Fp { p: pow2(255) - bi(3957) }; let bp = f.neg(&bi(1)); JqRef { f, ap: bi(2), bp } } // a = -1, b = 1/2
}
impl RefGrp for JqRef {
    type Pt = APt; // (e, u)
    fn decode(&self, buf: &[u8]) -> Option<APt> {
        let f = &self.f;
        if buf.len() != 32 { return None; }
        let u = le_to_int(buf);
        if u >= f.p { return None; }
        let uu = f.sq(&u);
        let ee = f.add(&f.add(&f.mul(&self.bp, &f.sq(&uu)), &f.mul(&self.ap, &uu)), &bi(1));
        let e = f.sqrt(&ee)?;
        Some((f.abs(&e), u))
    }
    fn encode(&self, p: &APt) -> Vec<u8> {
        let u = if odd(&p.0) { self.f.neg(&p.1) } else { p.1.clone() };
        int_to_le(&u, 32)
    }
    fn add(&self, p: &APt, q: &APt) -> APt {
        let f = &self.f;
        let (e1, u1, e2, u2) = (&p.0, &p.1, &q.0, &q.1);
        let (uu1, uu2) = (f.sq(u1), f.sq(u2));
        let u1u2 = f.mul(u1, u2);
        let bt = f.mul(&self.bp, &f.mul(&uu1, &uu2));
        let den = f.sub(&bi(1), &bt);
        assert!(!is0(&den), "reference Jacobi quartic addition: zero denominator");
        let num_e = f.add(
            &f.mul(&f.add(&bi(1), &bt), &f.add(&f.mul(e1, e2), &f.mul(&self.ap, &u1u2))),
            &f.mul(&f.mul(&f.mul(&bi(2), &self.bp), &u1u2), &f.add(&uu1, &uu2)));
        let num_u = f.add(&f.mul(e1, u2), &f.mul(e2, u1));
        (f.div(&num_e, &f.sq(&den)), f.div(&num_u, &den))
    }
    fn neg(&self, p: &APt) -> APt { (p.0.clone(), self.f.neg(&p.1)) }
    fn neutral(&self) -> APt { (self.f.neg(&bi(1)), bi(0)) }
}

// ---------- GLS254: reference binary field arithmetic and the decoding rule of eprint 2022/1325 ----------
// GF(2^127) = GF(2)[z]/(1 + z^63 + z^127), elements as u128 (bit i = coefficient of z^i);
// GF(2^254) = GF(2^127)[u]/(1 + u + u^2), elements as (x0, x1) = x0 + x1*u.
type B254 = (u128, u128);
fn b127_mul(a: u128, b: u128) -> u128 {
    let mut a = a;
    let mut r = 0u128;
    for i in 0..127 {
        if (b >> i) & 1 == 1 { r ^= a; }
        a <<= 1;
        if (a >> 127) & 1 == 1 { a = (a & ((1u128 << 127) - 1)) ^ 1 ^ (1u128 << 63); }
    }
    r
}
fn b254_mul(a: B254, b: B254) -> B254 {
    let (p00, p11) = (b127_mul(a.0, b.0), b127_mul(a.1, b.1));
    (p00 ^ p11, b127_mul(a.0, b.1) ^ b127_mul(a.1, b.0) ^ p11)
}
fn b254_sq(a: B254) -> B254 { b254_mul(a, a) }
fn b254_inv(a: B254) -> B254 {
    // a^(2^254 - 2)
    let mut r = (1u128, 0u128);
    let mut t = b254_sq(a);
    for _ in 1..254 { r = b254_mul(r, t); t = b254_sq(t); }
    r
}
fn b254_trace(a: B254) -> u32 {
    let mut s = (0u128, 0u128);
    let mut t = a;
    for _ in 0..254 { s = (s.0 ^ t.0, s.1 ^ t.1); t = b254_sq(t); }
    assert!(s.1 == 0 && s.0 <= 1, "trace not in GF(2)");
    s.0 as u32
}
/// w (32 bytes: two 127-bit halves, top bits zero) is the encoding of a group element iff
/// w == 0 (neutral) or x^2 + (w^2+w+a)*x + b = 0 has solutions, i.e. Tr(b/(w^2+w+a)^2) == 0  (a = u, b = 1+z^54).
fn gls254_ref_decode_ok(buf: &[u8]) -> bool {
    if buf.len() != 32 { return false; }
    let w = (u128::from_le_bytes(buf[..16].try_into().unwrap()), u128::from_le_bytes(buf[16..].try_into().unwrap()));
    if (w.0 >> 127) != 0 || (w.1 >> 127) != 0 { return false; }
    if w == (0, 0) { return true; }
    let ww = b254_sq(w);
    let d = (ww.0 ^ w.0, ww.1 ^ w.1 ^ 1);
    let b = (1u128 | (1u128 << 54), 0u128);
    let e = b254_mul(b, b254_inv(b254_sq(d)));
    b254_trace(e) == 0
}

// ======================================================================
// Uniform access to the nine crrl groups
// ======================================================================

const KIND_ED25519: u8 = 0;
const KIND_LE255: u8 = 1; // 32-byte little-endian field element, top bit must be 0 (jq255e, jq255s, ristretto255)
const KIND_ED448: u8 = 2;
const KIND_DECAF: u8 = 3;
const KIND_WS: u8 = 4;
const KIND_GLS: u8 = 5;

trait Grp: Copy + Send + Sync + 'static {
    type S: Copy + Send + Sync + 'static;
    const NAME: &'static str;
    const SLEN: usize; // scalar encoding length
    const ELEN: usize; // length of enc()
    const PLEN: usize; // payload length in operand recipes
    const ENDO: u32;   // order of the endomorphism eigenvalue used for scalar splitting (0 = none)
    const KIND: u8;
    const NEUTRAL_DECODES: bool; // does decode(enc(neutral)) succeed?
    fn neutral() -> Self;
    fn base() -> Self;
    fn add(self, o: Self) -> Self;
    fn sub(self, o: Self) -> Self;
    fn neg(self) -> Self;
    fn dbl(self) -> Self;
    fn xdbl(self, n: u32) -> Self;
    fn mulk(self, k: u64) -> Self;
    fn mul(self, s: &Self::S) -> Self;
    fn mulgen(s: &Self::S) -> Self;
    fn eq_raw(self, o: Self) -> u32;
    fn isneutral_raw(self) -> u32;
    fn enc(self) -> Vec<u8>;
    fn dec(b: &[u8]) -> Option<Self>;
    fn set_dec(&mut self, b: &[u8]) -> u32;
    fn add_variants(self, o: Self) -> Vec<Self>;
    fn sub_variants(self, o: Self) -> Vec<Self>;
    fn neg_variants(self) -> Vec<Self>;
    fn dbl_variants(self) -> Vec<Self>;
    fn xdbl_variants(self, n: u32) -> Vec<Self>;
    fn mulk_variants(self, k: u64) -> Vec<Self>;
    /// two of the nine operator forms of P*s, selected by `which`
    fn mul_variants(self, s: &Self::S, which: usize) -> Vec<Self>;
    fn mulgen_variants(s: &Self::S, dirty: Self) -> Vec<Self>;
    fn sc(b: &[u8]) -> Self::S;
    fn sc_enc(s: &Self::S) -> Vec<u8>;
    fn sc_add(a: &Self::S, b: &Self::S) -> Self::S;
    fn sc_sub(a: &Self::S, b: &Self::S) -> Self::S;
    fn sc_mul(a: &Self::S, b: &Self::S) -> Self::S;
    fn sc_neg(a: &Self::S) -> Self::S;
    fn sc_u64(k: u64) -> Self::S;
    fn order() -> &'static BigInt;
    fn field_p() -> Option<BigInt>;
    fn torsion_encs() -> &'static [Vec<u8>] { &[] }
    /// same point, other projective representative (where the API allows to build one)
    fn rescale(self, _lam: &[u8]) -> Result<Self, String> { Ok(self) }
    /// try to decode an operand from a recipe payload
    fn dec_candidate(pay: &[u8]) -> Option<Self> { Self::dec(&pay[..Self::ELEN]) }
    /// payload p such that dec_candidate(p) == self
    fn payload_of(self) -> Vec<u8> { self.enc() }
    /// second encoding format, if any
    fn enc_alt(self) -> Option<Vec<u8>> { None }
    /// re-encode a decoded point in the format of `buf`
    fn reencode_like(self, _buf: &[u8]) -> Vec<u8> { self.enc() }
}

fn compute_order<G: Grp>() -> BigInt { le_to_int(&G::sc_enc(&G::sc_neg(&G::sc_u64(1)))) + bi(1) }

/// an element of multiplicative order exactly G::ENDO modulo the group order (eigenvalue of the endomorphism, up to conjugation)
fn endo_root<G: Grp>() -> Option<BigInt> {
    if G::ENDO == 0 { return None; }
    let r = G::order();
    let e = (r - bi(1)) / bi(G::ENDO as i64);
    for g in 2..200 {
        let h = bi(g).modpow(&e, r);
        let ok = match G::ENDO { 3 => h != bi(1), 4 => (&h * &h) % r == r - bi(1), _ => false };
        if ok { return Some(h); }
    }
    None
}

macro_rules! impl_grp {
    ($m:ident, $name:expr, $slen:expr, $elen:expr, $plen:expr, $endo:expr, $kind:expr, $ndec:expr, $encf:ident, $fieldp:expr, { $($extra:tt)* }) => {
        impl Grp for crrl::$m::Point {
            type S = crrl::$m::Scalar;
            const NAME: &'static str = $name;
            const SLEN: usize = $slen;
            const ELEN: usize = $elen;
            const PLEN: usize = $plen;
            const ENDO: u32 = $endo;
            const KIND: u8 = $kind;
            const NEUTRAL_DECODES: bool = $ndec;
            fn neutral() -> Self { Self::NEUTRAL }
            fn base() -> Self { Self::BASE }
            fn add(self, o: Self) -> Self { self + o }
            fn sub(self, o: Self) -> Self { self - o }
            fn neg(self) -> Self { -self }
            fn dbl(self) -> Self { self.double() }
            fn xdbl(self, n: u32) -> Self { self.xdouble(n) }
            fn mulk(self, k: u64) -> Self { self * k }
            fn mul(self, s: &Self::S) -> Self { self * s }
            fn mulgen(s: &Self::S) -> Self { Self::mulgen(s) }
            fn eq_raw(self, o: Self) -> u32 { self.equals(o) }
            fn isneutral_raw(self) -> u32 { self.isneutral() }
            fn enc(self) -> Vec<u8> { self.$encf().to_vec() }
            fn dec(b: &[u8]) -> Option<Self> { Self::decode(b) }
            fn set_dec(&mut self, b: &[u8]) -> u32 { self.set_decode(b) }
            fn add_variants(self, o: Self) -> Vec<Self> {
                let mut v = vec![&self + &o, self + &o, &self + o];
                let mut t = self; t += o; v.push(t);
                let mut t = self; t += &o; v.push(t);
                v
            }
            fn sub_variants(self, o: Self) -> Vec<Self> {
                let mut v = vec![&self - &o, self - &o, &self - o];
                let mut t = self; t -= o; v.push(t);
                let mut t = self; t -= &o; v.push(t);
                v
            }
            fn neg_variants(self) -> Vec<Self> {
                let mut t = self; t.set_neg();
                vec![-&self, t]
            }
            fn dbl_variants(self) -> Vec<Self> { let mut t = self; t.set_double(); vec![t] }
            fn xdbl_variants(self, n: u32) -> Vec<Self> { let mut t = self; t.set_xdouble(n); vec![t] }
            fn mulk_variants(self, k: u64) -> Vec<Self> {
                let mut v = vec![&self * k, k * self, k * &self];
                let mut t = self; t *= k; v.push(t);
                v
            }
            fn mul_variants(self, s: &Self::S, which: usize) -> Vec<Self> {
                let sv = *s;
                let one = |w: usize| -> Self {
                    match w % 9 {
                        0 => self * sv, 1 => &self * sv, 2 => &self * s, 3 => sv * self, 4 => s * &self, 5 => sv * &self, 6 => s * self,
                        7 => { let mut t = self; t *= sv; t }
                        _ => { let mut t = self; t *= s; t }
                    }
                };
                vec![one(which), one(which / 9 + 1 + which % 9)]
            }
            fn mulgen_variants(s: &Self::S, dirty: Self) -> Vec<Self> {
                let mut t = dirty; t.set_mulgen(s);
                let mut u = Self::NEUTRAL; u.set_mulgen(s);
                vec![t, u]
            }
            fn sc(b: &[u8]) -> Self::S { <Self::S>::decode_reduce(b) }
            fn sc_enc(s: &Self::S) -> Vec<u8> { s.encode().to_vec() }
            fn sc_add(a: &Self::S, b: &Self::S) -> Self::S { *a + *b }
            fn sc_sub(a: &Self::S, b: &Self::S) -> Self::S { *a - *b }
            fn sc_mul(a: &Self::S, b: &Self::S) -> Self::S { *a * *b }
            fn sc_neg(a: &Self::S) -> Self::S { -*a }
            fn sc_u64(k: u64) -> Self::S { <Self::S>::from_u64(k) }
            fn order() -> &'static BigInt { static C: OnceLock<BigInt> = OnceLock::new(); C.get_or_init(|| compute_order::<Self>()) }
            fn field_p() -> Option<BigInt> { $fieldp }
            $($extra)*
        }
    };
}

macro_rules! ws_extra {
    ($F:ty) => {
        fn rescale(self, lam: &[u8]) -> Result<Self, String> {
            let l = <$F>::decode_reduce(lam);
            if l.iszero() != 0 { return Ok(self); }
            let (x, y, z) = self.to_projective();
            Self::from_projective(x * l, y * l, z * l).ok_or_else(|| "from_projective rejected a rescaled valid point".to_string())
        }
        fn dec_candidate(pay: &[u8]) -> Option<Self> {
            let mut b = vec![2u8 | (pay[32] & 1)];
            b.extend_from_slice(&pay[..32]);
            Self::decode(&b)
        }
        fn payload_of(self) -> Vec<u8> {
            let c = self.encode_compressed();
            let mut v = c[1..].to_vec();
            v.push(c[0] & 1);
            v
        }
        fn enc_alt(self) -> Option<Vec<u8>> { Some(self.encode_compressed().to_vec()) }
        fn reencode_like(self, buf: &[u8]) -> Vec<u8> {
            match buf.len() {
                33 => self.encode_compressed().to_vec(),
                65 => self.encode_uncompressed().to_vec(),
                1 => if self.isneutral() == 0xFFFFFFFF { vec![0u8] } else { vec![0xEEu8] },
                _ => Vec::new(),
            }
        }
    };
}

impl_grp!(ed25519, "ed25519", 32, 32, 32, 0, KIND_ED25519, true, encode, Some(pow2(255) - bi(19)), {
    fn torsion_encs() -> &'static [Vec<u8>] { &ed25519_torsion()[..] }
});
impl_grp!(ed448, "ed448", 56, 57, 57, 0, KIND_ED448, true, encode, Some(pow2(448) - pow2(224) - bi(1)), {
    fn torsion_encs() -> &'static [Vec<u8>] { &ed448_torsion()[..] }
});
impl_grp!(p256, "p256", 32, 65, 33, 0, KIND_WS, false, encode_uncompressed, Some(WsRef::p256().f.p), { ws_extra!(crrl::field::GFp256); });
impl_grp!(secp256k1, "secp256k1", 32, 65, 33, 3, KIND_WS, false, encode_uncompressed, Some(WsRef::secp256k1().f.p), { ws_extra!(crrl::field::GFsecp256k1); });
impl_grp!(jq255e, "jq255e", 32, 32, 32, 4, KIND_LE255, true, encode, Some(pow2(255) - bi(18651)), {});
impl_grp!(jq255s, "jq255s", 32, 32, 32, 0, KIND_LE255, true, encode, Some(pow2(255) - bi(3957)), {});
impl_grp!(gls254, "gls254", 32, 32, 32, 4, KIND_GLS, true, encode, None, {});
impl_grp!(ristretto255, "ristretto255", 32, 32, 32, 0, KIND_LE255, true, encode, Some(pow2(255) - bi(19)), {});
impl_grp!(decaf448, "decaf448", 56, 56, 56, 0, KIND_DECAF, true, encode, Some(pow2(448) - pow2(224) - bi(1)), {});

// ======================================================================
// Operand generators
// ======================================================================

/// value with base-32 digits following `pat` cyclically, `nd` digits
fn digits32(pat: &[u32], nd: u32) -> BigInt {
    let mut acc = bi(0);
    for j in 0..nd { acc += BigInt::from(pat[j as usize % pat.len()]) << (5 * j as usize); }
    acc
}

fn sc_special_ints<G: Grp>(small: bool) -> Vec<BigInt> {
    let r = G::order().clone();
    let bl = r.bits() as u32;
    let nd = (bl - 1) / 5; // digits32(.., nd) < 2^(bl-1) < r
    let top = if pow2(bl - 1) < r { pow2(bl - 1) } else { pow2(bl - 2) };
    let mut v = vec![bi(0), bi(1), bi(2), &r - bi(1), &r - bi(2), (&r - bi(1)) / bi(2),
        digits32(&[16], nd), digits32(&[15], nd), digits32(&[31], nd), digits32(&[17], nd), top.clone(), pow2(128) - bi(1)];
    if small { return v; }
    for x in [3i64, 15, 16, 17, 31, 32, 33, 47, 48, 49, 527, 528, 529] { v.push(bi(x)); }
    v.push(&r - bi(3)); v.push((&r + bi(1)) / bi(2)); v.push(r.clone()); v.push(&r + bi(1));
    v.push(pow2(8 * G::SLEN as u32) - bi(1));
    for k in [5u32, 10, 64, 127, 128, 129, bl - 2, bl - 1] {
        for d in [-1i64, 0, 1] { v.push(pow2(k) + bi(d)); }
    }
    for pat in [&[16u32, 15][..], &[15, 16], &[17, 15], &[31, 0], &[0, 31], &[16, 31], &[16, 0], &[1], &[30], &[16, 16, 15], &[31, 31, 16], &[15, 31], &[17, 17, 16]] {
        v.push(digits32(pat, nd));
        v.push(digits32(pat, nd + 1) % &r);
    }
    for j in [1u32, 10, 25, nd] { let m = pow2(5 * j); v.push(&r - (&r % &m)); v.push(&r - (&r % &m) - bi(1)); }
    v.push(pow2(200) - pow2(100)); v.push(&top - pow2(5)); v.push(&top - bi(1)); v.push(&top + digits32(&[16], nd - 1));
    if let Some(root) = endo_root::<G>() {
        let d16 = digits32(&[16], 25);
        let d31 = digits32(&[31], 25);
        let pairs: Vec<(BigInt, BigInt)> = vec![
            (bi(0), bi(1)), (bi(1), bi(1)), (bi(0), bi(2)), (pow2(126), pow2(126)), (pow2(127) - bi(1), bi(1)), (bi(1), pow2(127) - bi(1)),
            (bi(0), pow2(64)), (d16.clone(), d16.clone()), (d31.clone(), d16.clone()), (d16.clone(), bi(0)), (pow2(125), d31.clone()), (pow2(126) + pow2(125), pow2(126) + pow2(125)),
        ];
        for (a, b) in pairs {
            let x = emod(&(&a + &b * &root), &r);
            v.push(&r - &x); v.push(x);
            let y = emod(&(&a - &b * &root), &r);
            v.push(y);
        }
    }
    v
}
fn sc_specials<G: Grp>() -> Vec<Vec<u8>> { sc_special_ints::<G>(false).iter().map(|x| int_to_le_trunc(x, G::SLEN)).collect() }
fn sc_specials_small<G: Grp>() -> Vec<Vec<u8>> { sc_special_ints::<G>(true).iter().map(|x| int_to_le_trunc(x, G::SLEN)).collect() }

fn rand_bytes(r: &mut Rng, n: usize) -> Vec<u8> {
    let mut b = Vec::with_capacity(n + 8);
    while b.len() < n { b.extend_from_slice(&r.next().to_le_bytes()); }
    b.truncate(n);
    b
}
fn rand_int(r: &mut Rng, bits: u32) -> BigInt { le_to_int(&rand_bytes(r, (bits as usize + 7) / 8)) % pow2(bits) }
/// structured value below 2^bits
fn structured_int(r: &mut Rng, bits: u32) -> BigInt {
    const PAL: [u32; 8] = [0, 1, 15, 16, 17, 30, 31, 16];
    let x = match r.below(7) {
        0 => rand_int(r, bits),
        1 => bi(r.below(64) as i64),
        2 => { let k = r.below(bits as u64) as u32; emod(&(pow2(k) + bi(r.below(5) as i64 - 2)), &pow2(bits)) }
        3 => { let a = r.below(bits as u64 + 1) as u32; let b = r.below(a as u64 + 1) as u32; pow2(a) - pow2(b) }
        4 => { let d = PAL[r.below(8) as usize]; digits32(&[d], (bits + 4) / 5) }
        5 => { let pat = [PAL[r.below(8) as usize], PAL[r.below(8) as usize], PAL[r.below(8) as usize]]; digits32(&pat[..(1 + r.below(3)) as usize], (bits + 4) / 5) }
        _ => { let nd = (bits + 4) / 5; let mut acc = bi(0); for j in 0..nd { let d = if r.below(4) == 0 { r.below(32) as u32 } else { PAL[r.below(8) as usize] }; acc += BigInt::from(d) << (5 * j as usize); } acc }
    };
    x % pow2(bits)
}
fn sc_random<G: Grp>(r: &mut Rng) -> Vec<u8> {
    let ord = G::order();
    let bl = ord.bits() as u32;
    let x = match r.below(8) {
        0 => rand_int(r, 8 * G::SLEN as u32),
        1 => ord - bi(r.below(40) as i64),
        2 => structured_int(r, bl - 1),
        3 => structured_int(r, bl),
        4 => { let sp = sc_special_ints::<G>(true); sp[r.below(sp.len() as u64) as usize].clone() + bi(r.below(5) as i64) }
        5 => match endo_root_cached::<G>() {
            Some(root) => {
                let (a, b) = (structured_int(r, 127), structured_int(r, 127));
                let (sa, sb) = (if r.below(2) == 0 { bi(1) } else { bi(-1) }, if r.below(2) == 0 { bi(1) } else { bi(-1) });
                emod(&(sa * a + sb * b * root), ord)
            }
            None => structured_int(r, bl - 1),
        },
        6 => { let mut acc = bi(0); for _ in 0..(1 + r.below(4)) { acc += pow2(r.below(bl as u64 - 1) as u32); } acc }
        _ => (ord + bi(r.below(9) as i64 - 4)) / bi(2 + r.below(3) as i64),
    };
    int_to_le_trunc(&x, G::SLEN)
}
/// endo_root with one cache slot per group (keyed by name; values are deterministic constants)
fn endo_root_cached<G: Grp>() -> Option<&'static BigInt> {
    static C: OnceLock<std::sync::Mutex<Vec<(&'static str, Option<&'static BigInt>)>>> = OnceLock::new();
    let m = C.get_or_init(|| std::sync::Mutex::new(Vec::new()));
    let mut g = m.lock().unwrap();
    if let Some((_, v)) = g.iter().find(|(n, _)| *n == G::NAME) { return *v; }
    let v: Option<&'static BigInt> = endo_root::<G>().map(|x| &*Box::leak(Box::new(x)));
    g.push((G::NAME, v));
    v
}
fn sc_op<G: Grp>() -> Op { Op::Custom { len: Some(G::SLEN), specials: sc_specials::<G>, random: sc_random::<G> } }
fn sc_op_small<G: Grp>() -> Op { Op::Custom { len: Some(G::SLEN), specials: sc_specials_small::<G>, random: sc_random::<G> } }

// ---- point operands: 1 selector byte + PLEN payload bytes ----
const NSEL: u8 = 12;
fn rec<G: Grp>(sel: u8, pay: &[u8]) -> Vec<u8> {
    let mut v = vec![sel];
    v.extend_from_slice(&pay[..pay.len().min(G::PLEN)]);
    v.resize(1 + G::PLEN, 0);
    v
}
fn torsion_pt<G: Grp>(k: usize) -> Option<G> {
    let t = G::torsion_encs();
    if t.is_empty() { None } else { G::dec(&t[k % t.len()]) }
}
/// Build a valid operand from a recipe. `tors` = allow points outside the prime-order subgroup.
fn build<G: Grp>(rc: &[u8], tors: bool) -> Result<G, String> {
    let sel = rc[0];
    let pay = &rc[1..];
    let s = G::sc(&pay[..G::SLEN]);
    let k = (sel / NSEL) as usize;
    let has_t = !G::torsion_encs().is_empty();
    let g = G::mulgen(&s);
    Ok(match sel % NSEL {
        0 => g,
        1 => G::base().mul(&s),
        2 => G::neutral(),
        3 => match G::dec_candidate(pay) { Some(p) if tors || !has_t => p, _ => g },
        4 => g.add(G::base()).sub(G::base()),
        5 => g.dbl(),
        6 => g.neg(),
        7 => match torsion_pt::<G>(k) { Some(t) if tors => g.add(t), _ => g.add(G::neutral()) },
        8 => match torsion_pt::<G>(k) { Some(t) if tors => t, _ => g.sub(g) },
        9 => g.add(g.neg()),
        10 => g.xdbl(2).rescale(pay)?,
        _ => G::base().mulk(pay[0] as u64),
    })
}
fn pt_specials_impl<G: Grp>(small: bool) -> Vec<Vec<u8>> {
    let r = G::order();
    let sx: Vec<u8> = (0..G::PLEN).map(|i| (i * 37 + 11) as u8).collect();
    let s0 = vec![0u8; G::PLEN];
    let s1 = int_to_le(&bi(1), G::PLEN);
    let sm = int_to_le_trunc(&(r - bi(1)), G::SLEN);
    let s16 = int_to_le_trunc(&digits32(&[16], (r.bits() as u32 - 1) / 5), G::SLEN);
    let nt = G::torsion_encs().len();
    let base_pay = G::base().payload_of();
    let mut v = Vec::new();
    if small {
        v.push(rec::<G>(0, &sx)); v.push(rec::<G>(2, &s0)); v.push(rec::<G>(3, &base_pay)); v.push(rec::<G>(4, &sx));
        v.push(rec::<G>(9, &sx)); v.push(rec::<G>(6, &s1)); v.push(rec::<G>(1, &sm)); v.push(rec::<G>(10, &s16));
        if nt > 1 {
            for k in [1usize, 2, nt / 2, nt - 1] { v.push(rec::<G>(8 + NSEL * (k as u8), &s0)); }
            v.push(rec::<G>(7 + NSEL, &sx));
        }
        v.dedup();
        return v;
    }
    for sel in 0..NSEL { v.push(rec::<G>(sel, &sx)); }
    v.push(rec::<G>(0, &s1)); v.push(rec::<G>(0, &sm)); v.push(rec::<G>(0, &s0)); v.push(rec::<G>(0, &s16));
    v.push(rec::<G>(1, &s1)); v.push(rec::<G>(1, &sm)); v.push(rec::<G>(1, &s0));
    v.push(rec::<G>(6, &s1)); v.push(rec::<G>(5, &sm)); v.push(rec::<G>(11, &s0)); v.push(rec::<G>(11, &[2u8])); v.push(rec::<G>(10, &s1));
    v.push(rec::<G>(3, &base_pay));
    v.push(rec::<G>(3, &G::base().dbl().payload_of()));
    v.push(rec::<G>(3, &G::base().neg().payload_of()));
    v.push(rec::<G>(3, &G::neutral().payload_of()));
    for k in 1..nt { v.push(rec::<G>(8 + NSEL * (k as u8), &s0)); v.push(rec::<G>(7 + NSEL * (k as u8), &sx)); }
    v
}
fn pt_specials<G: Grp>() -> Vec<Vec<u8>> { pt_specials_impl::<G>(false) }
fn pt_specials_small<G: Grp>() -> Vec<Vec<u8>> { pt_specials_impl::<G>(true) }
fn pt_random<G: Grp>(r: &mut Rng) -> Vec<u8> {
    let sel = r.next() as u8;
    let force_valid = sel % NSEL == 3 && r.below(4) != 0;
    let mode = if force_valid { 4 } else { r.below(8) };
    let pay = match mode {
        0 | 1 | 2 | 3 => sc_random::<G>(r),
        4 | 5 => {
            let s = G::sc(&sc_random::<G>(r));
            let p = G::mulgen(&s);
            let p = match (r.below(4), torsion_pt::<G>(r.below(8) as usize)) { (0, Some(t)) => p.add(t), (1, _) => p.dbl(), _ => p };
            p.payload_of()
        }
        6 => rand_bytes(r, G::PLEN),
        _ => { let sp = sc_specials_small::<G>(); sp[r.below(sp.len() as u64) as usize].clone() }
    };
    rec::<G>(sel, &pay)
}
fn pt_op<G: Grp>() -> Op { Op::Custom { len: Some(1 + G::PLEN), specials: pt_specials::<G>, random: pt_random::<G> } }
fn pt_op_small<G: Grp>() -> Op { Op::Custom { len: Some(1 + G::PLEN), specials: pt_specials_small::<G>, random: pt_random::<G> } }

// ---- relation selector between two operands ----
const NREL: u8 = 6;
fn rel_specials() -> Vec<Vec<u8>> { (0..NREL).map(|x| vec![x]).collect() }
fn rel_random(r: &mut Rng) -> Vec<u8> { vec![if r.below(2) == 0 { 0 } else { r.below(NREL as u64) as u8 }] }
fn rel_op() -> Op { Op::Custom { len: Some(1), specials: rel_specials, random: rel_random } }
fn related<G: Grp>(P: G, Q: G, rel: u8) -> G {
    match rel % NREL {
        0 => Q,
        1 => P,
        2 => P.neg(),
        3 => P.dbl().sub(P),
        4 => P.neg().add(Q).sub(Q),
        _ => P.dbl(),
    }
}

// ---- small integers ----
fn k_specials() -> Vec<Vec<u8>> {
    let mut v: Vec<u64> = (0..=20).collect();
    v.extend([31u64, 32, 33, 40, 41, 63, 64, 65, 255, 256, 65535, 65536, 0xFFFF_FFFF, 1 << 32, (1 << 32) + 1, (1 << 63) - 1, 1 << 63, (1 << 63) + 1, u64::MAX - 1, u64::MAX, 0xAAAA_AAAA_AAAA_AAAA, 0x5555_5555_5555_5555]);
    v.iter().map(|x| x.to_le_bytes().to_vec()).collect()
}
fn k_random(r: &mut Rng) -> Vec<u8> {
    let x = match r.below(5) {
        0 => r.below(64),
        1 => (1u64 << r.below(64)).wrapping_add(r.below(3)).wrapping_sub(1),
        2 => r.next() >> r.below(64),
        3 => u64::MAX << r.below(64),
        _ => r.next(),
    };
    x.to_le_bytes().to_vec()
}
fn k_op() -> Op { Op::Custom { len: Some(8), specials: k_specials, random: k_random } }
fn n_specials() -> Vec<Vec<u8>> {
    [0u16, 1, 2, 3, 4, 5, 6, 7, 8, 9, 10, 15, 16, 17, 31, 32, 33, 63, 64, 65, 127, 128, 129, 255, 256, 519].iter().map(|x| x.to_le_bytes().to_vec()).collect()
}
fn n_random(r: &mut Rng) -> Vec<u8> { (if r.below(4) != 0 { r.below(20) } else { r.below(520) } as u16).to_le_bytes().to_vec() }
fn n_op() -> Op { Op::Custom { len: Some(2), specials: n_specials, random: n_random } }

// ======================================================================
// Relational cases (all groups)
// ======================================================================

const T: u32 = 0xFFFF_FFFF;

fn same<G: Grp>(a: G, b: G, what: &str) -> Result<(), String> {
    let (ea, eb) = (a.enc(), b.enc());
    let (e1, e2) = (a.eq_raw(b), b.eq_raw(a));
    if ea == eb && e1 == T && e2 == T { Ok(()) } else {
        Err(format!("{}: {} vs {} (equals={:08x}/{:08x})", what, hex(&ea), hex(&eb), e1, e2))
    }
}
fn same_all<G: Grp>(a: G, v: Vec<G>, what: &str) -> Result<(), String> {
    for (i, b) in v.into_iter().enumerate() { same(a, b, &format!("{} (variant {})", what, i))?; }
    Ok(())
}
fn neutral_enc<G: Grp>() -> Vec<u8> { G::neutral().enc() }
fn must_be_neutral<G: Grp>(a: G, what: &str) -> Result<(), String> {
    let e = a.enc();
    chk(a.isneutral_raw() == T && e == neutral_enc::<G>() && a.eq_raw(G::neutral()) == T && G::neutral().eq_raw(a) == T,
        || format!("{}: expected neutral, got {} (isneutral={:08x})", what, hex(&e), a.isneutral_raw()))
}
/// results remain valid operands: canonical encoding of the right length that decodes back to the same element
fn valid<G: Grp>(a: G, what: &str) -> Result<(), String> {
    let e = a.enc();
    chk(e.len() == G::ELEN, || format!("{}: encoding length {}", what, e.len()))?;
    let n = a.isneutral_raw();
    chk(n == 0 || n == T, || format!("{}: isneutral returned {:08x}", what, n))?;
    // the internal representation must be usable in further operations (e.g. not (0:0:0))
    let b = G::base();
    same(a.add(b).sub(b), a, &format!("{}: (R+B)-B vs R", what))?;
    same(b.add(a).sub(a), b, &format!("{}: (B+R)-R vs B", what))?;
    if n == T && !G::NEUTRAL_DECODES { return chk(e == neutral_enc::<G>(), || format!("{}: neutral encodes as {}", what, hex(&e))); }
    match G::dec(&e) {
        None => Err(format!("{}: result encoding {} does not decode", what, hex(&e))),
        Some(d) => chk(d.enc() == e && d.eq_raw(a) == T, || format!("{}: decode(encode(R)) != R for {}", what, hex(&e))),
    }
}
fn dbladd<G: Grp>(P: G, le: &[u8]) -> G {
    let mut acc = G::neutral();
    for i in (0..le.len() * 8).rev() {
        acc = acc.dbl();
        if (le[i >> 3] >> (i & 7)) & 1 != 0 { acc = acc.add(P); }
    }
    acc
}
fn two_points<G: Grp>(inp: &[u8], tors: bool) -> Result<Option<(G, G, u8)>, String> {
    let n = 1 + G::PLEN;
    if inp.len() != 2 * n + 1 { return Ok(None); }
    let P = build::<G>(&inp[..n], tors)?;
    let Q0 = build::<G>(&inp[n..2 * n], tors)?;
    let rel = inp[2 * n] % NREL;
    Ok(Some((P, related(P, Q0, rel), rel)))
}

fn c_add_relations<G: Grp>(inp: &[u8]) -> Result<(), String> {
    let (P, Q, rel) = match two_points::<G>(inp, true)? { Some(t) => t, None => return Ok(()) };
    let N = G::neutral();
    let S = P.add(Q);
    same_all(S, P.add_variants(Q), "P+Q operator forms")?;
    same(S, Q.add(P), "P+Q vs Q+P")?;
    same(S.sub(Q), P, "(P+Q)-Q vs P")?;
    same(S.sub(P), Q, "(P+Q)-P vs Q")?;
    let D = P.sub(Q);
    same_all(D, P.sub_variants(Q), "P-Q operator forms")?;
    same(D, P.add(Q.neg()), "P-Q vs P+(-Q)")?;
    same(D.add(Q), P, "(P-Q)+Q vs P")?;
    same(D.neg(), Q.sub(P), "-(P-Q) vs Q-P")?;
    must_be_neutral(P.add(P.neg()), "P+(-P)")?;
    must_be_neutral(P.sub(P), "P-P")?;
    must_be_neutral(P.neg().add(P), "(-P)+P")?;
    same(P.add(N), P, "P+0")?;
    same(N.add(P), P, "0+P")?;
    same(P.sub(N), P, "P-0")?;
    same(N.sub(P), P.neg(), "0-P vs -P")?;
    same(P.neg().neg(), P, "-(-P)")?;
    same_all(P.neg(), P.neg_variants(), "-P forms")?;
    must_be_neutral(N.neg(), "-0")?;
    match rel {
        1 | 3 => { same(S, P.dbl(), "P+P' (P'==P) vs double(P)")?; must_be_neutral(D, "P-P'")?; }
        2 | 4 => { must_be_neutral(S, "P+(-P)'")?; same(D, P.dbl(), "P-(-P) vs double(P)")?; }
        5 => { same(S, P.dbl().add(P), "P+2P vs 2P+P")?; same(D, P.neg(), "P-2P vs -P")?; }
        _ => {}
    }
    valid(S, "P+Q")?;
    valid(D, "P-Q")
}

fn c_double_relations<G: Grp>(inp: &[u8]) -> Result<(), String> {
    let n = 1 + G::PLEN;
    if inp.len() != n + 2 { return Ok(()); }
    let P = build::<G>(&inp[..n], true)?;
    let cnt = (u16::from_le_bytes([inp[n], inp[n + 1]]) % 520) as u32;
    let D = P.dbl();
    same(D, P.add(P), "double(P) vs P+P")?;
    same_all(D, P.dbl_variants(), "set_double")?;
    let X = P.xdbl(cnt);
    let mut Y = P;
    for _ in 0..cnt { Y = Y.dbl(); }
    same(X, Y, &format!("xdouble(P,{}) vs successive doublings", cnt))?;
    same_all(X, P.xdbl_variants(cnt), "set_xdouble")?;
    same(P.xdbl(0), P, "xdouble(P,0)")?;
    same(P.xdbl(1), D, "xdouble(P,1)")?;
    let (a, b) = (cnt / 3, cnt - cnt / 3);
    same(P.xdbl(a).xdbl(b), X, "xdouble(xdouble(P,a),b) vs xdouble(P,a+b)")?;
    same(P.neg().xdbl(cnt), X.neg(), "xdouble(-P,n) vs -xdouble(P,n)")?;
    must_be_neutral(G::neutral().dbl(), "double(0)")?;
    must_be_neutral(G::neutral().xdbl(cnt), "xdouble(0,n)")?;
    valid(D, "double(P)")?;
    valid(X, "xdouble(P,n)")
}

fn c_assoc<G: Grp>(inp: &[u8]) -> Result<(), String> {
    let n = 1 + G::PLEN;
    if inp.len() != 3 * n { return Ok(()); }
    let P = build::<G>(&inp[..n], true)?;
    let Q = build::<G>(&inp[n..2 * n], true)?;
    let R = build::<G>(&inp[2 * n..], true)?;
    let S = P.add(Q).add(R);
    same(S, P.add(Q.add(R)), "(P+Q)+R vs P+(Q+R)")?;
    same(S, R.add(P).add(Q), "(P+Q)+R vs (R+P)+Q")?;
    same(P.add(Q).sub(R), P.add(Q.sub(R)), "(P+Q)-R vs P+(Q-R)")?;
    same(P.add(Q).dbl(), P.dbl().add(Q.dbl()), "2(P+Q) vs 2P+2Q")?;
    same(P.sub(Q).sub(R), P.sub(Q.add(R)), "(P-Q)-R vs P-(Q+R)")?;
    valid(S, "(P+Q)+R")
}

fn c_mul_small<G: Grp>(inp: &[u8]) -> Result<(), String> {
    let n = 1 + G::PLEN;
    if inp.len() != n + 8 { return Ok(()); }
    let P = build::<G>(&inp[..n], true)?;
    let k = u64::from_le_bytes(inp[n..].try_into().unwrap());
    let M = P.mulk(k);
    same_all(M, P.mulk_variants(k), "P*k operator forms")?;
    same(M, dbladd(P, &k.to_le_bytes()), &format!("P*{} vs double-and-add", k))?;
    if k <= 40 {
        let mut acc = G::neutral();
        for _ in 0..k { acc = acc.add(P); }
        same(M, acc, &format!("P*{} vs repeated addition", k))?;
    }
    same(M, P.mul(&G::sc_u64(k)), &format!("P*{} (u64) vs P*Scalar({})", k, k))?;
    same(P.neg().mulk(k), M.neg(), "(-P)*k vs -(P*k)")?;
    valid(M, "P*k")
}

fn c_mul_vs_dbladd<G: Grp>(inp: &[u8]) -> Result<(), String> {
    let n = 1 + G::PLEN;
    if inp.len() != n + G::SLEN { return Ok(()); }
    let P = build::<G>(&inp[..n], true)?;
    let s = G::sc(&inp[n..]);
    let bits = G::sc_enc(&s);
    chk(bits.len() == G::SLEN && le_to_int(&bits) == emod(&le_to_int(&inp[n..]), G::order()), || format!("scalar decode_reduce/encode: {}", hex(&bits)))?;
    let M = P.mul(&s);
    // all operator forms end in the same set_mul(); check two of them per evaluation, selected by the input
    let h = inp.iter().fold(0usize, |a, &b| a.wrapping_mul(31).wrapping_add(b as usize));
    same_all(M, P.mul_variants(&s, h), "P*n operator forms")?;
    same(M, dbladd(P, &bits), "P*n vs double-and-add")?;
    valid(M, "P*n")
}

fn c_mulgen_vs_dbladd<G: Grp>(inp: &[u8]) -> Result<(), String> {
    if inp.len() != G::SLEN { return Ok(()); }
    let s = G::sc(inp);
    let bits = G::sc_enc(&s);
    let M = G::mulgen(&s);
    same_all(M, G::mulgen_variants(&s, G::base().dbl()), "set_mulgen")?;
    same(M, dbladd(G::base(), &bits), "mulgen(n) vs double-and-add on BASE")?;
    same(M, G::base().mul(&s), "mulgen(n) vs BASE*n")?;
    same(G::mulgen(&G::sc_neg(&s)), M.neg(), "mulgen(-n) vs -mulgen(n)")?;
    valid(M, "mulgen(n)")
}

fn c_mul_homomorphism<G: Grp>(inp: &[u8]) -> Result<(), String> {
    let n = 1 + G::PLEN;
    if inp.len() != n + 2 * G::SLEN { return Ok(()); }
    let P = build::<G>(&inp[..n], false)?; // prime-order subgroup only: scalars are integers modulo the order
    let a = G::sc(&inp[n..n + G::SLEN]);
    let b = G::sc(&inp[n + G::SLEN..]);
    let Pa = P.mul(&a);
    // three groups of identities (to keep one evaluation cheap); the group is selected by the input
    let h = inp.iter().fold(0usize, |x, &y| x.wrapping_mul(31).wrapping_add(y as usize));
    match h % 3 {
        0 => {
            let Pab = Pa.mul(&b);
            same(Pab, P.mul(&G::sc_mul(&a, &b)), "(P*a)*b vs P*(a*b)")?;
            same(Pab, P.mul(&b).mul(&a), "(P*a)*b vs (P*b)*a")?;
            same(G::mulgen(&a).mul(&b), G::mulgen(&G::sc_mul(&a, &b)), "mulgen(a)*b vs mulgen(a*b)")
        }
        1 => {
            let Pb = P.mul(&b);
            same(P.mul(&G::sc_add(&a, &b)), Pa.add(Pb), "P*(a+b) vs P*a+P*b")?;
            same(P.mul(&G::sc_sub(&a, &b)), Pa.sub(Pb), "P*(a-b) vs P*a-P*b")?;
            same(P.mul(&G::sc_u64(1)), P, "P*1")?;
            must_be_neutral(P.mul(&G::sc_u64(0)), "P*0")
        }
        _ => {
            same(P.mul(&G::sc_neg(&a)), Pa.neg(), "P*(-a) vs -(P*a)")?;
            same(P.neg().mul(&a), Pa.neg(), "(-P)*a vs -(P*a)")?;
            must_be_neutral(G::neutral().mul(&a), "0*a")?;
            must_be_neutral(P.sub(P).mul(&a), "(P-P)*a")?;
            same(P.mul(&G::sc_neg(&G::sc_u64(1))), P.neg(), "P*(order-1) vs -P")
        }
    }
}

fn c_encode_equals<G: Grp>(inp: &[u8]) -> Result<(), String> {
    let (P, Q, rel) = match two_points::<G>(inp, true)? { Some(t) => t, None => return Ok(()) };
    let (eP, eQ) = (P.enc(), Q.enc());
    chk(eP.len() == G::ELEN && eQ.len() == G::ELEN, || "encoding length".to_string())?;
    let (e1, e2) = (P.eq_raw(Q), Q.eq_raw(P));
    chk((e1 == 0 || e1 == T) && e1 == e2, || format!("equals returned {:08x}/{:08x}", e1, e2))?;
    chk((e1 == T) == (eP == eQ), || format!("equals={:08x} but encodings {} / {}", e1, hex(&eP), hex(&eQ)))?;
    chk(P.eq_raw(P) == T, || "equals(P,P) is false".to_string())?;
    if let (Some(aP), Some(aQ)) = (P.enc_alt(), Q.enc_alt()) {
        chk((e1 == T) == (aP == aQ), || format!("equals={:08x} but compressed encodings {} / {}", e1, hex(&aP), hex(&aQ)))?;
    }
    for (X, eX) in [(P, &eP), (Q, &eQ)] {
        let nn = X.isneutral_raw();
        chk(nn == 0 || nn == T, || format!("isneutral returned {:08x}", nn))?;
        chk((nn == T) == (*eX == neutral_enc::<G>()), || format!("isneutral={:08x} for encoding {}", nn, hex(eX)))?;
        chk((nn == T) == (X.eq_raw(G::neutral()) == T), || format!("isneutral={:08x} but equals(NEUTRAL) disagrees for {}", nn, hex(eX)))?;
        valid(X, "operand")?;
        if let Some(aX) = X.enc_alt() {
            // SEC 1: compressed = (2 | lsb(y)) || x ; both formats decode to the same point
            if nn == T {
                chk(aX.iter().all(|&b| b == 0) && eX.iter().all(|&b| b == 0), || "neutral fixed-length encodings must be all-zero".to_string())?;
                chk(G::dec(&aX).is_none() && G::dec(eX).is_none(), || "all-zero fixed-length encoding accepted by decode".to_string())?;
                match G::dec(&[0u8]) { Some(z) => must_be_neutral(z, "decode([0x00])")?, None => return Err("decode([0x00]) rejected".into()) }
            } else {
                chk(aX[0] == (2 | (eX[64] & 1)) && aX[1..] == eX[1..33] && eX[0] == 4, || format!("compressed {} vs uncompressed {}", hex(&aX), hex(eX)))?;
                match G::dec(&aX) { Some(d) => same(d, X, "decode(encode_compressed(P)) vs P")?, None => return Err(format!("compressed encoding {} does not decode", hex(&aX))) }
            }
        }
    }
    match rel {
        1 | 3 => chk(e1 == T, || format!("same point in two representations compares unequal: {} / {}", hex(&eP), hex(&eQ)))?,
        2 | 4 => chk((e1 == T) == (eP == P.neg().enc()), || "equals(P,-P) inconsistent".to_string())?,
        _ => {}
    }
    Ok(())
}

/// decode() accepts exactly the inputs accepted by the reference decoder, and decoding is canonical
fn c_decode_strict<G: Grp>(oracle: Option<&dyn Fn(&[u8]) -> bool>, inp: &[u8]) -> Result<(), String> {
    let got = G::dec(inp);
    let mut t = G::base();
    let r = t.set_dec(inp);
    chk(r == 0 || r == T, || format!("set_decode returned {:08x}", r))?;
    chk((r == T) == got.is_some(), || "decode and set_decode disagree".to_string())?;
    if let Some(o) = oracle {
        let want = o(inp);
        chk(want == got.is_some(), || format!("decode {} an input that the reference decoder {}", if got.is_some() { "accepted" } else { "rejected" }, if want { "accepts" } else { "rejects" }))?;
    }
    match got {
        Some(P) => {
            same(P, t, "decode vs set_decode")?;
            let e = P.reencode_like(inp);
            chk(e == inp, || format!("accepted encoding is not canonical: re-encodes as {}", hex(&e)))?;
            valid(P, "decoded point")
        }
        None => must_be_neutral(t, "set_decode failure must leave the neutral"),
    }
}

// ======================================================================
// Inputs for the decoders
// ======================================================================

fn ws_ref_for<G: Grp>() -> WsRef { if G::NAME == "p256" { WsRef::p256() } else { WsRef::secp256k1() } }

/// boundary values of a coordinate (field modulus p, `bits` = size of the coordinate slot in bits)
fn coord_values(p: &BigInt, bits: u32) -> Vec<BigInt> {
    let mut v: Vec<BigInt> = (0..6).map(bi).collect();
    for d in -3i64..=3 { v.push(p + bi(d)); }
    v.push((p - bi(1)) / bi(2)); v.push((p + bi(1)) / bi(2));
    v.push(pow2(bits) - bi(1)); v.push(pow2(bits - 1)); v.push(pow2(bits - 1) - bi(1));
    v.retain(|x| x < &pow2(bits) && x.sign() != Sign::Minus);
    v
}
fn valid_encodings<G: Grp>(pts: &[G]) -> Vec<Vec<u8>> {
    let mut v = Vec::new();
    for p in pts { v.push(p.enc()); if let Some(a) = p.enc_alt() { v.push(a); } }
    v
}
fn mutate_structural<G: Grp>(e: &[u8], which: u64) -> Vec<u8> {
    let mut m = e.to_vec();
    let n = m.len();
    match which % 10 {
        0 => { if n > 0 { m[n - 1] ^= 0x80; } }
        1 => { if n > 0 { m[0] ^= 0x01; } }
        2 => { m.pop(); }
        3 => { m.push(0); }
        4 => { m.push(0x80); }
        5 => { if n > 0 { m[0] ^= 0x04; } }
        6 => { if n > 0 { m[0] ^= 0x02; } }
        7 => { if n > 16 { m[15] ^= 0x80; } }
        8 => { if n > 0 { m[n - 1] ^= 0x40; } }
        _ => { if n > 0 { m[n - 1] ^= 0x01; } }
    }
    m
}
fn dec_specials<G: Grp>() -> Vec<Vec<u8>> {
    let mut v: Vec<Vec<u8>> = Vec::new();
    let mut lens = vec![0usize, 1, G::ELEN - 1, G::ELEN, G::ELEN + 1];
    if G::KIND == KIND_WS { lens.extend([32, 33, 34, 64, 66]); }
    for n in lens { v.push(vec![0u8; n]); v.push(vec![0xFFu8; n]); if n > 0 { let mut w = vec![0u8; n]; w[0] = 1; v.push(w); let mut w = vec![0u8; n]; w[n - 1] = 0x80; v.push(w); } }
    let b = G::base();
    let mut pts = vec![b, b.dbl(), b.dbl().add(b), b.neg(), G::neutral(), b.xdbl(7)];
    for k in 0..G::torsion_encs().len() { if let Some(t) = torsion_pt::<G>(k) { pts.push(t); pts.push(t.add(b)); } }
    for e in valid_encodings(&pts) {
        v.push(e.clone());
        for w in 0..10 { v.push(mutate_structural::<G>(&e, w)); }
    }
    if let Some(p) = G::field_p() {
        match G::KIND {
            KIND_ED25519 | KIND_LE255 => for x in coord_values(&p, 255) { let mut e = int_to_le(&x, 32); v.push(e.clone()); e[31] |= 0x80; v.push(e); },
            KIND_ED448 => for x in coord_values(&p, 448) { for top in [0u8, 0x80, 0x01, 0x40, 0x7F, 0xFF] { let mut e = int_to_le(&x, 56); e.push(top); v.push(e); } },
            KIND_DECAF => for x in coord_values(&p, 448) { v.push(int_to_le(&x, 56)); },
            KIND_WS => {
                let ws = ws_ref_for::<G>();
                for x in coord_values(&p, 256) {
                    for pre in [0u8, 1, 2, 3, 4, 5, 6, 7, 0xFF] { let mut e = vec![pre]; e.extend(int_to_be(&x, 32)); v.push(e); }
                    for y in [bi(0), bi(1), &p - bi(1)] { let mut e = vec![4u8]; e.extend(int_to_be(&x, 32)); e.extend(int_to_be(&y, 32)); v.push(e); }
                }
                // on-curve points with small x: canonical and non-canonical (x+p, y+p) coordinates, hybrid format, -y
                let mut found = 0;
                for xi in 0..200 {
                    let x = bi(xi);
                    if let Some(y) = ws.f.sqrt(&ws.rhs(&x)) {
                        found += 1;
                        let ny = ws.f.neg(&y);
                        for (xx, yy) in [(x.clone(), y.clone()), (x.clone(), ny.clone()), (&x + &p, y.clone())] {
                            if xx >= pow2(256) { continue; }
                            for pre in [2u8, 3] { let mut e = vec![pre]; e.extend(int_to_be(&xx, 32)); v.push(e); }
                            for pre in [4u8, 6, 7] { let mut e = vec![pre]; e.extend(int_to_be(&xx, 32)); e.extend(int_to_be(&yy, 32)); v.push(e); }
                        }
                        if found >= 3 { break; }
                    }
                }
                for one in [0u8, 1, 2, 3, 4, 0x80, 0xFF] { v.push(vec![one]); }
            }
            _ => {}
        }
    }
    if G::KIND == KIND_GLS {
        for e in valid_encodings(&[b, b.dbl()]) { let mut m = e.clone(); m[15] |= 0x80; v.push(m); let mut m = e.clone(); m[31] |= 0x80; v.push(m); }
        for x in [1u8, 2, 3] { let mut m = vec![0u8; 32]; m[0] = x; v.push(m.clone()); m[0] = 0; m[16] = x; v.push(m); }
    }
    v
}
fn dec_random<G: Grp>(r: &mut Rng) -> Vec<u8> {
    let valid_one = |r: &mut Rng| -> Vec<u8> {
        let s = G::sc(&sc_random::<G>(r));
        let mut p = G::mulgen(&s);
        if r.below(4) == 0 { if let Some(t) = torsion_pt::<G>(r.below(8) as usize) { p = p.add(t); } }
        match (r.below(2), p.enc_alt()) { (0, Some(a)) => a, _ => p.enc() }
    };
    match r.below(10) {
        0 | 1 | 2 => valid_one(r),
        3 | 4 => { let mut e = valid_one(r); let i = r.below(8 * e.len() as u64) as usize; e[i >> 3] ^= 1 << (i & 7); e }
        5 => { let e = valid_one(r); mutate_structural::<G>(&e, r.next()) }
        6 => {
            // coordinate near the field modulus / small, in the right slot
            match G::field_p() {
                None => rand_bytes(r, G::ELEN),
                Some(p) => {
                    let bits = match G::KIND { KIND_ED448 | KIND_DECAF => 448, KIND_WS => 256, _ => 255 };
                    let x = match r.below(3) { 0 => bi(r.below(1 << 20) as i64), 1 => &p + bi(r.below(1 << 20) as i64), _ => &p - bi(r.below(64) as i64) };
                    let x = if x >= pow2(bits) { x % pow2(bits) } else { x };
                    match G::KIND {
                        KIND_ED448 => { let mut e = int_to_le(&x, 56); e.push(if r.below(2) == 0 { 0 } else { 0x80 }); e }
                        KIND_DECAF => int_to_le(&x, 56),
                        KIND_WS => { let mut e = vec![2u8 | (r.below(2) as u8)]; e.extend(int_to_be(&x, 32)); e }
                        _ => { let mut e = int_to_le(&x, 32); if r.below(4) == 0 { e[31] |= 0x80; } e }
                    }
                }
            }
        }
        7 => {
            let mut e = rand_bytes(r, G::ELEN);
            match G::KIND {
                KIND_WS => { e[0] = [2u8, 3, 4, 4][r.below(4) as usize]; if e[0] != 4 { e.truncate(33); } }
                KIND_ED448 => { e[56] &= 0x80; }
                KIND_GLS => { e[15] &= 0x7F; e[31] &= 0x7F; }
                KIND_ED25519 => {}
                _ => { e[G::ELEN - 1] &= 0x7F; if G::KIND == KIND_DECAF || G::NAME == "ristretto255" { e[0] &= 0xFE; } }
            }
            e
        }
        8 => rand_bytes(r, G::ELEN),
        _ => { let n = r.below(G::ELEN as u64 + 3) as usize; rand_bytes(r, n) }
    }
}
fn dec_op<G: Grp>() -> Op { Op::Custom { len: None, specials: dec_specials::<G>, random: dec_random::<G> } }

// ======================================================================
// Cases against the affine big-integer references
// ======================================================================

fn to_ref<G: Grp, R: RefGrp>(rf: &R, P: G, what: &str) -> Result<R::Pt, String> {
    let e = P.enc();
    rf.parse_enc(&e).ok_or_else(|| format!("{}: encoding {} is not a valid point for the reference decoder", what, hex(&e)))
}
fn cmp_ref<G: Grp, R: RefGrp>(rf: &R, got: G, want: &R::Pt, what: &str) -> Result<(), String> {
    let (g, w) = (got.enc(), rf.encode(want));
    chk(g == w, || format!("{}: got {} want {}", what, hex(&g), hex(&w)))
}
fn c_add_affine_ref<G: Grp, R: RefGrp>(rf: &R, inp: &[u8]) -> Result<(), String> {
    let (P, Q, _) = match two_points::<G>(inp, true)? { Some(t) => t, None => return Ok(()) };
    let p = to_ref(rf, P, "P")?;
    let q = to_ref(rf, Q, "Q")?;
    cmp_ref(rf, P.add(Q), &rf.add(&p, &q), "P+Q")?;
    cmp_ref(rf, P.sub(Q), &rf.add(&p, &rf.neg(&q)), "P-Q")
}
fn c_double_ref<G: Grp, R: RefGrp>(rf: &R, inp: &[u8]) -> Result<(), String> {
    let n = 1 + G::PLEN;
    if inp.len() != n + 1 { return Ok(()); }
    let P = build::<G>(&inp[..n], true)?;
    let p = to_ref(rf, P, "P")?;
    cmp_ref(rf, P.neg(), &rf.neg(&p), "-P")?;
    let d = rf.add(&p, &p);
    cmp_ref(rf, P.dbl(), &d, "double(P)")?;
    let nd = (inp[n] & 3) as u32;
    let mut x = p.clone();
    for _ in 0..nd { x = rf.add(&x, &x); }
    cmp_ref(rf, P.xdbl(nd), &x, &format!("xdouble(P,{})", nd))?;
    let k = (inp[n] >> 2) as u64 % 7;
    let mut m = rf.neutral();
    for _ in 0..k { m = rf.add(&m, &p); }
    cmp_ref(rf, P.mulk(k), &m, &format!("P*{}", k))
}
fn byte_specials() -> Vec<Vec<u8>> { (0..28u8).map(|x| vec![x]).collect() }
fn byte_random(r: &mut Rng) -> Vec<u8> { vec![r.next() as u8] }
fn byte_op() -> Op { Op::Custom { len: Some(1), specials: byte_specials, random: byte_random } }

// ======================================================================
// Registration
// ======================================================================

fn reg_relational<G: Grp>(v: &mut Vec<Case>) {
    let c = G::NAME;
    v.push(Case { id: format!("{}_add_relations", c), describe: "C03: P+Q==Q+P, (P+Q)-Q==P, P-Q==P+(-Q), P+(-P)==0, P+0==P, P+P==double(P); all operator forms; results are valid operands",
        ops: vec![pt_op::<G>(), pt_op::<G>(), rel_op()], run: Box::new(|i: &[u8]| c_add_relations::<G>(i)) });
    v.push(Case { id: format!("{}_double_relations", c), describe: "C03: double(P)==P+P, xdouble(P,n)==n successive doublings, double(0)==0",
        ops: vec![pt_op::<G>(), n_op()], run: Box::new(|i: &[u8]| c_double_relations::<G>(i)) });
    v.push(Case { id: format!("{}_assoc", c), describe: "C03: (P+Q)+R==P+(Q+R) and variants",
        ops: vec![pt_op_small::<G>(), pt_op_small::<G>(), pt_op_small::<G>()], run: Box::new(|i: &[u8]| c_assoc::<G>(i)) });
    v.push(Case { id: format!("{}_mul_small", c), describe: "C03: P*k (u64) == binary double-and-add == repeated addition (k<=40) == P*Scalar(k)",
        ops: vec![pt_op::<G>(), k_op()], run: Box::new(|i: &[u8]| c_mul_small::<G>(i)) });
    v.push(Case { id: format!("{}_mul_vs_dbladd", c), describe: "C04: P*n (all operator forms) == double-and-add over the bits of encode(n) using only + and double",
        ops: vec![pt_op::<G>(), sc_op::<G>()], run: Box::new(|i: &[u8]| c_mul_vs_dbladd::<G>(i)) });
    v.push(Case { id: format!("{}_mulgen_vs_dbladd", c), describe: "C04: mulgen(n)/set_mulgen == double-and-add on BASE == BASE*n",
        ops: vec![sc_op::<G>()], run: Box::new(|i: &[u8]| c_mulgen_vs_dbladd::<G>(i)) });
    v.push(Case { id: format!("{}_mul_homomorphism", c), describe: "C04: (P*a)*b==P*(a*b), P*(a+b)==P*a+P*b, P*(-a)==-(P*a), P*0==0, P*1==P, P*(order-1)==-P (P in the prime-order group)",
        ops: vec![pt_op_small::<G>(), sc_op_small::<G>(), sc_op_small::<G>()], run: Box::new(|i: &[u8]| c_mul_homomorphism::<G>(i)) });
    v.push(Case { id: format!("{}_encode_equals", c), describe: "C06: equals(P,Q) <=> encode(P)==encode(Q); isneutral <=> neutral encoding; decode(encode(P))==P; fixed-length neutral encodings (P-256/secp256k1) are all-zero and rejected, 0x00 decodes to neutral",
        ops: vec![pt_op::<G>(), pt_op::<G>(), rel_op()], run: Box::new(|i: &[u8]| c_encode_equals::<G>(i)) });
}
fn reg_ref<G: Grp, R: RefGrp>(v: &mut Vec<Case>, rf: R) {
    let c = G::NAME;
    let rf = Arc::new(rf);
    { let rf = rf.clone();
      v.push(Case { id: format!("{}_add_affine_ref", c), describe: "C03: encode(P+Q), encode(P-Q) == big-integer affine reference group law applied to the decoded operands",
        ops: vec![pt_op::<G>(), pt_op_small::<G>(), rel_op()], run: Box::new(move |i: &[u8]| c_add_affine_ref::<G, R>(&*rf, i)) }); }
    { let rf = rf.clone();
      v.push(Case { id: format!("{}_double_ref", c), describe: "C03: -P, double(P), xdouble(P,n<4), P*k (k<7) == big-integer affine reference",
        ops: vec![pt_op::<G>(), byte_op()], run: Box::new(move |i: &[u8]| c_double_ref::<G, R>(&*rf, i)) }); }
    { let rf = rf.clone();
      v.push(Case { id: format!("{}_decode_strict", c), describe: "C06: decode accepts exactly the canonical encodings of group elements (reference decoder from the specification); accepted inputs re-encode identically; set_decode failure leaves the neutral",
        ops: vec![dec_op::<G>()], run: Box::new(move |i: &[u8]| { let o = |b: &[u8]| rf.decode(b).is_some(); c_decode_strict::<G>(Some(&o), i) }) }); }
}

/// candidate affine coordinates (x LE32 || y LE32) for the Weierstrass API cases
fn xy_of<G: Grp>(p: G) -> Vec<u8> {
    let e = p.enc(); // 04 || x BE || y BE (zeros for the neutral)
    let mut v: Vec<u8> = e[1..33].iter().rev().cloned().collect();
    v.extend(e[33..65].iter().rev());
    v
}
fn xy_specials<G: Grp>() -> Vec<Vec<u8>> {
    let b = G::base();
    let mut v = vec![vec![0u8; 64], vec![0xFFu8; 64]];
    for p in [b, b.neg(), b.dbl(), G::neutral()] {
        let e = xy_of(p);
        v.push(e.clone());
        let mut m = e.clone(); m[0] ^= 1; v.push(m);
        let mut m = e.clone(); m[32] ^= 1; v.push(m);
        let mut m = e.clone(); m[63] ^= 0x80; v.push(m);
    }
    v
}
fn xy_random<G: Grp>(r: &mut Rng) -> Vec<u8> {
    if r.below(4) == 0 { return rand_bytes(r, 64); }
    let mut e = xy_of(G::mulgen(&G::sc(&sc_random::<G>(r))));
    if r.below(3) == 0 { let i = r.below(512) as usize; e[i >> 3] ^= 1 << (i & 7); }
    e
}
fn xy_op<G: Grp>() -> Op { Op::Custom { len: Some(64), specials: xy_specials::<G>, random: xy_random::<G> } }

/// P-256 / secp256k1: affine and projective coordinate API
macro_rules! ws_api_cases {
    ($v:ident, $m:ident, $F:ty, $ws:expr, $neutral_x:expr) => {{
        type P = crrl::$m::Point;
        fn fe(b: &[u8]) -> $F { <$F>::decode_reduce(b) }
        fn fint(x: $F) -> BigInt { le_to_int(&x.encode()) }
        let ops = vec![pt_op::<P>(), Op::Raw(32), xy_op::<P>()];
        let ws = Arc::new($ws);
        { let ws = ws.clone();
          $v.push(Case { id: format!("{}_affine_api", <P as Grp>::NAME), describe: "C06: to_affine/from_affine/to_projective/from_projective agree with encode_uncompressed and with the curve equation; any non-zero rescaling of (X:Y:Z) is the same point; (X:Y:0) is the neutral",
            ops: ops.clone(), run: Box::new(move |inp: &[u8]| {
                let n = 1 + <P as Grp>::PLEN;
                if inp.len() != n + 96 { return Ok(()); }
                let pt = build::<P>(&inp[..n], true)?;
                let lam = fe(&inp[n..n + 32]);
                let (cx, cy) = (fe(&inp[n + 32..n + 64]), fe(&inp[n + 64..n + 96]));
                let e = pt.encode_uncompressed();
                let (x, y, _) = pt.to_affine();
                if pt.isneutral() == T {
                    chk(fint(x) == bi($neutral_x) && is0(&fint(y)), || format!("to_affine(neutral) = ({}, {})", fint(x), fint(y)))?;
                } else {
                    chk(int_to_be(&fint(x), 32) == e[1..33] && int_to_be(&fint(y), 32) == e[33..65], || "to_affine vs encode_uncompressed".to_string())?;
                    match P::from_affine(x, y) { Some(q) => same(q, pt, "from_affine(to_affine(P)) vs P")?, None => return Err("from_affine rejected to_affine(P)".into()) }
                    let mut q = P::BASE;
                    chk(q.set_affine(x, y) == T, || "set_affine rejected to_affine(P)".to_string())?;
                    same(q, pt, "set_affine(to_affine(P)) vs P")?;
                }
                let (px, py, pz) = pt.to_projective();
                chk((pz.iszero() == T) == (pt.isneutral() == T) && py.iszero() == 0, || "to_projective: Z==0 <=> neutral, Y != 0".to_string())?;
                match P::from_projective(px, py, pz) { Some(q) => same(q, pt, "from_projective(to_projective(P)) vs P")?, None => return Err("from_projective rejected to_projective(P)".into()) }
                if lam.iszero() == 0 {
                    match P::from_projective(px * lam, py * lam, pz * lam) {
                        Some(q) => { same(q, pt, "from_projective(l*X,l*Y,l*Z) vs P")?; same(q.add(pt), pt.dbl(), "rescaled P + P vs double(P)")?; must_be_neutral(q.sub(pt), "rescaled P - P")?; }
                        None => return Err("from_projective rejected a rescaled representation".into()),
                    }
                }
                match P::from_projective(cx, cy, <$F>::ZERO) { Some(q) => { must_be_neutral(q, "from_projective(X,Y,0)")?; same(q.add(pt), pt, "(X:Y:0)+P vs P")?; } None => return Err("from_projective(X,Y,0) rejected".into()) }
                // arbitrary candidate coordinates: accepted iff on the curve (big-integer check)
                let on = ws.on_curve(&fint(cx), &fint(cy));
                let mut q = P::BASE;
                let r = q.set_affine(cx, cy);
                chk(r == (if on { T } else { 0 }) && P::from_affine(cx, cy).is_some() == on, || format!("set_affine({}, {}) returned {:08x}, on curve: {}", fint(cx), fint(cy), r, on))?;
                if !on { must_be_neutral(q, "set_affine failure must leave the neutral")?; } else {
                    let mut w = vec![4u8]; w.extend(int_to_be(&fint(cx), 32)); w.extend(int_to_be(&fint(cy), 32));
                    chk(q.encode_uncompressed()[..] == w[..], || "set_affine point encodes differently".to_string())?;
                }
                if lam.iszero() == 0 {
                    let mut q = P::BASE;
                    let r = q.set_projective(cx * lam, cy * lam, lam);
                    chk(r == (if on { T } else { 0 }), || format!("set_projective returned {:08x}, on curve: {}", r, on))?;
                    if !on { must_be_neutral(q, "set_projective failure must leave the neutral")?; }
                }
                Ok(())
            }) }); }
        $v.push(Case { id: format!("{}_to_affine_flag", <P as Grp>::NAME), describe: "C06: to_affine() third output: 0x00000000 for the neutral, 0xFFFFFFFF otherwise (as documented)",
            ops: vec![pt_op::<P>()], run: Box::new(move |inp: &[u8]| {
                let n = 1 + <P as Grp>::PLEN;
                if inp.len() != n { return Ok(()); }
                let pt = build::<P>(inp, true)?;
                let (_, _, r) = pt.to_affine();
                let want = if pt.encode_uncompressed()[0] == 0 { 0 } else { T };
                chk(r == want, || format!("to_affine flag {:08x}, documented {:08x} (point {})", r, want, hex(&pt.encode_compressed())))
            }) });
    }};
}


// =====================================================================================================================
// C10: the variable-time public-data routines against the plain constant-time operations
// =====================================================================================================================
trait Fast: Grp {
    /// log2 of the cofactor that verify_helper_vartime multiplies the equation by (0 when it tests equality of group elements)
    const COF_LOG2: u32;
    /// which optional entry points the curve has: constants, so that registering the cases runs no library code
    const HAS_HELPER: bool = false;
    const HAS_M128: bool = false;
    const HAS_M64MU: bool = false;
    fn mamg(self, u: &Self::S, v: &Self::S) -> Self;
    fn helper(self, _r: &Self, _s: &Self::S, _k: &Self::S) -> Option<bool> { None }
    fn m128(self, _u: u128, _v: &Self::S) -> Option<Self> { None }
    fn m64mu(self, _u0: u64, _u1: u64, _v: &Self::S) -> Option<Self> { None }
    fn sc_u128(x: u128) -> Self::S;
}
macro_rules! impl_fast {
    ($m:ident, $cof:expr, { $($extra:tt)* }) => {
        impl Fast for crrl::$m::Point {
            const COF_LOG2: u32 = $cof;
            fn mamg(self, u: &Self::S, v: &Self::S) -> Self { self.mul_add_mulgen_vartime(u, v) }
            fn sc_u128(x: u128) -> Self::S { crrl::$m::Scalar::from_u128(x) }
            $($extra)*
        }
    };
}
macro_rules! fast_helper { () => { const HAS_HELPER: bool = true; fn helper(self, r: &Self, s: &Self::S, k: &Self::S) -> Option<bool> { Some(self.verify_helper_vartime(r, s, k)) } }; }
macro_rules! fast_m128 { () => { const HAS_M128: bool = true; fn m128(self, u: u128, v: &Self::S) -> Option<Self> { Some(self.mul128_add_mulgen_vartime(u, v)) } }; }
impl_fast!(ed25519, 3, { fast_helper!(); });
impl_fast!(ed448, 2, { fast_helper!(); });
impl_fast!(p256, 0, { fast_helper!(); });
impl_fast!(secp256k1, 0, { fast_helper!(); });
impl_fast!(ristretto255, 0, { fast_helper!(); });
impl_fast!(decaf448, 0, { fast_helper!(); });
impl_fast!(jq255e, 0, { fast_m128!(); });
impl_fast!(jq255s, 0, { fast_m128!(); });
impl_fast!(gls254, 0, { const HAS_M64MU: bool = true; fn m64mu(self, u0: u64, u1: u64, v: &Self::S) -> Option<Self> { Some(self.mul64mu_add_mulgen_vartime(u0, u1, v)) } });

/// integers whose halves / low words are all-zero or all-one: what the negation and carry code of the split multipliers sees
fn frac_parts() -> Vec<BigInt> {
    let mut v: Vec<BigInt> = Vec::new();
    for j in [0usize, 1, 2, 31, 32, 63, 64, 65, 96, 112, 120, 126, 127, 128, 129, 130, 160, 191, 192, 193, 200, 222, 223, 224] {
        let p = pow2(j as u32);
        v.push(p.clone()); v.push(-p.clone()); v.push(&p + bi(1)); v.push(-(&p + bi(1))); v.push(&p - bi(1)); v.push(-(&p - bi(1)));
    }
    for t in [3i64, 5, 0x1_0000_0001] { for j in [64usize, 128, 192] { v.push(bi(t) * pow2(j as u32)); v.push(-(bi(t) * pow2(j as u32))); } }
    v.push(pow2(128) + pow2(64)); v.push(-(pow2(128) + pow2(64))); v.push(pow2(192) + pow2(128)); v.push(-(pow2(192) + pow2(128)));
    v.retain(|x| *x != bi(0));
    v
}
fn modinv(a: &BigInt, n: &BigInt) -> BigInt { emod(a, n).modpow(&(n - bi(2)), n) }
/// scalars k = c0/c1 mod n with c0, c1 taken from frac_parts (the rational reconstruction of k returns such pairs)
fn frac_specials<G: Grp>() -> Vec<Vec<u8>> {
    let n = G::order();
    let parts = frac_parts();
    let mut out: Vec<Vec<u8>> = sc_specials::<G>();
    let small: Vec<BigInt> = vec![bi(1), bi(-1), bi(2), bi(-3), pow2(64), -pow2(64), pow2(127), -pow2(128)];
    for c1 in parts.iter() {
        if emod(c1, n) == bi(0) { continue; }
        let i1 = modinv(c1, n);
        for c0 in small.iter() { out.push(int_to_le_trunc(&emod(&(c0 * &i1), n), G::SLEN)); }
    }
    for c0 in parts.iter() { for c1 in small.iter() { out.push(int_to_le_trunc(&emod(&(c0 * modinv(c1, n)), n), G::SLEN)); } }
    out
}
fn frac_random<G: Grp>(r: &mut Rng) -> Vec<u8> {
    if r.below(3) == 0 { return sc_random::<G>(r); }
    let n = G::order();
    let parts = frac_parts();
    let pick = |r: &mut Rng| -> BigInt {
        match r.below(3) {
            0 => parts[r.below(parts.len() as u64) as usize].clone(),
            1 => { let x = structured_int(r, 200); if r.below(2) == 0 { x } else { -x } }
            _ => { let hi = structured_int(r, 90); let j = [64u32, 128, 192][r.below(3) as usize]; let x = hi * pow2(j); if r.below(2) == 0 { x } else { -x } }
        }
    };
    let (c0, mut c1) = (pick(r), pick(r));
    if emod(&c1, n) == bi(0) { c1 = bi(1); }
    int_to_le_trunc(&emod(&(c0 * modinv(&c1, n)), n), G::SLEN)
}
fn frac_op<G: Grp>() -> Op { Op::Custom { len: Some(G::SLEN), specials: frac_specials::<G>, random: frac_random::<G> } }

fn c_mul_add_mulgen_vartime<G: Fast>(inp: &[u8]) -> Result<(), String> {
    let n = 1 + G::PLEN;
    if inp.len() != n + 2 * G::SLEN { return Ok(()); }
    let P = build::<G>(&inp[..n], false)?;
    let u = G::sc(&inp[n..n + G::SLEN]);
    let v = G::sc(&inp[n + G::SLEN..]);
    let got = P.mamg(&u, &v);
    same(got, P.mul(&u).add(G::mulgen(&v)), "mul_add_mulgen_vartime(u, v) vs P*u + mulgen(v)")?;
    valid(got, "mul_add_mulgen_vartime")
}
fn c_verify_helper_vartime<G: Fast>(inp: &[u8]) -> Result<(), String> {
    let n = 1 + G::PLEN;
    if inp.len() != n + 2 * G::SLEN + 2 { return Ok(()); }
    // with a cofactored test the public key and R may carry torsion
    let A = build::<G>(&inp[..n], G::COF_LOG2 > 0)?;
    let k = G::sc(&inp[n..n + G::SLEN]);
    let s = G::sc(&inp[n + G::SLEN..n + 2 * G::SLEN]);
    let delta = inp[n + 2 * G::SLEN] % 4;
    let tsel = inp[n + 2 * G::SLEN + 1] as usize;
    // R = s*B - k*A + delta*B (+ a torsion point when the test is cofactored): the equation holds iff delta == 0
    let mut R = G::mulgen(&s).sub(A.mul(&k)).add(G::base().mulk(delta as u64));
    if G::COF_LOG2 > 0 && tsel % 3 == 1 { if let Some(t) = torsion_pt::<G>(tsel / 3) { R = R.add(t); } }
    let got = match A.helper(&R, &s, &k) { Some(x) => x, None => return Ok(()) };
    // reference with the plain operations
    let t = G::mulgen(&s).sub(R).sub(A.mul(&k)).xdbl(G::COF_LOG2);
    let want = t.isneutral_raw() == T;
    if want != (delta == 0) { return Err(format!("reference inconsistent: delta={} want={}", delta, want)); }
    if got != want { return Err(format!("verify_helper_vartime returned {} but [2^{}](s*B - R - k*A) is {}the neutral (k = {}, s = {})", got, G::COF_LOG2, if want { "" } else { "not " }, hex(&G::sc_enc(&k)), hex(&G::sc_enc(&s)))); }
    Ok(())
}
fn u128_specials() -> Vec<Vec<u8>> {
    let mut v: Vec<u128> = vec![0, 1, 2, 3, 15, 16, 17, 31, 32, 33, u128::MAX, u128::MAX - 1, 1 << 127, (1 << 127) - 1, (1 << 127) + 1, 1 << 64, (1 << 64) - 1, (1 << 64) + 1,
        0xAAAA_AAAA_AAAA_AAAA_AAAA_AAAA_AAAA_AAAA, 0x5555_5555_5555_5555_5555_5555_5555_5555, 0xFFFF_FFFF_FFFF_FFFF_0000_0000_0000_0000, 0x8000_0000_0000_0000_8000_0000_0000_0000];
    for j in [5u32, 60, 63, 65, 100, 120, 124, 125, 126] { v.push(1u128 << j); v.push((1u128 << j) - 1); v.push(u128::MAX - ((1u128 << j) - 1)); v.push(u128::MAX << j); }
    v.iter().map(|x| x.to_le_bytes().to_vec()).collect()
}
fn u128_random(r: &mut Rng) -> Vec<u8> {
    let x = le_to_int(&int_to_le_trunc(&structured_int(r, 128), 16));
    let mut b = int_to_le_trunc(&x, 16);
    if r.below(4) == 0 { for i in 8..16 { b[i] = 0xFF; } }
    if r.below(6) == 0 { for i in 0..8 { b[i] = 0; } }
    b
}
fn u128_op() -> Op { Op::Custom { len: Some(16), specials: u128_specials, random: u128_random } }
fn c_mul128_add_mulgen_vartime<G: Fast>(inp: &[u8]) -> Result<(), String> {
    let n = 1 + G::PLEN;
    if inp.len() != n + 16 + G::SLEN { return Ok(()); }
    let P = build::<G>(&inp[..n], false)?;
    let mut ub = [0u8; 16]; ub.copy_from_slice(&inp[n..n + 16]);
    let u = u128::from_le_bytes(ub);
    let v = G::sc(&inp[n + 16..]);
    if let Some(got) = P.m128(u, &v) {
        same(got, P.mul(&G::sc_u128(u)).add(G::mulgen(&v)), "mul128_add_mulgen_vartime(u, v) vs P*u + mulgen(v)")?;
        valid(got, "mul128_add_mulgen_vartime")?;
    }
    if let Some(got) = P.m64mu(u as u64, (u >> 64) as u64, &v) {
        // mu*P is taken from the routine itself (u0 = 0, u1 = 1, v = 0); the statement checked is linearity in (u0, u1, v)
        let z = G::sc_u128(0);
        let muP = P.m64mu(0, 1, &z).unwrap();
        let want = P.mul(&G::sc_u128((u as u64) as u128)).add(muP.mul(&G::sc_u128(u >> 64))).add(G::mulgen(&v));
        same(got, want, "mul64mu_add_mulgen_vartime(u0, u1, v) vs u0*P + u1*(mu*P) + mulgen(v)")?;
        // mu is an eigenvalue of order 4: mu*(mu*P) == -P
        same(muP.m64mu(0, 1, &z).unwrap(), P.neg(), "mu*(mu*P) vs -P")?;
        valid(got, "mul64mu_add_mulgen_vartime")?;
    }
    Ok(())
}
fn reg_fast<G: Fast>(v: &mut Vec<Case>) {
    let c = G::NAME;
    v.push(Case { id: format!("{}_mul_add_mulgen_vartime", c), describe: "C10: P.mul_add_mulgen_vartime(u, v) == P*u + mulgen(v) (plain constant-time operations), result a valid point. Input: point recipe | u | v",
        ops: vec![pt_op::<G>(), frac_op::<G>(), sc_op::<G>()], run: Box::new(|i: &[u8]| c_mul_add_mulgen_vartime::<G>(i)) });
    if G::HAS_HELPER {
        v.push(Case { id: format!("{}_verify_helper_vartime", c), describe: "C10: A.verify_helper_vartime(R, s, k) == ([cofactor](s*B - R - k*A) is the neutral) for R = s*B - k*A + delta*B (+ torsion where cofactored); k includes fractions c0/c1 whose parts have all-zero / all-one words. Input: A recipe | k | s | delta | torsion selector",
            ops: vec![pt_op::<G>(), frac_op::<G>(), sc_op::<G>(), Op::Custom { len: Some(1), specials: || (0u8..4).map(|x| vec![x]).collect(), random: |r: &mut Rng| vec![if r.below(2) == 0 { 0 } else { r.below(4) as u8 }] },
                      Op::Custom { len: Some(1), specials: || (0u8..12).map(|x| vec![x]).collect(), random: |r: &mut Rng| vec![r.below(256) as u8] }],
            run: Box::new(|i: &[u8]| c_verify_helper_vartime::<G>(i)) });
    }
    if G::HAS_M128 || G::HAS_M64MU {
        v.push(Case { id: format!("{}_mul128_add_mulgen_vartime", c), describe: "C10: the 128-bit multiplier fast path (mul128_add_mulgen_vartime, resp. mul64mu_add_mulgen_vartime with u = u0 + u1*2^64 split in two halves) == the plain operations. Input: point recipe | u (16 bytes LE) | v",
            ops: vec![pt_op::<G>(), u128_op(), sc_op::<G>()], run: Box::new(|i: &[u8]| c_mul128_add_mulgen_vartime::<G>(i)) });
    }
}

pub fn register(v: &mut Vec<Case>) {
    reg_fast::<crrl::ed25519::Point>(v);
    reg_fast::<crrl::ed448::Point>(v);
    reg_fast::<crrl::p256::Point>(v);
    reg_fast::<crrl::secp256k1::Point>(v);
    reg_fast::<crrl::jq255e::Point>(v);
    reg_fast::<crrl::jq255s::Point>(v);
    reg_fast::<crrl::gls254::Point>(v);
    reg_fast::<crrl::ristretto255::Point>(v);
    reg_fast::<crrl::decaf448::Point>(v);
    ws_api_cases!(v, p256, crrl::field::GFp256, WsRef::p256(), 1);
    ws_api_cases!(v, secp256k1, crrl::field::GFsecp256k1, WsRef::secp256k1(), 0);
    reg_relational::<crrl::ed25519::Point>(v);
    reg_relational::<crrl::ed448::Point>(v);
    reg_relational::<crrl::p256::Point>(v);
    reg_relational::<crrl::secp256k1::Point>(v);
    reg_relational::<crrl::jq255e::Point>(v);
    reg_relational::<crrl::jq255s::Point>(v);
    reg_relational::<crrl::gls254::Point>(v);
    reg_relational::<crrl::ristretto255::Point>(v);
    reg_relational::<crrl::decaf448::Point>(v);
    reg_ref::<crrl::ed25519::Point, _>(v, EdRef::ed25519());
    reg_ref::<crrl::ed448::Point, _>(v, EdRef::ed448());
    reg_ref::<crrl::p256::Point, _>(v, WsRef::p256());
    reg_ref::<crrl::secp256k1::Point, _>(v, WsRef::secp256k1());
    reg_ref::<crrl::jq255e::Point, _>(v, JqRef::jq255e());
    reg_ref::<crrl::jq255s::Point, _>(v, JqRef::jq255s());
    reg_ref::<crrl::ristretto255::Point, _>(v, RistRef::new());
    reg_ref::<crrl::decaf448::Point, _>(v, DecafRef::new());
    macro_rules! subgroup_flags { ($m:ident) => {
        v.push(Case { id: format!("{}_subgroup_flags", stringify!($m)), describe: "C03: has_low_order(P) <=> P is one of the torsion points (reference list); is_in_subgroup(P) <=> order*P == neutral (double-and-add)",
            ops: vec![pt_op::<crrl::$m::Point>()], run: Box::new(|inp: &[u8]| {
                type P = crrl::$m::Point;
                if inp.len() != 1 + <P as Grp>::PLEN { return Ok(()); }
                let pt = build::<P>(inp, true)?;
                let e = pt.enc();
                let low = <P as Grp>::torsion_encs().iter().any(|t| *t == e);
                let h = pt.has_low_order();
                chk(h == (if low { T } else { 0 }), || format!("has_low_order={:08x} for {} (torsion: {})", h, hex(&e), low))?;
                let lp = dbladd(pt, &int_to_le(<P as Grp>::order(), <P as Grp>::SLEN));
                let insub = lp.isneutral() == T;
                let s = pt.is_in_subgroup();
                chk(s == (if insub { T } else { 0 }), || format!("is_in_subgroup={:08x} for {} (order*P neutral: {})", s, hex(&e), insub))
            }) });
    } }
    subgroup_flags!(ed25519);
    subgroup_flags!(ed448);
    v.push(Case { id: "gls254_zeta_split".into(), describe: "C04: gls254 endomorphism: zeta(P,neg) == +/-(P*MU), MU^2 == -1; split_mu(k) / split_mu_odd(k): k0 + k1*MU == k mod r with the documented size (and parity) bounds",
        ops: vec![pt_op::<crrl::gls254::Point>(), sc_op::<crrl::gls254::Point>()], run: Box::new(|inp: &[u8]| {
            type P = crrl::gls254::Point;
            type S = crrl::gls254::Scalar;
            let n = 1 + <P as Grp>::PLEN;
            if inp.len() != n + 32 { return Ok(()); }
            let pt = build::<P>(&inp[..n], true)?;
            let k = <P as Grp>::sc(&inp[n..]);
            let r = <P as Grp>::order();
            let mu = le_to_int(&S::MU.encode());
            chk(emod(&(&mu * &mu + bi(1)), r) == bi(0), || "MU^2 != -1".to_string())?;
            let pm = pt * S::MU;
            same(pt.zeta(0), pm, "zeta(P,0) vs P*MU")?;
            same(pt.zeta(T), -pm, "zeta(P,-1) vs -(P*MU)")?;
            let mut q = pt; q.set_zeta(0);
            same(q, pm, "set_zeta")?;
            same(pt.zeta(0).zeta(0), -pt, "zeta(zeta(P)) vs -P")?;
            let ki = le_to_int(&k.encode());
            let sgn = |m: u128, s: u32| -> Result<BigInt, String> {
                chk(s == 0 || s == T, || format!("sign flag {:08x}", s))?;
                Ok(if s == T { -BigInt::from(m) } else { BigInt::from(m) })
            };
            let (n0, s0, n1, s1) = P::split_mu(&k);
            let (k0, k1) = (sgn(n0, s0)?, sgn(n1, s1)?);
            chk(emod(&(&k0 + &k1 * &mu - &ki), r) == bi(0), || format!("split_mu: k0={} k1={} do not recombine", k0, k1))?;
            chk(n0 < (1u128 << 127) && n1 < (1u128 << 127), || format!("split_mu: |k0|={:#x} |k1|={:#x} too large", n0, n1))?;
            let (m0, t0, m1, t1) = P::split_mu_odd(&k);
            let (j0, j1) = (sgn(m0, t0)?, sgn(m1, t1)?);
            chk(emod(&(&j0 + &j1 * &mu - &ki), r) == bi(0), || format!("split_mu_odd: k0={} k1={} do not recombine", j0, j1))?;
            chk(m0 & 1 == 1 && m1 & 1 == 1, || format!("split_mu_odd: |k0|={:#x} |k1|={:#x} not both odd", m0, m1))?;
            // P*k recombined from the split with the crate's own small multiplications
            let h = |p: P, m: u128, s: u32| -> P { let lo = p * (m as u64); let hi = (p * ((m >> 64) as u64)).xdouble(64); let x = lo + hi; if s == T { -x } else { x } };
            same(h(pt, n0, s0) + h(pt.zeta(0), n1, s1), pt * k, "k0*P + k1*zeta(P) vs P*k")?;
            same(h(pt, m0, t0) + h(pt.zeta(0), m1, t1), pt * k, "odd split: k0*P + k1*zeta(P) vs P*k")
        }) });
    v.push(Case { id: "gls254_decode_strict".into(), describe: "C06: gls254 decode accepts exactly 32-byte inputs with both top bits clear that are 0 or satisfy Tr(b/(w^2+w+a)^2)==0 (reference GF(2^254) arithmetic); accepted inputs re-encode identically; failure leaves the neutral",
        ops: vec![dec_op::<crrl::gls254::Point>()], run: Box::new(|i: &[u8]| c_decode_strict::<crrl::gls254::Point>(Some(&gls254_ref_decode_ok), i)) });
}
