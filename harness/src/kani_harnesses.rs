//! Kani harnesses. Loop-free / constant-bound functions over full-domain
//! symbolic inputs: a passing harness is a complete proof for that function.
//! The x86-64 carry intrinsics are replaced (kani::stub) by the portable arms
//! of addcarry_u64 / subborrow_u64, whose text is extracted from
//! /repo/src/backend/w64/mod.rs on every run into portable_arms.rs.

include!(concat!(env!("VH_GEN_DIR"), "/portable_arms.rs"));

use crrl::backend::GF255;

fn any_gf<const MQ: u64>() -> (GF255<MQ>, [u64; 4]) {
    let l: [u64; 4] = kani::any();
    (GF255::<MQ>::w64le(l[0], l[1], l[2], l[3]), l)
}

// 320-bit helpers on little-endian u64 limbs (5 limbs), simple carry loops.
fn add5(a: [u64; 5], b: [u64; 5]) -> [u64; 5] {
    let mut r = [0u64; 5];
    let mut c = 0u128;
    let mut i = 0;
    while i < 5 { let t = a[i] as u128 + b[i] as u128 + c; r[i] = t as u64; c = t >> 64; i += 1; }
    r
}
fn ge5(a: [u64; 5], b: [u64; 5]) -> bool {
    let mut i = 5;
    while i > 0 { i -= 1; if a[i] != b[i] { return a[i] > b[i]; } }
    true
}
fn sub5(a: [u64; 5], b: [u64; 5]) -> [u64; 5] {
    let mut r = [0u64; 5];
    let mut c = 0u128;
    let mut i = 0;
    while i < 5 { let t = (a[i] as u128).wrapping_sub(b[i] as u128).wrapping_sub(c); r[i] = t as u64; c = (t >> 127) & 1; i += 1; }
    r
}
fn eq5(a: [u64; 5], b: [u64; 5]) -> bool { a[0] == b[0] && a[1] == b[1] && a[2] == b[2] && a[3] == b[3] && a[4] == b[4] }
fn q5(mq: u64) -> [u64; 5] { [mq.wrapping_neg(), u64::MAX, u64::MAX, 0x7FFF_FFFF_FFFF_FFFF, 0] }
/// reduce a value < 8q modulo q by conditional subtraction
fn red5(mut a: [u64; 5], mq: u64) -> [u64; 5] {
    let q = q5(mq);
    let mut k = 0;
    while k < 8 { if ge5(a, q) { a = sub5(a, q); } k += 1; }
    a
}
fn w5(l: [u64; 4]) -> [u64; 5] { [l[0], l[1], l[2], l[3], 0] }

macro_rules! gf_add_harness { ($name:ident, $mq:expr) => {
    #[kani::proof]
    #[kani::stub(crrl::backend::w64::addcarry_u64, portable_addcarry_u64)]
    #[kani::stub(crrl::backend::w64::subborrow_u64, portable_subborrow_u64)]
    #[kani::unwind(9)]
    fn $name() {
        let (a, la) = any_gf::<$mq>();
        let (b, lb) = any_gf::<$mq>();
        let r = (a + b).verif_limbs();
        let want = red5(add5(red5(w5(la), $mq), red5(w5(lb), $mq)), $mq);
        assert!(eq5(red5(w5(r), $mq), want));
    }
} }
gf_add_harness!(k_gf25519_add, 19);

#[kani::proof]
fn k_smoke_true() { let x: u8 = kani::any(); assert!(x as u32 + 1 > 0); }
#[kani::proof]
fn k_smoke_false() { let x: u8 = kani::any(); assert!(x != 77); }
