//! Kani harnesses. Loop-free / constant-bound functions over full-domain
//! symbolic inputs: a passing harness is a complete proof for that function.
//! The x86-64 carry intrinsics are replaced (kani::stub) by the portable arms
//! of addcarry_u64 / subborrow_u64, whose text is extracted from
//! /repo/src/backend/w64/mod.rs on every run into portable_arms.rs.
//!
//! Reference arithmetic (`refn`) is deliberately naive: limb-wise add with
//! carry in u128, lexicographic compare, conditional subtraction.

include!(concat!(env!("VH_GEN_DIR"), "/portable_arms.rs"));

pub mod refn {
    pub fn from_slice<const N: usize>(l: &[u64]) -> [u64; N] { let mut r = [0u64; N]; let mut i = 0; while i < l.len() { r[i] = l[i]; i += 1; } r }
    pub fn add<const N: usize>(a: [u64; N], b: [u64; N]) -> [u64; N] {
        let mut r = [0u64; N]; let mut c = 0u128; let mut i = 0;
        while i < N { let t = a[i] as u128 + b[i] as u128 + c; r[i] = t as u64; c = t >> 64; i += 1; }
        r
    }
    pub fn sub<const N: usize>(a: [u64; N], b: [u64; N]) -> [u64; N] {
        let mut r = [0u64; N]; let mut c = 0u128; let mut i = 0;
        while i < N { let t = (a[i] as u128).wrapping_sub(b[i] as u128).wrapping_sub(c); r[i] = t as u64; c = (t >> 127) & 1; i += 1; }
        r
    }
    pub fn ge<const N: usize>(a: [u64; N], b: [u64; N]) -> bool {
        let mut i = N;
        while i > 0 { i -= 1; if a[i] != b[i] { return a[i] > b[i]; } }
        true
    }
    pub fn eq<const N: usize>(a: [u64; N], b: [u64; N]) -> bool { let mut i = 0; let mut r = true; while i < N { r &= a[i] == b[i]; i += 1; } r }
    pub fn is_zero<const N: usize>(a: [u64; N]) -> bool { let mut i = 0; let mut r = true; while i < N { r &= a[i] == 0; i += 1; } r }
    /// k conditional subtractions of q: reduces any x < (k+1)*q into [0,q)
    pub fn red<const N: usize>(mut a: [u64; N], q: [u64; N], k: usize) -> [u64; N] { let mut j = 0; while j < k { if ge(a, q) { a = sub(a, q); } j += 1; } a }
    pub fn shl1<const N: usize>(a: [u64; N]) -> [u64; N] { let mut r = [0u64; N]; let mut c = 0u64; let mut i = 0; while i < N { r[i] = (a[i] << 1) | c; c = a[i] >> 63; i += 1; } r }
    pub fn mul_small<const N: usize>(a: [u64; N], k: u64) -> [u64; N] {
        let mut r = [0u64; N]; let mut c = 0u128; let mut i = 0;
        while i < N { let t = (a[i] as u128) * (k as u128) + c; r[i] = t as u64; c = t >> 64; i += 1; }
        r
    }
    pub fn from_le_bytes<const N: usize>(b: &[u8]) -> [u64; N] {
        let mut r = [0u64; N]; let mut i = 0;
        while i < b.len() { r[i / 8] |= (b[i] as u64) << (8 * (i % 8)); i += 1; }
        r
    }
    pub fn byte<const N: usize>(a: [u64; N], i: usize) -> u8 { (a[i / 8] >> (8 * (i % 8))) as u8 }
}

mod gf255 {
    use super::*;
    use super::refn as R;
    use crrl::backend::GF255;
    type W5 = [u64; 5];

    fn q(mq: u64) -> W5 { R::from_slice(&[mq.wrapping_neg(), u64::MAX, u64::MAX, 0x7FFF_FFFF_FFFF_FFFF]) }
    fn any_el<const MQ: u64>() -> (GF255<MQ>, W5) {
        let l: [u64; 4] = kani::any();
        (GF255::<MQ>::w64le(l[0], l[1], l[2], l[3]), R::from_slice(&l))
    }
    fn w<const MQ: u64>(x: &GF255<MQ>) -> W5 { R::from_slice(&x.verif_limbs()) }
    /// d (mod 2^320, two's complement) is k*q for some k in -4..=4; with |d| < 5q this is exactly "d == 0 mod q"
    fn mult_of_q(d: W5, mq: u64) -> bool {
        let mut kq = [0u64; 5];
        let mut r = false;
        let mut k = 0;
        while k <= 4 {
            r |= R::eq(d, kq);
            r |= R::eq(d, R::sub([0u64; 5], kq));
            kq = R::add(kq, q(mq));
            k += 1;
        }
        r
    }
    /// canonical value of a 256-bit pattern (< 2^256 < 3q)
    fn can(x: W5, mq: u64) -> W5 { R::red(x, q(mq), 2) }

    macro_rules! harnesses { ($m:ident, $mq:expr) => { mod $m {
        use super::*;
        const MQ: u64 = $mq;

        #[kani::proof]
        #[kani::stub(crrl::backend::w64::addcarry_u64, portable_addcarry_u64)]
        #[kani::stub(crrl::backend::w64::subborrow_u64, portable_subborrow_u64)]
        #[kani::unwind(10)]
        fn k_add() {
            let (a, wa) = any_el::<MQ>(); let (b, wb) = any_el::<MQ>();
            let r = a + b;
            // |a + b - r| < 2^257 < 5q
            assert!(mult_of_q(R::sub(R::add(wa, wb), w(&r)), MQ));
        }
        #[kani::proof]
        #[kani::stub(crrl::backend::w64::addcarry_u64, portable_addcarry_u64)]
        #[kani::stub(crrl::backend::w64::subborrow_u64, portable_subborrow_u64)]
        #[kani::unwind(10)]
        fn k_sub() {
            let (a, wa) = any_el::<MQ>(); let (b, wb) = any_el::<MQ>();
            let r = a - b;
            // |r + b - a| < 2^257 < 5q
            assert!(mult_of_q(R::sub(R::add(w(&r), wb), wa), MQ));
        }
        #[kani::proof]
        #[kani::stub(crrl::backend::w64::addcarry_u64, portable_addcarry_u64)]
        #[kani::stub(crrl::backend::w64::subborrow_u64, portable_subborrow_u64)]
        #[kani::unwind(10)]
        fn k_neg() {
            let (a, wa) = any_el::<MQ>();
            let r = -a;
            assert!(mult_of_q(R::add(w(&r), wa), MQ));
        }
        #[kani::proof]
        #[kani::stub(crrl::backend::w64::addcarry_u64, portable_addcarry_u64)]
        #[kani::stub(crrl::backend::w64::subborrow_u64, portable_subborrow_u64)]
        #[kani::unwind(10)]
        fn k_half() {
            let (a, wa) = any_el::<MQ>();
            let r = a.half();
            assert!(mult_of_q(R::sub(R::shl1(w(&r)), wa), MQ));
        }
        #[kani::proof]
        #[kani::stub(crrl::backend::w64::addcarry_u64, portable_addcarry_u64)]
        #[kani::stub(crrl::backend::w64::subborrow_u64, portable_subborrow_u64)]
        #[kani::unwind(34)]
        fn k_normalized_encode() {
            let (a, wa) = any_el::<MQ>();
            let n = a.verif_normalized();
            assert!(R::eq(w(&n), can(wa, MQ)));
            let e = a.encode32();
            let want = can(wa, MQ);
            let mut i = 0; while i < 32 { assert!(e[i] == R::byte(want, i)); i += 1; }
        }
        #[kani::proof]
        #[kani::stub(crrl::backend::w64::addcarry_u64, portable_addcarry_u64)]
        #[kani::stub(crrl::backend::w64::subborrow_u64, portable_subborrow_u64)]
        #[kani::unwind(10)]
        fn k_iszero_equals() {
            let (a, wa) = any_el::<MQ>(); let (b, wb) = any_el::<MQ>();
            let z = a.iszero();
            assert!(z == if R::is_zero(can(wa, MQ)) { 0xFFFFFFFFu32 } else { 0 });
            let e = a.equals(b);
            assert!(e == if R::eq(can(wa, MQ), can(wb, MQ)) { 0xFFFFFFFFu32 } else { 0 });
        }
        #[kani::proof]
        #[kani::unwind(10)]
        fn k_cond_select_cswap() {
            let (a, wa) = any_el::<MQ>(); let (b, wb) = any_el::<MQ>();
            let ctl: u32 = if kani::any() { 0xFFFFFFFF } else { 0 };
            let mut c = a; c.set_cond(&b, ctl);
            assert!(R::eq(w(&c), if ctl == 0 { wa } else { wb }));
            let s = GF255::<MQ>::select(&a, &b, ctl);
            assert!(R::eq(w(&s), if ctl == 0 { wa } else { wb }));
            let (mut x, mut y) = (a, b);
            GF255::<MQ>::cswap(&mut x, &mut y, ctl);
            assert!(R::eq(w(&x), if ctl == 0 { wa } else { wb }));
            assert!(R::eq(w(&y), if ctl == 0 { wb } else { wa }));
        }
        #[kani::proof]
        #[kani::stub(crrl::backend::w64::addcarry_u64, portable_addcarry_u64)]
        #[kani::stub(crrl::backend::w64::subborrow_u64, portable_subborrow_u64)]
        #[kani::unwind(34)]
        fn k_decode_ct32() {
            // every 32-byte string
            let buf: [u8; 32] = kani::any();
            let (r, cc) = GF255::<MQ>::decode_ct(&buf);
            let v = R::from_le_bytes(&buf);
            if R::ge(v, q(MQ)) {
                assert!(cc == 0 && R::is_zero(w(&r)));
            } else {
                assert!(cc == 0xFFFFFFFF && R::eq(w(&r), v));
                // encode after successful decode reproduces the input bytes
                let e = r.encode32();
                let mut i = 0; while i < 32 { assert!(e[i] == buf[i]); i += 1; }
            }
        }
        #[kani::proof]
        #[kani::unwind(42)]
        fn k_decode_ct_badlen() {
            // every length 0..=40 other than 32 (contents irrelevant to the path, still symbolic)
            let buf: [u8; 40] = kani::any();
            let n: usize = kani::any();
            kani::assume(n <= 40 && n != 32);
            let (r, cc) = GF255::<MQ>::decode_ct(&buf[..n]);
            assert!(cc == 0 && R::is_zero(w(&r)));
            assert!(GF255::<MQ>::decode(&buf[..n]).is_none());
        }
    } } }
    harnesses!(gf25519, 19);
    harnesses!(gf255e, 18651);
    harnesses!(gf255s, 3957);
}

#[kani::proof]
fn k_smoke_true() { let x: u8 = kani::any(); assert!(x as u32 + 1 > 0); }
/// vacuity guard: this harness MUST fail; the runner checks that it does.
#[kani::proof]
fn k_canary_must_fail() { let x: u8 = kani::any(); assert!(x != 77); }
