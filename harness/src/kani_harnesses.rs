//! Kani harnesses. Loop-free / constant-bound functions over full-domain
//! symbolic inputs: a passing harness is a complete proof for that function.
//! The x86-64 carry intrinsics are replaced (kani::stub) by the portable arms
//! of addcarry_u64 / subborrow_u64, whose text is extracted from
//! /repo/src/backend/w64/mod.rs on every run into portable_arms.rs.
//!
//! Reference arithmetic (`refn`) is deliberately naive: limb-wise add with
//! carry in u128, lexicographic compare, conditional subtraction.

include!(concat!(env!("VH_GEN_DIR"), "/portable_arms.rs"));

pub mod refn {
    pub fn from_slice<const N: usize>(l: &[u64]) -> [u64; N] { let mut r = [0u64; N]; let mut i = 0; while i < l.len() { r[i] = l[i]; i += 1; } r }
    pub fn add<const N: usize>(a: [u64; N], b: [u64; N]) -> [u64; N] {
        let mut r = [0u64; N]; let mut c = 0u128; let mut i = 0;
        while i < N { let t = a[i] as u128 + b[i] as u128 + c; r[i] = t as u64; c = t >> 64; i += 1; }
        r
    }
    pub fn sub<const N: usize>(a: [u64; N], b: [u64; N]) -> [u64; N] {
        let mut r = [0u64; N]; let mut c = 0u128; let mut i = 0;
        while i < N { let t = (a[i] as u128).wrapping_sub(b[i] as u128).wrapping_sub(c); r[i] = t as u64; c = (t >> 127) & 1; i += 1; }
        r
    }
    pub fn ge<const N: usize>(a: [u64; N], b: [u64; N]) -> bool {
        let mut i = N;
        while i > 0 { i -= 1; if a[i] != b[i] { return a[i] > b[i]; } }
        true
    }
    pub fn eq<const N: usize>(a: [u64; N], b: [u64; N]) -> bool { let mut i = 0; let mut r = true; while i < N { r &= a[i] == b[i]; i += 1; } r }
    pub fn is_zero<const N: usize>(a: [u64; N]) -> bool { let mut i = 0; let mut r = true; while i < N { r &= a[i] == 0; i += 1; } r }
    /// k conditional subtractions of q: reduces any x < (k+1)*q into [0,q)
    pub fn red<const N: usize>(mut a: [u64; N], q: [u64; N], k: usize) -> [u64; N] { let mut j = 0; while j < k { if ge(a, q) { a = sub(a, q); } j += 1; } a }
    pub fn shl1<const N: usize>(a: [u64; N]) -> [u64; N] { let mut r = [0u64; N]; let mut c = 0u64; let mut i = 0; while i < N { r[i] = (a[i] << 1) | c; c = a[i] >> 63; i += 1; } r }
    pub fn mul_small<const N: usize>(a: [u64; N], k: u64) -> [u64; N] {
        let mut r = [0u64; N]; let mut c = 0u128; let mut i = 0;
        while i < N { let t = (a[i] as u128) * (k as u128) + c; r[i] = t as u64; c = t >> 64; i += 1; }
        r
    }
    pub fn from_le_bytes<const N: usize>(b: &[u8]) -> [u64; N] {
        let mut r = [0u64; N]; let mut i = 0;
        while i < b.len() { r[i / 8] |= (b[i] as u64) << (8 * (i % 8)); i += 1; }
        r
    }
    pub fn byte<const N: usize>(a: [u64; N], i: usize) -> u8 { (a[i / 8] >> (8 * (i % 8))) as u8 }
}

mod gf255 {
    use super::*;
    use super::refn as R;
    use crrl::backend::GF255;
    type W5 = [u64; 5];

    fn q(mq: u64) -> W5 { R::from_slice(&[mq.wrapping_neg(), u64::MAX, u64::MAX, 0x7FFF_FFFF_FFFF_FFFF]) }
    fn any_el<const MQ: u64>() -> (GF255<MQ>, W5) {
        let l: [u64; 4] = kani::any();
        (GF255::<MQ>::w64le(l[0], l[1], l[2], l[3]), R::from_slice(&l))
    }
    fn w<const MQ: u64>(x: &GF255<MQ>) -> W5 { R::from_slice(&x.verif_limbs()) }
    /// d (mod 2^320, two's complement) is k*q for some k in -4..=4; with |d| < 5q this is exactly "d == 0 mod q"
    fn mult_of_q(d: W5, mq: u64) -> bool {
        let mut kq = [0u64; 5];
        let mut r = false;
        let mut k = 0;
        while k <= 4 {
            r |= R::eq(d, kq);
            r |= R::eq(d, R::sub([0u64; 5], kq));
            kq = R::add(kq, q(mq));
            k += 1;
        }
        r
    }
    /// canonical value of a 256-bit pattern (< 2^256 < 3q)
    fn can(x: W5, mq: u64) -> W5 { R::red(x, q(mq), 2) }

    macro_rules! harnesses { ($m:ident, $mq:expr) => { mod $m {
        use super::*;
        const MQ: u64 = $mq;

        #[kani::proof]
        #[kani::stub(crrl::backend::w64::addcarry_u64, portable_addcarry_u64)]
        #[kani::stub(crrl::backend::w64::subborrow_u64, portable_subborrow_u64)]
        #[kani::unwind(10)]
        fn k_add() {
            let (a, wa) = any_el::<MQ>(); let (b, wb) = any_el::<MQ>();
            let r = a + b;
            // |a + b - r| < 2^257 < 5q
            assert!(mult_of_q(R::sub(R::add(wa, wb), w(&r)), MQ));
        }
        #[kani::proof]
        #[kani::stub(crrl::backend::w64::addcarry_u64, portable_addcarry_u64)]
        #[kani::stub(crrl::backend::w64::subborrow_u64, portable_subborrow_u64)]
        #[kani::unwind(10)]
        fn k_sub() {
            let (a, wa) = any_el::<MQ>(); let (b, wb) = any_el::<MQ>();
            let r = a - b;
            // |r + b - a| < 2^257 < 5q
            assert!(mult_of_q(R::sub(R::add(w(&r), wb), wa), MQ));
        }
        #[kani::proof]
        #[kani::stub(crrl::backend::w64::addcarry_u64, portable_addcarry_u64)]
        #[kani::stub(crrl::backend::w64::subborrow_u64, portable_subborrow_u64)]
        #[kani::unwind(10)]
        fn k_neg() {
            let (a, wa) = any_el::<MQ>();
            let r = -a;
            assert!(mult_of_q(R::add(w(&r), wa), MQ));
        }
        #[kani::proof]
        #[kani::stub(crrl::backend::w64::addcarry_u64, portable_addcarry_u64)]
        #[kani::stub(crrl::backend::w64::subborrow_u64, portable_subborrow_u64)]
        #[kani::unwind(10)]
        fn k_half() {
            let (a, wa) = any_el::<MQ>();
            let r = a.half();
            assert!(mult_of_q(R::sub(R::shl1(w(&r)), wa), MQ));
        }
        #[kani::proof]
        #[kani::stub(crrl::backend::w64::addcarry_u64, portable_addcarry_u64)]
        #[kani::stub(crrl::backend::w64::subborrow_u64, portable_subborrow_u64)]
        #[kani::unwind(34)]
        fn k_normalized_encode() {
            let (a, wa) = any_el::<MQ>();
            let n = a.verif_normalized();
            assert!(R::eq(w(&n), can(wa, MQ)));
            let e = a.encode32();
            let want = can(wa, MQ);
            let mut i = 0; while i < 32 { assert!(e[i] == R::byte(want, i)); i += 1; }
        }
        #[kani::proof]
        #[kani::stub(crrl::backend::w64::addcarry_u64, portable_addcarry_u64)]
        #[kani::stub(crrl::backend::w64::subborrow_u64, portable_subborrow_u64)]
        #[kani::unwind(10)]
        fn k_iszero_equals() {
            let (a, wa) = any_el::<MQ>(); let (b, wb) = any_el::<MQ>();
            let z = a.iszero();
            assert!(z == if R::is_zero(can(wa, MQ)) { 0xFFFFFFFFu32 } else { 0 });
            let e = a.equals(b);
            assert!(e == if R::eq(can(wa, MQ), can(wb, MQ)) { 0xFFFFFFFFu32 } else { 0 });
        }
        #[kani::proof]
        #[kani::unwind(10)]
        fn k_cond_select_cswap() {
            let (a, wa) = any_el::<MQ>(); let (b, wb) = any_el::<MQ>();
            let ctl: u32 = if kani::any() { 0xFFFFFFFF } else { 0 };
            let mut c = a; c.set_cond(&b, ctl);
            assert!(R::eq(w(&c), if ctl == 0 { wa } else { wb }));
            let s = GF255::<MQ>::select(&a, &b, ctl);
            assert!(R::eq(w(&s), if ctl == 0 { wa } else { wb }));
            let (mut x, mut y) = (a, b);
            GF255::<MQ>::cswap(&mut x, &mut y, ctl);
            assert!(R::eq(w(&x), if ctl == 0 { wa } else { wb }));
            assert!(R::eq(w(&y), if ctl == 0 { wb } else { wa }));
        }
        #[kani::proof]
        #[kani::stub(crrl::backend::w64::addcarry_u64, portable_addcarry_u64)]
        #[kani::stub(crrl::backend::w64::subborrow_u64, portable_subborrow_u64)]
        #[kani::unwind(34)]
        fn k_decode_ct32() {
            // every 32-byte string
            let buf: [u8; 32] = kani::any();
            let (mut r, _) = any_el::<MQ>();
            let cc = r.set_decode_ct(&buf);
            let v = R::from_le_bytes(&buf);
            if R::ge(v, q(MQ)) {
                assert!(cc == 0 && R::is_zero(w(&r)));
            } else {
                assert!(cc == 0xFFFFFFFF && R::eq(w(&r), v));
                // encode after successful decode reproduces the input bytes
                let e = r.encode32();
                let mut i = 0; while i < 32 { assert!(e[i] == buf[i]); i += 1; }
            }
        }
        #[kani::proof]
        #[kani::stub(crrl::backend::w64::addcarry_u64, portable_addcarry_u64)]
        #[kani::stub(crrl::backend::w64::subborrow_u64, portable_subborrow_u64)]
        #[kani::unwind(34)]
        fn k_decode_reduce32() {
            // every 32-byte string: the decoded element is LE(buf) mod q (what X25519 relies on for non-canonical u)
            let buf: [u8; 32] = kani::any();
            let r = GF255::<MQ>::decode_reduce(&buf[..]);
            let v = R::from_le_bytes(&buf);
            // |r - v| < 2^256 < 5q
            assert!(mult_of_q(R::sub(w(&r), v), MQ));
        }
        #[kani::proof]
        #[kani::unwind(50)]
        fn k_lookup16() {
            // every table content, every u32 index
            let mut t3 = [GF255::<MQ>::ZERO; 48];
            let mut w3 = [[0u64; 5]; 48];
            let mut i = 0; while i < 48 { let (e, we) = any_el::<MQ>(); t3[i] = e; w3[i] = we; i += 1; }
            let j: u32 = kani::any();
            let r = GF255::<MQ>::lookup16_x3(&t3, j);
            let mut k = 0;
            while k < 3 {
                let want = if j < 16 { w3[3 * (j as usize) + k] } else { [0u64; 5] };
                assert!(R::eq(w(&r[k]), want));
                k += 1;
            }
        }
        #[kani::proof]
        #[kani::unwind(66)]
        fn k_lookup16_x4() {
            let mut t4 = [GF255::<MQ>::ZERO; 64];
            let mut w4 = [[0u64; 5]; 64];
            let mut i = 0; while i < 64 { let (e, we) = any_el::<MQ>(); t4[i] = e; w4[i] = we; i += 1; }
            let j: u32 = kani::any();
            let r = GF255::<MQ>::lookup16_x4(&t4, j);
            let mut k = 0;
            while k < 4 {
                let want = if j < 16 { w4[4 * (j as usize) + k] } else { [0u64; 5] };
                assert!(R::eq(w(&r[k]), want));
                k += 1;
            }
        }
        #[kani::proof]
        #[kani::unwind(42)]
        fn k_decode_ct_badlen() {
            // every length 0..=40 other than 32 (contents irrelevant to the path, still symbolic)
            let buf: [u8; 40] = kani::any();
            let n: usize = kani::any();
            kani::assume(n <= 40 && n != 32);
            let (r, cc) = GF255::<MQ>::decode_ct(&buf[..n]);
            assert!(cc == 0 && R::is_zero(w(&r)));
            assert!(GF255::<MQ>::decode(&buf[..n]).is_none());
            // in-place variant on an arbitrary previous value
            let (mut x, _) = any_el::<MQ>();
            let cc2 = x.set_decode_ct(&buf[..n]);
            assert!(cc2 == 0 && R::is_zero(w(&x)));
        }
    } } }
    harnesses!(gf25519, 19);
    harnesses!(gf255e, 18651);
    harnesses!(gf255s, 3957);
}

mod recode {
    //! Signed-digit recoders taking a machine integer: every input value is
    //! covered (full domain), loops have a constant bound.
    use crrl::jq255e::Point as PE;
    use crrl::jq255s::Point as PS;
    use crrl::ed25519::Point as P25;
    use crrl::secp256k1::Point as PK;
    use crrl::p256::Point as P2;

    /// y (192-bit two's complement) minus a small signed digit
    fn sub_digit(y: [u64; 3], d: i8) -> [u64; 3] {
        let dd = d as i64 as u64; // sign-extended
        let ext = if d < 0 { u64::MAX } else { 0 };
        let (r0, b0) = y[0].overflowing_sub(dd);
        let (t1, b1a) = y[1].overflowing_sub(ext);
        let (r1, b1b) = t1.overflowing_sub(b0 as u64);
        let r2 = y[2].wrapping_sub(ext).wrapping_sub((b1a | b1b) as u64);
        [r0, r1, r2]
    }
    fn sar(y: [u64; 3], s: u32) -> [u64; 3] {
        [(y[0] >> s) | (y[1] << (64 - s)), (y[1] >> s) | (y[2] << (64 - s)), ((y[2] as i64) >> s) as u64]
    }
    /// sum_i sd[i] * 2^(w*i) == n  checked by peeling digits from the bottom:
    /// y_0 = n, y_{i+1} = (y_i - sd[i]) / 2^w exactly, y_end == 0.
    fn digits_represent(sd: &[i8], w: u32, n: [u64; 3]) -> bool {
        let mut y = n;
        let mut ok = true;
        let mut i = 0;
        while i < sd.len() {
            y = sub_digit(y, sd[i]);
            ok &= (y[0] & ((1u64 << w) - 1)) == 0;
            y = sar(y, w);
            i += 1;
        }
        ok && y[0] == 0 && y[1] == 0 && y[2] == 0
    }
    fn naf_digits_ok(sd: &[i8]) -> bool {
        let mut ok = true; let mut i = 0;
        while i < sd.len() { let d = sd[i]; ok &= d == 0 || ((d & 1) != 0 && d >= -15 && d <= 15); i += 1; }
        ok
    }
    fn w5_digits_ok(sd: &[i8]) -> bool {
        let mut ok = true; let mut i = 0;
        while i < sd.len() { let d = sd[i]; ok &= d >= -15 && d <= 16; i += 1; }
        ok
    }
    fn n128(n: u128) -> [u64; 3] { [n as u64, (n >> 64) as u64, 0] }

    macro_rules! naf128 { ($name:ident, $P:ty) => {
        #[kani::proof]
        #[kani::unwind(132)]
        fn $name() {
            let n: u128 = kani::any();
            let sd = <$P>::verif_recode_u128_NAF(n);
            assert!(naf_digits_ok(&sd));
            assert!(digits_represent(&sd, 1, n128(n)));
        }
    } }
    naf128!(k_jq255e_recode_u128_naf, PE);
    naf128!(k_jq255s_recode_u128_naf, PS);
    naf128!(k_ed25519_recode_u128_naf, P25);
    naf128!(k_secp256k1_recode_u128_naf, PK);

    #[kani::proof]
    #[kani::unwind(132)]
    fn k_p256_recode_u129_naf() {
        let nl: u128 = kani::any();
        let nh: u32 = kani::any();
        kani::assume(nh <= 1);
        // documented domain: n < 2^129 - 16
        kani::assume(nh == 0 || nl < u128::MAX - 15);
        let sd = P2::verif_recode_u129_NAF(nh, nl);
        assert!(naf_digits_ok(&sd));
        assert!(digits_represent(&sd, 1, [nl as u64, (nl >> 64) as u64, nh as u64]));
    }

    macro_rules! w5_128 { ($name:ident, $P:ty) => {
        #[kani::proof]
        #[kani::unwind(28)]
        fn $name() {
            let n: u128 = kani::any();
            let sd = <$P>::verif_recode_u128(n);
            assert!(w5_digits_ok(&sd));
            assert!(sd[25] >= 0);
            assert!(digits_represent(&sd, 5, n128(n)));
        }
    } }
    w5_128!(k_jq255e_recode_u128, PE);
    w5_128!(k_secp256k1_recode_u128, PK);
}

mod lms {
    //! LMS private-key state machine and verifier totality. The one-time
    //! signature and the hash functions are replaced by havoc stubs: what is
    //! proved is everything `sign` / `verify` do around them, for every key
    //! state (all 2^32 counter values) and every signature string.
    use crrl::{CryptoRng, RngCore, RngError};

    pub struct SymRng;
    impl RngCore for SymRng {
        fn next_u32(&mut self) -> u32 { kani::any() }
        fn next_u64(&mut self) -> u64 { kani::any() }
        fn fill_bytes(&mut self, dst: &mut [u8]) { if dst.len() > 0 { dst[0] = kani::any(); } }
        fn try_fill_bytes(&mut self, dst: &mut [u8]) -> Result<(), RngError> { self.fill_bytes(dst); Ok(()) }
    }
    impl CryptoRng for SymRng {}

    macro_rules! lms_harnesses { ($modname:ident, $M:path, $m:expr, $n:expr) => { mod $modname {
        use super::*;
        use $M as L;
        const H: usize = L::PrivateKey::VERIF_H;
        const SIGLEN: usize = L::PrivateKey::VERIF_SIGLEN;
        const OTS: usize = L::PrivateKey::VERIF_OTS_SIGLEN;

        fn havoc_ots_sign<T: CryptoRng + RngCore>(_sk: L::PrivateKey, _rng: &mut T, _q: u32, _msg: &[u8]) -> [u8; OTS] {
            let mut r = [0u8; OTS];
            r[0] = kani::any(); r[OTS - 1] = kani::any();
            r
        }
        fn havoc_hn(_m1: &[u8], _m2: &[u8], _m3: &[u8], _m4: &[u8], _m5: &[u8]) -> [u8; $n] { let mut r = [0u8; $n]; r[0] = kani::any(); r }
        fn havoc_hm(_m1: &[u8], _m2: &[u8], _m3: &[u8], _m4: &[u8], _m5: &[u8]) -> [u8; $m] { let mut r = [0u8; $m]; r[0] = kani::any(); r }

        #[kani::proof]
        #[kani::stub(L::PrivateKey::ots_sign, havoc_ots_sign)]
        #[kani::unwind(70)]
        fn k_sign_state_machine() {
            let i: [u8; 16] = kani::any();
            let seed: [u8; $m] = kani::any();
            let q0: u32 = kani::any();
            let mut t = [[0u8; $m]; 1usize << (H + 1)];
            // distinguishable tree nodes: first byte symbolic, second byte = node index
            let mut k = 0; while k < (1usize << (H + 1)) { t[k][0] = kani::any(); t[k][1] = k as u8; k += 1; }
            let mut sk = L::PrivateKey::verif_from_parts(i, seed, q0, t);
            let mut rng = SymRng;
            let msg: [u8; 3] = kani::any();
            let r = sk.sign(&mut rng, &msg);
            // nothing but the counter may change
            assert!(sk.verif_I() == i);
            assert!(sk.verif_SEED() == seed);
            let t2 = sk.verif_T();
            let mut k = 0; while k < (1usize << (H + 1)) { assert!(t2[k][0] == t[k][0] && t2[k][1] == t[k][1]); k += 1; }
            if q0 >= (1u32 << H) {
                assert!(r.is_none());
                assert!(sk.verif_current_leaf() == q0);
            } else {
                assert!(sk.verif_current_leaf() == q0 + 1);
                let sig = r.unwrap();
                assert!(sig.len() == SIGLEN);
                assert!(sig[0] == (q0 >> 24) as u8 && sig[1] == (q0 >> 16) as u8 && sig[2] == (q0 >> 8) as u8 && sig[3] == q0 as u8);
                // authentication path: sibling of each node on the way up
                let mut node = q0 + (1u32 << H);
                let mut lvl = 0;
                while lvl < H {
                    let sib = (node ^ 1) as usize;
                    let j = 4 + OTS + 4 + lvl * $m;
                    assert!(sig[j] == t[sib][0] && sig[j + 1] == sib as u8);
                    node >>= 1;
                    lvl += 1;
                }
            }
        }

        fn havoc_ots_verify(_pk: L::PublicKey, _q: u32, _sig: &[u8], _msg: &[u8]) -> Option<[u8; $n]> {
            if kani::any() { None } else { let mut r = [0u8; $n]; r[0] = kani::any(); Some(r) }
        }

        /// verify(): wrong length, out-of-range leaf index or wrong type => false, and no panic for any string
        #[kani::proof]
        #[kani::stub(L::PublicKey::ots_verify, havoc_ots_verify)]
        #[kani::stub(L::Hm, havoc_hm)]
        #[kani::unwind(40)]
        fn k_verify_total() {
            const MAXLEN: usize = SIGLEN + 3;
            let mut buf = [0u8; MAXLEN];
            // the bytes verify() itself interprets are symbolic: leaf index, LMS type
            buf[0] = kani::any(); buf[1] = kani::any(); buf[2] = kani::any(); buf[3] = kani::any();
            let mut k = 0; while k < 4 { buf[OTS + 4 + k] = kani::any(); k += 1; }
            let len: usize = kani::any();
            kani::assume(len <= MAXLEN);
            let pk = L::PublicKey::verif_from_parts(kani::any(), kani::any());
            let msg: [u8; 2] = kani::any();
            let r = pk.verify(&buf[..len], &msg);
            if len != SIGLEN { assert!(!r); }
            else {
                let q = ((buf[0] as u32) << 24) | ((buf[1] as u32) << 16) | ((buf[2] as u32) << 8) | buf[3] as u32;
                if q >= (1u32 << H) { assert!(!r); }
            }
        }
    } } }
    lms_harnesses!(sha256_m32, crrl::lms::LMS_SHA256_M32_H5_SHA256_N32_W8, 32, 32);
    lms_harnesses!(sha256_m24, crrl::lms::LMS_SHA256_M24_H5_SHA256_N24_W8, 24, 24);
    lms_harnesses!(shake_m24, crrl::lms::LMS_SHAKE_M24_H5_SHAKE_N24_W8, 24, 24);
    lms_harnesses!(shake_m32, crrl::lms::LMS_SHAKE_M32_H5_SHAKE_N32_W8, 32, 32);
}

mod zz {
    //! Zu128 / Zu256 / Zu384 helper integers (src/backend/w64/zz.rs): every
    //! function is loop-free or constant-bound; inputs are fully symbolic.
    use super::refn as R;
    use crrl::{Zu128, Zu256, Zu384};
    fn any128() -> (Zu128, [u64; 2]) { let l: [u64; 2] = kani::any(); (Zu128::w64le(l[0], l[1]), l) }
    fn any256() -> (Zu256, [u64; 4]) { let l: [u64; 4] = kani::any(); (Zu256::w64le(l[0], l[1], l[2], l[3]), l) }
    fn any384() -> (Zu384, [u64; 6]) { let l: [u64; 6] = kani::any(); (Zu384::w64le(l[0], l[1], l[2], l[3], l[4], l[5]), l) }
    /// schoolbook product from the same 64x64 partial products, accumulated column-wise in u128
    fn ref_mul<const NA: usize, const NB: usize, const NR: usize>(a: [u64; NA], b: [u64; NB]) -> [u64; NR] {
        let mut r = [0u64; NR];
        let mut i = 0;
        while i < NA {
            let mut carry = 0u128;
            let mut j = 0;
            while j < NB {
                if i + j < NR {
                    let t = (a[i] as u128) * (b[j] as u128) + (r[i + j] as u128) + carry;
                    r[i + j] = t as u64;
                    carry = t >> 64;
                }
                j += 1;
            }
            if i + NB < NR { r[i + NB] = carry as u64; }
            i += 1;
        }
        r
    }
    #[kani::proof]
    #[kani::stub(crrl::backend::w64::addcarry_u64, super::portable_addcarry_u64)]
    #[kani::stub(crrl::backend::w64::subborrow_u64, super::portable_subborrow_u64)]
    #[kani::unwind(8)]
    fn k_mul128x128() {
        let (a, la) = any128(); let (b, lb) = any128();
        let r = a.mul128x128(&b).verif_limbs();
        let w: [u64; 4] = ref_mul::<2, 2, 4>(la, lb);
        assert!(R::eq(r, w));
        let t = a.mul128x128trunc(&b).verif_limbs();
        assert!(t[0] == w[0] && t[1] == w[1]);
    }
    #[kani::proof]
    #[kani::stub(crrl::backend::w64::addcarry_u64, super::portable_addcarry_u64)]
    #[kani::stub(crrl::backend::w64::subborrow_u64, super::portable_subborrow_u64)]
    #[kani::unwind(8)]
    fn k_mul256x128() {
        let (a, la) = any256(); let (b, lb) = any128();
        let r = a.mul256x128(&b).verif_limbs();
        let w: [u64; 6] = ref_mul::<4, 2, 6>(la, lb);
        assert!(R::eq(r, w));
    }
    #[kani::proof]
    #[kani::stub(crrl::backend::w64::addcarry_u64, super::portable_addcarry_u64)]
    #[kani::stub(crrl::backend::w64::subborrow_u64, super::portable_subborrow_u64)]
    #[kani::unwind(8)]
    fn k_zz_linear() {
        // abs / double_inc_abs / set_sub / set_sub_u32 / trunc128
        let (a, la) = any128(); let (b, lb) = any128();
        let x = ((la[1] as u128) << 64) | la[0] as u128;
        let y = ((lb[1] as u128) << 64) | lb[0] as u128;
        let (m, s) = a.abs();
        let neg = (x >> 127) != 0;
        assert!(s == if neg { 0xFFFFFFFFu32 } else { 0 });
        assert!(m == if neg { x.wrapping_neg() } else { x });
        let (m2, s2) = a.double_inc_abs();
        let d = x.wrapping_shl(1) | 1;   // 2x+1 mod 2^128; sign taken from x
        assert!(s2 == if neg { 0xFFFFFFFFu32 } else { 0 });
        assert!(m2 == if neg { d.wrapping_neg() } else { d });
        let mut c = a; c.set_sub(&b);
        let lc = c.verif_limbs();
        assert!((((lc[1] as u128) << 64) | lc[0] as u128) == x.wrapping_sub(y));
        let k: u32 = kani::any();
        let mut e = a; e.set_sub_u32(k);
        let le = e.verif_limbs();
        assert!((((le[1] as u128) << 64) | le[0] as u128) == x.wrapping_sub(k as u128));
        let (z, lz) = any256();
        let t = z.trunc128().verif_limbs();
        assert!(t[0] == lz[0] && t[1] == lz[1]);
    }
    #[kani::proof]
    #[kani::stub(crrl::backend::w64::addcarry_u64, super::portable_addcarry_u64)]
    #[kani::stub(crrl::backend::w64::subborrow_u64, super::portable_subborrow_u64)]
    #[kani::unwind(8)]
    fn k_zz256() {
        // add_rsh224 / borrow
        let (a, la) = any256(); let (b, lb) = any256();
        let sum: [u64; 4] = R::add(la, lb);   // truncated to 256 bits
        assert!(a.add_rsh224(&b) == (sum[3] >> 32) as u32);
        assert!(a.borrow(&b) == if R::ge(la, lb) { 0 } else { 1 });
    }
    #[kani::proof]
    #[kani::stub(crrl::backend::w64::addcarry_u64, super::portable_addcarry_u64)]
    #[kani::stub(crrl::backend::w64::subborrow_u64, super::portable_subborrow_u64)]
    #[kani::unwind(8)]
    fn k_zz384() {
        // Zu384::set_add / trunc_and_rsh_cc for every documented shift count
        let (a, la) = any384(); let (b, lb) = any384();
        let mut c = a; c.set_add(&b);
        assert!(R::eq(c.verif_limbs(), R::add(la, lb)));
        let n: u32 = kani::any();
        kani::assume(n >= 225 && n <= 255);
        let bb: u32 = kani::any();
        let mut x = a;
        let (lo, hi) = x.trunc_and_rsh_cc(bb, n);
        // lo == a mod 2^n
        let l = lo.verif_limbs();
        let sh = n - 192;
        assert!(l[0] == la[0] && l[1] == la[1] && l[2] == la[2] && l[3] == (la[3] & ((1u64 << sh) - 1)));
        // hi == (floor(a / 2^n) + bb) mod 2^128, computed on u128 halves
        let q_lo = ((la[3] as u128) | ((la[4] as u128) << 64)) >> sh;          // bits n .. n+127-? of a (low part)
        let q = (q_lo & (u128::MAX >> sh)) | (((la[5] as u128) << (128 - sh)) & !(u128::MAX >> sh)) | (((la[4] as u128) << 64 >> sh) & 0);
        let q = ((((la[4] as u128) | ((la[5] as u128) << 64)) << (64 - sh)) & !((1u128 << 64) - 1) & u128::MAX) | ((((la[3] as u128) | ((la[4] as u128) << 64)) >> sh) & ((1u128 << 64) - 1)) | 0 * q;
        let h = hi.verif_limbs();
        assert!((((h[1] as u128) << 64) | h[0] as u128) == q.wrapping_add(bb as u128));
    }
}

#[kani::proof]
fn k_smoke_true() { let x: u8 = kani::any(); assert!(x as u32 + 1 > 0); }
/// vacuity guard: this harness MUST fail; the runner checks that it does.
#[kani::proof]
fn k_canary_must_fail() { let x: u8 = kani::any(); assert!(x != 77); }
