//! Executable postconditions for C17: SHA-2, SHA-3/SHAKE and BLAKE2s streaming
//! APIs return the standard digest of everything supplied since the last
//! reset, however the input (or SHAKE output) is split across calls.
//!
//! The oracles are from-the-standard reference implementations written below
//! (FIPS 180-4, FIPS 202, RFC 7693). All SHA-2 constants are *derived* (cube /
//! square roots of primes, the SHA-512/t IV generation function), the Keccak
//! round constants and rotation offsets come from the FIPS 202 LFSR / walk.
//! The references are validated against hard-coded known answers at first use
//! and in a unit test.
use crate::gen::Rng;
use crate::ora::hex;
use crate::{Case, Op};
use num_bigint::BigUint;
use std::sync::OnceLock;

// ======================================================================
// Reference implementations
// ======================================================================

fn first_primes(n: usize) -> Vec<u32> {
    let mut v: Vec<u32> = Vec::new();
    let mut c = 2u32;
    while v.len() < n {
        if v.iter().all(|p| c % p != 0) { v.push(c); }
        c += 1;
    }
    v
}

/// first `bits` bits (bits <= 64) of the fractional part of p^(1/root)
fn frac_root(p: u32, root: u32, bits: u32) -> u64 {
    let n = BigUint::from(p) << ((bits * root) as usize);
    let r = n.nth_root(root);
    let m = r & ((BigUint::from(1u8) << (bits as usize)) - BigUint::from(1u8));
    m.to_u64_digits().first().copied().unwrap_or(0)
}

struct Sha2Consts {
    k256: [u32; 64],
    k512: [u64; 80],
    iv224: [u32; 8],
    iv256: [u32; 8],
    iv384: [u64; 8],
    iv512: [u64; 8],
    iv512_224: [u64; 8],
    iv512_256: [u64; 8],
}

fn sha2_consts() -> &'static Sha2Consts {
    static C: OnceLock<Sha2Consts> = OnceLock::new();
    C.get_or_init(|| {
        let pr = first_primes(80);
        let mut k256 = [0u32; 64];
        let mut k512 = [0u64; 80];
        for i in 0..64 { k256[i] = frac_root(pr[i], 3, 32) as u32; }
        for i in 0..80 { k512[i] = frac_root(pr[i], 3, 64); }
        let mut iv224 = [0u32; 8];
        let mut iv256 = [0u32; 8];
        let mut iv384 = [0u64; 8];
        let mut iv512 = [0u64; 8];
        for i in 0..8 {
            iv256[i] = frac_root(pr[i], 2, 32) as u32;
            iv512[i] = frac_root(pr[i], 2, 64);
            iv384[i] = frac_root(pr[i + 8], 2, 64);
            // "second 32 bits of the fractional parts of the square roots of the 9th..16th primes"
            iv224[i] = iv384[i] as u32;
        }
        // SHA-512/t IV generation function (FIPS 180-4, 5.3.6)
        let gen_t = |name: &str| -> [u64; 8] {
            let mut h0 = iv512;
            for x in h0.iter_mut() { *x ^= 0xa5a5a5a5a5a5a5a5; }
            sha512_blocks(h0, &k512, name.as_bytes())
        };
        let iv512_224 = gen_t("SHA-512/224");
        let iv512_256 = gen_t("SHA-512/256");
        Sha2Consts { k256, k512, iv224, iv256, iv384, iv512, iv512_224, iv512_256 }
    })
}

fn sha256_blocks(mut h: [u32; 8], k: &[u32; 64], msg: &[u8]) -> [u32; 8] {
    let mut m = msg.to_vec();
    let bitlen = (msg.len() as u64) * 8;
    m.push(0x80);
    while m.len() % 64 != 56 { m.push(0); }
    m.extend_from_slice(&bitlen.to_be_bytes());
    for blk in m.chunks(64) {
        let mut w = [0u32; 64];
        for t in 0..16 { w[t] = u32::from_be_bytes([blk[4 * t], blk[4 * t + 1], blk[4 * t + 2], blk[4 * t + 3]]); }
        for t in 16..64 {
            let s0 = w[t - 15].rotate_right(7) ^ w[t - 15].rotate_right(18) ^ (w[t - 15] >> 3);
            let s1 = w[t - 2].rotate_right(17) ^ w[t - 2].rotate_right(19) ^ (w[t - 2] >> 10);
            w[t] = s1.wrapping_add(w[t - 7]).wrapping_add(s0).wrapping_add(w[t - 16]);
        }
        let (mut a, mut b, mut c, mut d, mut e, mut f, mut g, mut hh) = (h[0], h[1], h[2], h[3], h[4], h[5], h[6], h[7]);
        for t in 0..64 {
            let big1 = e.rotate_right(6) ^ e.rotate_right(11) ^ e.rotate_right(25);
            let ch = (e & f) ^ (!e & g);
            let t1 = hh.wrapping_add(big1).wrapping_add(ch).wrapping_add(k[t]).wrapping_add(w[t]);
            let big0 = a.rotate_right(2) ^ a.rotate_right(13) ^ a.rotate_right(22);
            let maj = (a & b) ^ (a & c) ^ (b & c);
            let t2 = big0.wrapping_add(maj);
            hh = g; g = f; f = e; e = d.wrapping_add(t1); d = c; c = b; b = a; a = t1.wrapping_add(t2);
        }
        let add = [a, b, c, d, e, f, g, hh];
        for i in 0..8 { h[i] = h[i].wrapping_add(add[i]); }
    }
    h
}

fn sha512_blocks(mut h: [u64; 8], k: &[u64; 80], msg: &[u8]) -> [u64; 8] {
    let mut m = msg.to_vec();
    let bitlen = (msg.len() as u128) * 8;
    m.push(0x80);
    while m.len() % 128 != 112 { m.push(0); }
    m.extend_from_slice(&bitlen.to_be_bytes());
    for blk in m.chunks(128) {
        let mut w = [0u64; 80];
        for t in 0..16 {
            let mut x = 0u64;
            for j in 0..8 { x = (x << 8) | blk[8 * t + j] as u64; }
            w[t] = x;
        }
        for t in 16..80 {
            let s0 = w[t - 15].rotate_right(1) ^ w[t - 15].rotate_right(8) ^ (w[t - 15] >> 7);
            let s1 = w[t - 2].rotate_right(19) ^ w[t - 2].rotate_right(61) ^ (w[t - 2] >> 6);
            w[t] = s1.wrapping_add(w[t - 7]).wrapping_add(s0).wrapping_add(w[t - 16]);
        }
        let (mut a, mut b, mut c, mut d, mut e, mut f, mut g, mut hh) = (h[0], h[1], h[2], h[3], h[4], h[5], h[6], h[7]);
        for t in 0..80 {
            let big1 = e.rotate_right(14) ^ e.rotate_right(18) ^ e.rotate_right(41);
            let ch = (e & f) ^ (!e & g);
            let t1 = hh.wrapping_add(big1).wrapping_add(ch).wrapping_add(k[t]).wrapping_add(w[t]);
            let big0 = a.rotate_right(28) ^ a.rotate_right(34) ^ a.rotate_right(39);
            let maj = (a & b) ^ (a & c) ^ (b & c);
            let t2 = big0.wrapping_add(maj);
            hh = g; g = f; f = e; e = d.wrapping_add(t1); d = c; c = b; b = a; a = t1.wrapping_add(t2);
        }
        let add = [a, b, c, d, e, f, g, hh];
        for i in 0..8 { h[i] = h[i].wrapping_add(add[i]); }
    }
    h
}

fn words32_be(h: &[u32; 8], outlen: usize) -> Vec<u8> {
    let mut o = Vec::new();
    for x in h { o.extend_from_slice(&x.to_be_bytes()); }
    o.truncate(outlen);
    o
}
fn words64_be(h: &[u64; 8], outlen: usize) -> Vec<u8> {
    let mut o = Vec::new();
    for x in h { o.extend_from_slice(&x.to_be_bytes()); }
    o.truncate(outlen);
    o
}

pub fn ref_sha224(m: &[u8]) -> Vec<u8> { let c = sha2_consts(); words32_be(&sha256_blocks(c.iv224, &c.k256, m), 28) }
pub fn ref_sha256(m: &[u8]) -> Vec<u8> { let c = sha2_consts(); words32_be(&sha256_blocks(c.iv256, &c.k256, m), 32) }
pub fn ref_sha384(m: &[u8]) -> Vec<u8> { let c = sha2_consts(); words64_be(&sha512_blocks(c.iv384, &c.k512, m), 48) }
pub fn ref_sha512(m: &[u8]) -> Vec<u8> { let c = sha2_consts(); words64_be(&sha512_blocks(c.iv512, &c.k512, m), 64) }
pub fn ref_sha512_224(m: &[u8]) -> Vec<u8> { let c = sha2_consts(); words64_be(&sha512_blocks(c.iv512_224, &c.k512, m), 28) }
pub fn ref_sha512_256(m: &[u8]) -> Vec<u8> { let c = sha2_consts(); words64_be(&sha512_blocks(c.iv512_256, &c.k512, m), 32) }

// ---------------- Keccak-f[1600] / sponge (FIPS 202) ----------------

struct KeccakConsts { rc: [u64; 24], rho: [u32; 25] }

fn keccak_consts() -> &'static KeccakConsts {
    static C: OnceLock<KeccakConsts> = OnceLock::new();
    C.get_or_init(|| {
        // Algorithm 5: rc(t)
        fn rc_bit(t: usize) -> u64 {
            if t % 255 == 0 { return 1; }
            // R[0..8], R[0] is the leftmost bit
            let mut r = [1u8, 0, 0, 0, 0, 0, 0, 0];
            for _ in 1..=(t % 255) {
                let mut n = [0u8; 9];
                n[1..9].copy_from_slice(&r);
                n[0] ^= n[8];
                n[4] ^= n[8];
                n[5] ^= n[8];
                n[6] ^= n[8];
                r.copy_from_slice(&n[0..8]);
            }
            r[0] as u64
        }
        let mut rc = [0u64; 24];
        for ir in 0..24 {
            for j in 0..=6usize {
                rc[ir] |= rc_bit(j + 7 * ir) << ((1usize << j) - 1);
            }
        }
        // Algorithm 2: rho offsets
        let mut rho = [0u32; 25];
        let (mut x, mut y) = (1usize, 0usize);
        for t in 0..24u32 {
            rho[x + 5 * y] = ((t + 1) * (t + 2) / 2) % 64;
            let nx = y;
            let ny = (2 * x + 3 * y) % 5;
            x = nx;
            y = ny;
        }
        KeccakConsts { rc, rho }
    })
}

fn keccak_f(a: &mut [u64; 25]) {
    let kc = keccak_consts();
    for ir in 0..24 {
        // theta
        let mut c = [0u64; 5];
        for x in 0..5 { for y in 0..5 { c[x] ^= a[x + 5 * y]; } }
        for x in 0..5 {
            let d = c[(x + 4) % 5] ^ c[(x + 1) % 5].rotate_left(1);
            for y in 0..5 { a[x + 5 * y] ^= d; }
        }
        // rho
        for i in 0..25 { a[i] = a[i].rotate_left(kc.rho[i]); }
        // pi: A'[x][y] = A[(x+3y) mod 5][x]
        let mut b = [0u64; 25];
        for x in 0..5 { for y in 0..5 { b[x + 5 * y] = a[((x + 3 * y) % 5) + 5 * x]; } }
        // chi
        for x in 0..5 { for y in 0..5 { a[x + 5 * y] = b[x + 5 * y] ^ (!b[(x + 1) % 5 + 5 * y] & b[(x + 2) % 5 + 5 * y]); } }
        // iota
        a[0] ^= kc.rc[ir];
    }
}

/// Sponge with byte-aligned message, domain/padding byte `dom` (0x06 SHA-3, 0x1F SHAKE).
pub fn ref_keccak(rate: usize, dom: u8, msg: &[u8], outlen: usize) -> Vec<u8> {
    let mut p = msg.to_vec();
    p.push(dom);
    while p.len() % rate != 0 { p.push(0); }
    let n = p.len();
    p[n - 1] ^= 0x80;
    let mut a = [0u64; 25];
    for blk in p.chunks(rate) {
        for (i, byte) in blk.iter().enumerate() { a[i / 8] ^= (*byte as u64) << (8 * (i % 8)); }
        keccak_f(&mut a);
    }
    let mut out = Vec::with_capacity(outlen + rate);
    loop {
        for i in 0..rate { out.push((a[i / 8] >> (8 * (i % 8))) as u8); }
        if out.len() >= outlen { break; }
        keccak_f(&mut a);
    }
    out.truncate(outlen);
    out
}
pub fn ref_sha3_224(m: &[u8]) -> Vec<u8> { ref_keccak(144, 0x06, m, 28) }
pub fn ref_sha3_256(m: &[u8]) -> Vec<u8> { ref_keccak(136, 0x06, m, 32) }
pub fn ref_sha3_384(m: &[u8]) -> Vec<u8> { ref_keccak(104, 0x06, m, 48) }
pub fn ref_sha3_512(m: &[u8]) -> Vec<u8> { ref_keccak(72, 0x06, m, 64) }
pub fn ref_shake128(m: &[u8], n: usize) -> Vec<u8> { ref_keccak(168, 0x1F, m, n) }
pub fn ref_shake256(m: &[u8], n: usize) -> Vec<u8> { ref_keccak(136, 0x1F, m, n) }

// ---------------- BLAKE2s (RFC 7693) ----------------

const B2S_SIGMA: [[usize; 16]; 10] = [
    [0, 1, 2, 3, 4, 5, 6, 7, 8, 9, 10, 11, 12, 13, 14, 15],
    [14, 10, 4, 8, 9, 15, 13, 6, 1, 12, 0, 2, 11, 7, 5, 3],
    [11, 8, 12, 0, 5, 2, 15, 13, 10, 14, 3, 6, 7, 1, 9, 4],
    [7, 9, 3, 1, 13, 12, 11, 14, 2, 6, 5, 10, 4, 0, 15, 8],
    [9, 0, 5, 7, 2, 4, 10, 15, 14, 1, 11, 12, 6, 8, 3, 13],
    [2, 12, 6, 10, 0, 11, 8, 3, 4, 13, 7, 5, 15, 14, 1, 9],
    [12, 5, 1, 15, 14, 13, 4, 10, 0, 7, 6, 3, 9, 2, 8, 11],
    [13, 11, 7, 14, 12, 1, 3, 9, 5, 0, 15, 4, 8, 6, 2, 10],
    [6, 15, 14, 9, 11, 3, 0, 8, 12, 2, 13, 7, 1, 4, 10, 5],
    [10, 2, 8, 4, 7, 6, 1, 5, 15, 11, 9, 14, 3, 12, 13, 0],
];

fn b2s_g(v: &mut [u32; 16], a: usize, b: usize, c: usize, d: usize, x: u32, y: u32) {
    v[a] = v[a].wrapping_add(v[b]).wrapping_add(x);
    v[d] = (v[d] ^ v[a]).rotate_right(16);
    v[c] = v[c].wrapping_add(v[d]);
    v[b] = (v[b] ^ v[c]).rotate_right(12);
    v[a] = v[a].wrapping_add(v[b]).wrapping_add(y);
    v[d] = (v[d] ^ v[a]).rotate_right(8);
    v[c] = v[c].wrapping_add(v[d]);
    v[b] = (v[b] ^ v[c]).rotate_right(7);
}

fn b2s_f(h: &mut [u32; 8], iv: &[u32; 8], blk: &[u8], t: u64, last: bool) {
    let mut m = [0u32; 16];
    for i in 0..16 { m[i] = u32::from_le_bytes([blk[4 * i], blk[4 * i + 1], blk[4 * i + 2], blk[4 * i + 3]]); }
    let mut v = [0u32; 16];
    for i in 0..8 { v[i] = h[i]; v[i + 8] = iv[i]; }
    v[12] ^= t as u32;
    v[13] ^= (t >> 32) as u32;
    if last { v[14] ^= 0xFFFFFFFF; }
    for r in 0..10 {
        let s = &B2S_SIGMA[r];
        b2s_g(&mut v, 0, 4, 8, 12, m[s[0]], m[s[1]]);
        b2s_g(&mut v, 1, 5, 9, 13, m[s[2]], m[s[3]]);
        b2s_g(&mut v, 2, 6, 10, 14, m[s[4]], m[s[5]]);
        b2s_g(&mut v, 3, 7, 11, 15, m[s[6]], m[s[7]]);
        b2s_g(&mut v, 0, 5, 10, 15, m[s[8]], m[s[9]]);
        b2s_g(&mut v, 1, 6, 11, 12, m[s[10]], m[s[11]]);
        b2s_g(&mut v, 2, 7, 8, 13, m[s[12]], m[s[13]]);
        b2s_g(&mut v, 3, 4, 9, 14, m[s[14]], m[s[15]]);
    }
    for i in 0..8 { h[i] ^= v[i] ^ v[i + 8]; }
}

/// BLAKE2s(nn = outlen, key, msg), RFC 7693 section 3.3
pub fn ref_blake2s(outlen: usize, key: &[u8], msg: &[u8]) -> Vec<u8> {
    assert!(outlen >= 1 && outlen <= 32 && key.len() <= 32);
    let iv = sha2_consts().iv256; // BLAKE2s IV == SHA-256 IV (RFC 7693 2.6)
    let mut h = iv;
    h[0] ^= 0x01010000 ^ ((key.len() as u32) << 8) ^ (outlen as u32);
    // data = [key padded to a block, if any] || msg, padded with zeros to a
    // block multiple; an empty unkeyed message is one all-zero block.
    let mut d = Vec::new();
    if !key.is_empty() { d.extend_from_slice(key); d.resize(64, 0); }
    d.extend_from_slice(msg);
    let total = d.len() as u64; // == ll (+ 64 if keyed)
    if d.is_empty() { d.resize(64, 0); }
    while d.len() % 64 != 0 { d.push(0); }
    let dd = d.len() / 64;
    for i in 0..dd - 1 { b2s_f(&mut h, &iv, &d[64 * i..64 * i + 64], 64 * (i as u64 + 1), false); }
    b2s_f(&mut h, &iv, &d[64 * (dd - 1)..], total, true);
    let mut o = Vec::new();
    for x in h { o.extend_from_slice(&x.to_le_bytes()); }
    o.truncate(outlen);
    o
}

// ---------------- known answers ----------------

fn kat_msg2() -> Vec<u8> { (0..1000usize).map(|i| ((i * 7 + 3) & 0xff) as u8).collect() }

fn self_test() -> Result<(), String> {
    fn ck(name: &str, got: Vec<u8>, want: &str) -> Result<(), String> {
        if hex(&got) == want { Ok(()) } else { Err(format!("reference self-test {}: got {} want {}", name, hex(&got), want)) }
    }
    let m2 = kat_msg2();
    ck("sha224 abc", ref_sha224(b"abc"), "23097d223405d8228642a477bda255b32aadbce4bda0b3f7e36c9da7")?;
    ck("sha224 empty", ref_sha224(b""), "d14a028c2a3a2bc9476102bb288234c415a2b01f828ea62ac5b3e42f")?;
    ck("sha224 m2", ref_sha224(&m2), "23729dacbd480285c5c68439e2fe22ca5611a63cd6c14d2ec5ae2c85")?;
    ck("sha256 abc", ref_sha256(b"abc"), "ba7816bf8f01cfea414140de5dae2223b00361a396177a9cb410ff61f20015ad")?;
    ck("sha256 empty", ref_sha256(b""), "e3b0c44298fc1c149afbf4c8996fb92427ae41e4649b934ca495991b7852b855")?;
    ck("sha256 m2", ref_sha256(&m2), "1e9bc38cbf860b9ec31918b065f9b52476c549a782e0e7990bed8ce3868d2371")?;
    ck("sha384 abc", ref_sha384(b"abc"), "cb00753f45a35e8bb5a03d699ac65007272c32ab0eded1631a8b605a43ff5bed8086072ba1e7cc2358baeca134c825a7")?;
    ck("sha384 empty", ref_sha384(b""), "38b060a751ac96384cd9327eb1b1e36a21fdb71114be07434c0cc7bf63f6e1da274edebfe76f65fbd51ad2f14898b95b")?;
    ck("sha384 m2", ref_sha384(&m2), "94c38db521ca733b8904c2d14b6e82d33dcfcc26e1318c579dbee1fc2f472019034e792263b9d46e90e700de2f6e7e91")?;
    ck("sha512 abc", ref_sha512(b"abc"), "ddaf35a193617abacc417349ae20413112e6fa4e89a97ea20a9eeee64b55d39a2192992a274fc1a836ba3c23a3feebbd454d4423643ce80e2a9ac94fa54ca49f")?;
    ck("sha512 empty", ref_sha512(b""), "cf83e1357eefb8bdf1542850d66d8007d620e4050b5715dc83f4a921d36ce9ce47d0d13c5d85f2b0ff8318d2877eec2f63b931bd47417a81a538327af927da3e")?;
    ck("sha512 m2", ref_sha512(&m2), "00e36fccf193e59697a92b5ab24666ce6326d7fa16bf10832d0991ddc591112e9dfa6a636950ed9c4d67344a760654c2ff7785e1d60094d651038735b5dccabd")?;
    ck("sha512/224 abc", ref_sha512_224(b"abc"), "4634270f707b6a54daae7530460842e20e37ed265ceee9a43e8924aa")?;
    ck("sha512/224 empty", ref_sha512_224(b""), "6ed0dd02806fa89e25de060c19d3ac86cabb87d6a0ddd05c333b84f4")?;
    ck("sha512/224 m2", ref_sha512_224(&m2), "b6c1c1e13c07e992f0df6a5c8e4c6c153f91516cfa051b9fbfa88514")?;
    ck("sha512/256 abc", ref_sha512_256(b"abc"), "53048e2681941ef99b2e29b76b4c7dabe4c2d0c634fc6d46e0e2f13107e7af23")?;
    ck("sha512/256 empty", ref_sha512_256(b""), "c672b8d1ef56ed28ab87c3622c5114069bdd3ad7b8f9737498d0c01ecef0967a")?;
    ck("sha512/256 m2", ref_sha512_256(&m2), "14271b3d36ca983ae2da2693d995fe68412c0bd5394ec2f05b763586db6e24fd")?;
    ck("sha3-224 abc", ref_sha3_224(b"abc"), "e642824c3f8cf24ad09234ee7d3c766fc9a3a5168d0c94ad73b46fdf")?;
    ck("sha3-224 empty", ref_sha3_224(b""), "6b4e03423667dbb73b6e15454f0eb1abd4597f9a1b078e3f5b5a6bc7")?;
    ck("sha3-224 m2", ref_sha3_224(&m2), "56812d3d31242051de174106777f4108c791ab801f1569f73d57fa0b")?;
    ck("sha3-256 abc", ref_sha3_256(b"abc"), "3a985da74fe225b2045c172d6bd390bd855f086e3e9d525b46bfe24511431532")?;
    ck("sha3-256 empty", ref_sha3_256(b""), "a7ffc6f8bf1ed76651c14756a061d662f580ff4de43b49fa82d80a4b80f8434a")?;
    ck("sha3-256 m2", ref_sha3_256(&m2), "bd8b4d76041e0135e53fab1aaf425c7b1c129d8878ffb64cc31230ccafd7dc7c")?;
    ck("sha3-384 abc", ref_sha3_384(b"abc"), "ec01498288516fc926459f58e2c6ad8df9b473cb0fc08c2596da7cf0e49be4b298d88cea927ac7f539f1edf228376d25")?;
    ck("sha3-384 empty", ref_sha3_384(b""), "0c63a75b845e4f7d01107d852e4c2485c51a50aaaa94fc61995e71bbee983a2ac3713831264adb47fb6bd1e058d5f004")?;
    ck("sha3-384 m2", ref_sha3_384(&m2), "01269eed23d8f1c00d333933989211974c16fed038dfde30f8514168ae13e8409f565dbe4d81399b6ed23db9762f7989")?;
    ck("sha3-512 abc", ref_sha3_512(b"abc"), "b751850b1a57168a5693cd924b6b096e08f621827444f70d884f5d0240d2712e10e116e9192af3c91a7ec57647e3934057340b4cf408d5a56592f8274eec53f0")?;
    ck("sha3-512 empty", ref_sha3_512(b""), "a69f73cca23a9ac5c8b567dc185a756e97c982164fe25859e0d1dcc1475c80a615b2123af1f5f94c11e3e9402c3ac558f500199d95b6d3e301758586281dcd26")?;
    ck("sha3-512 m2", ref_sha3_512(&m2), "3d71681b54b99f11ddeb233b0a41b65896f7b30dda9e83d52864a4e818a09408e2f306028abe973298f96ee081a06e5ac8156cd7b856f0eb28270e1ca37bd0c6")?;
    ck("shake128 abc", ref_shake128(b"abc", 40), "5881092dd818bf5cf8a3ddb793fbcba74097d5c526a6d35f97b83351940f2cc844c50af32acd3f2c")?;
    ck("shake128 empty", ref_shake128(b"", 32), "7f9c2ba4e88f827d616045507605853ed73b8093f6efbc88eb1a6eacfa66ef26")?;
    ck("shake128 m2 tail", ref_shake128(&m2, 400)[368..].to_vec(), "b838e7cd0d267864dd018a494591cebcb0cae05d1a094ff60d2bd12e334a557e")?;
    ck("shake256 abc", ref_shake256(b"abc", 40), "483366601360a8771c6863080cc4114d8db44530f8f1e1ee4f94ea37e78b5739d5a15bef186a5386")?;
    ck("shake256 empty", ref_shake256(b"", 32), "46b9dd2b0ba88d13233b3feb743eeb243fcd52ea62b81b82b50c27646ed5762f")?;
    ck("shake256 m2 tail", ref_shake256(&m2, 400)[368..].to_vec(), "a14c2508e03b7d2aecb77467428c9130a781e55c78b2c58352f7a52b152b317c")?;
    let key: Vec<u8> = (0..32u8).collect();
    ck("blake2s abc", ref_blake2s(32, &[], b"abc"), "508c5e8c327c14e2e1a72ba34eeb452f37458b209ed63a294d999b4c86675982")?;
    ck("blake2s empty", ref_blake2s(32, &[], b""), "69217a3079908094e11121d042354a7c1f55b6482ca1a51e1b250dfd1ed0eef9")?;
    ck("blake2s m2", ref_blake2s(32, &[], &m2), "02a016193469710efadf8fb005ca19b509331cb847df5598cc0794bded669681")?;
    ck("blake2s keyed empty", ref_blake2s(32, &key, b""), "48a8997da407876b3d79c0d92325ad3b89cbb754d86ab71aee047ad345fd2c49")?;
    ck("blake2s keyed 00", ref_blake2s(32, &key, &[0]), "40d15fee7c328830166ac3f918650f807e7e01e177258cdc0a39b11f598066f1")?;
    let m255: Vec<u8> = (0..255usize).map(|i| i as u8).collect();
    ck("blake2s keyed 255", ref_blake2s(32, &key, &m255), "3fb735061abc519dfe979e54c1ee5bfad0a9d858b3315bad34bde999efd724dd")?;
    ck("blake2s key7 out5", ref_blake2s(5, &key[..7], &m255[..100]), "481ca202c6")?;
    Ok(())
}

fn ensure_refs() -> Result<(), String> {
    static R: OnceLock<Result<(), String>> = OnceLock::new();
    R.get_or_init(self_test).clone()
}

#[cfg(test)]
mod tests {
    #[test]
    fn reference_known_answers() { super::self_test().unwrap(); }
}

// ======================================================================
// Call-script encoding
// ======================================================================
//
// Chunk header:   n:u8, then (n < 32) n little-endian u16 chunk lengths, or
//                 (n >= 32) no list: uniform chunks of n-31 bytes.
//                 Each chunk is clamped to what is left of the message; what
//                 remains after the list is supplied in one last call.
// Chunked input:  [params] chunk-header message
// Op script:      [params] records; record = op:u8, len:u16 LE, data[len]
//                 (len clamped to the remaining input).

const MAX_MSG: usize = 1024;

enum Chunks { List(Vec<usize>), Uniform(usize) }

fn parse_chunks(inp: &[u8], p: &mut usize) -> Option<Chunks> {
    let n = *inp.get(*p)? as usize;
    *p += 1;
    if n >= 32 { return Some(Chunks::Uniform(n - 31)); }
    if *p + 2 * n > inp.len() { return None; }
    let mut v = Vec::with_capacity(n);
    for i in 0..n { v.push(u16::from_le_bytes([inp[*p + 2 * i], inp[*p + 2 * i + 1]]) as usize); }
    *p += 2 * n;
    Some(Chunks::List(v))
}

fn pieces<'a>(c: &Chunks, msg: &'a [u8]) -> Vec<&'a [u8]> {
    let mut out = Vec::new();
    let mut pos = 0;
    match c {
        Chunks::List(v) => {
            for &l in v {
                let l = l.min(msg.len() - pos);
                out.push(&msg[pos..pos + l]);
                pos += l;
            }
            if pos < msg.len() || v.is_empty() { out.push(&msg[pos..]); }
        }
        Chunks::Uniform(s) => {
            while pos < msg.len() {
                let l = (*s).min(msg.len() - pos);
                out.push(&msg[pos..pos + l]);
                pos += l;
            }
        }
    }
    out
}

fn records(inp: &[u8]) -> Vec<(u8, &[u8])> {
    let mut v = Vec::new();
    let mut p = 0;
    while p + 3 <= inp.len() && v.len() < 24 {
        let op = inp[p];
        let l = (u16::from_le_bytes([inp[p + 1], inp[p + 2]]) as usize).min(inp.len() - p - 3);
        v.push((op, &inp[p + 3..p + 3 + l]));
        p += 3 + l;
    }
    v
}

fn eqv(what: &str, got: &[u8], want: &[u8], ctx: &dyn Fn() -> String) -> Result<(), String> {
    if got == want { Ok(()) } else { Err(format!("{}: got {} want {} ({})", what, hex(got), hex(want), ctx())) }
}

// ======================================================================
// Fixed-output hash abstraction
// ======================================================================

/// P = construction parameters (unit for SHA-2/SHA-3; (out_len, key) for BLAKE2s)
trait StreamHash: Sized {
    type P;
    fn new(p: &Self::P) -> Self;
    fn upd(&mut self, d: &[u8]);
    /// finalize and leave the instance reset; `variant` selects among the equivalent API entry points
    fn fin_reset(&mut self, variant: u8) -> Vec<u8>;
    /// finalize through an entry point that is not documented to reset (the instance is dropped afterwards)
    fn fin_once(&mut self) -> Vec<u8>;
    fn rst(&mut self);
    fn dup(&self) -> Option<Self>;
    fn oneshot(p: &Self::P, d: &[u8]) -> Vec<u8>;
}

macro_rules! impl_fixed { ($T:ty, $n:expr) => {
    impl StreamHash for $T {
        type P = ();
        fn new(_: &()) -> Self { <$T>::new() }
        fn upd(&mut self, d: &[u8]) { self.update(d) }
        fn fin_reset(&mut self, variant: u8) -> Vec<u8> {
            match variant & 3 {
                0 => self.digest().to_vec(),
                1 => self.finalize_reset().to_vec(),
                2 => { let mut o = [0xA5u8; $n + 3]; let n = self.finalize_write(&mut o); assert!(n == $n && o[$n..] == [0xA5u8; 3]); o[..$n].to_vec() }
                _ => { let mut o = [0x5Au8; $n]; let n = self.finalize_reset_write(&mut o); assert!(n == $n); o.to_vec() }
            }
        }
        fn fin_once(&mut self) -> Vec<u8> { self.finalize().to_vec() }
        fn rst(&mut self) { self.reset() }
        fn dup(&self) -> Option<Self> { Some(self.clone()) }
        fn oneshot(_: &(), d: &[u8]) -> Vec<u8> { <$T>::hash(d).to_vec() }
    }
} }
impl_fixed!(crrl::sha2::Sha224, 28);
impl_fixed!(crrl::sha2::Sha256, 32);
impl_fixed!(crrl::sha2::Sha384, 48);
impl_fixed!(crrl::sha2::Sha512, 64);
impl_fixed!(crrl::sha2::Sha512_224, 28);
impl_fixed!(crrl::sha2::Sha512_256, 32);
impl_fixed!(crrl::sha3::SHA3_224, 28);
impl_fixed!(crrl::sha3::SHA3_256, 32);
impl_fixed!(crrl::sha3::SHA3_384, 48);
impl_fixed!(crrl::sha3::SHA3_512, 64);

/// unkeyed BLAKE2s with any output length
impl StreamHash for crrl::blake2s::Blake2s {
    type P = usize;
    fn new(p: &usize) -> Self { crrl::blake2s::Blake2s::new(*p) }
    fn upd(&mut self, d: &[u8]) { self.update(d) }
    fn fin_reset(&mut self, variant: u8) -> Vec<u8> {
        let mut o = [0xA5u8; 40];
        let n = if variant & 1 == 0 { self.finalize_reset_write(&mut o) } else { let n = self.finalize_write(&mut o); self.reset(); n };
        assert!(o[n..] == [0xA5u8; 40][n..], "finalize wrote past out_len");
        o[..n].to_vec()
    }
    fn fin_once(&mut self) -> Vec<u8> { let mut o = [0xA5u8; 40]; let n = self.finalize_write(&mut o); assert!(o[n..] == [0xA5u8; 40][n..], "finalize wrote past out_len"); o[..n].to_vec() }
    fn rst(&mut self) { self.reset() }
    fn dup(&self) -> Option<Self> { None }
    fn oneshot(p: &usize, d: &[u8]) -> Vec<u8> { let mut o = [0u8; 32]; crrl::blake2s::Blake2s::hash_into(*p, d, &mut o); o[..*p].to_vec() }
}

/// keyed BLAKE2s; every fin_reset / rst goes through KeyedBlake2s::reset
impl StreamHash for crrl::blake2s::KeyedBlake2s {
    type P = (usize, Vec<u8>);
    fn new(p: &Self::P) -> Self { crrl::blake2s::KeyedBlake2s::new(p.0, &p.1) }
    fn upd(&mut self, d: &[u8]) { self.update(d) }
    fn fin_reset(&mut self, variant: u8) -> Vec<u8> {
        let mut o = [0xA5u8; 40];
        let n = if variant & 1 == 0 { self.finalize_reset_write(&mut o) } else { let n = self.finalize_write(&mut o); self.reset(); n };
        assert!(o[n..] == [0xA5u8; 40][n..], "finalize wrote past out_len");
        o[..n].to_vec()
    }
    fn fin_once(&mut self) -> Vec<u8> { let mut o = [0xA5u8; 40]; let n = self.finalize_write(&mut o); assert!(o[n..] == [0xA5u8; 40][n..], "finalize wrote past out_len"); o[..n].to_vec() }
    fn rst(&mut self) { self.reset() }
    fn dup(&self) -> Option<Self> { None }
    fn oneshot(p: &Self::P, d: &[u8]) -> Vec<u8> { let mut o = [0u8; 32]; crrl::blake2s::KeyedBlake2s::hash_into(p.0, &p.1, d, &mut o); o[..p.0].to_vec() }
}

/// chunked == reference; one-shot == reference; instance is fresh after finalize-reset and after reset.
fn run_chunked<H: StreamHash>(p: &H::P, reff: &dyn Fn(&[u8]) -> Vec<u8>, inp: &[u8], with_reset: bool) -> Result<(), String> {
    ensure_refs()?;
    let mut pos = 0;
    let ch = match parse_chunks(inp, &mut pos) { Some(c) => c, None => return Ok(()) };
    let msg = &inp[pos..];
    if msg.len() > MAX_MSG { return Ok(()); }
    let pcs = pieces(&ch, msg);
    let want = reff(msg);
    let ctx = || format!("msg len {}, chunks {:?}", msg.len(), pcs.iter().map(|c| c.len()).collect::<Vec<_>>());
    eqv("one-shot", &H::oneshot(p, msg), &want, &ctx)?;
    let mut h = H::new(p);
    for c in &pcs { h.upd(c); }
    if !with_reset {
        return eqv("chunked", &h.fin_once(), &want, &ctx);
    }
    eqv("chunked", &h.fin_reset(0), &want, &ctx)?;
    // after finalize-reset: behaves as fresh (feed the pieces in reverse grouping)
    let mut lens: Vec<usize> = pcs.iter().map(|c| c.len()).collect();
    lens.reverse();
    let mut q = 0;
    for l in &lens { h.upd(&msg[q..q + l]); q += l; }
    eqv("after finalize_reset (reversed chunk order)", &h.fin_reset(3), &want, &ctx)?;
    // after explicit reset in mid-stream
    h.upd(&msg[..msg.len() / 2]);
    h.upd(&[0x80]);
    h.rst();
    for c in &pcs { h.upd(c); }
    eqv("after mid-stream reset", &h.fin_reset(1), &want, &ctx)?;
    // empty message after the previous finalize
    eqv("empty after finalize", &h.fin_reset(2), &reff(&[]), &ctx)
}

/// op script: update / finalize_reset / reset / clone+diverge
fn run_script<H: StreamHash>(p: &H::P, reff: &dyn Fn(&[u8]) -> Vec<u8>, script: &[u8]) -> Result<(), String> {
    ensure_refs()?;
    let recs = records(script);
    let mut h = H::new(p);
    let mut acc: Vec<u8> = Vec::new();
    for (i, (op, data)) in recs.iter().enumerate() {
        if acc.len() + data.len() > 4 * MAX_MSG { return Ok(()); }
        let variant = (op >> 3) & 3;
        let acc_len = acc.len();
        let ctx = || format!("record {} op {:#04x}, accumulated {} bytes, data {} bytes", i, op, acc_len, data.len());
        match op & 7 {
            1 => { eqv("finalize_reset", &h.fin_reset(variant), &reff(&acc), &ctx)?; acc.clear(); }
            2 => { h.rst(); acc.clear(); }
            3 => match h.dup() {
                Some(mut c) => {
                    c.upd(data);
                    let mut full = acc.clone(); full.extend_from_slice(data);
                    eqv("clone + suffix", &c.fin_reset(variant), &reff(&full), &ctx)?;
                    // the clone, now reset, is fresh and independent
                    c.upd(data);
                    eqv("clone reused", &c.fin_reset(variant), &reff(data), &ctx)?;
                }
                None => { h.upd(data); acc.extend_from_slice(data); }
            },
            4 => match h.dup() {
                Some(mut c) => {
                    let old = acc.clone();
                    h.upd(data); acc.extend_from_slice(data);
                    eqv("clone unaffected by original", &c.fin_reset(variant), &reff(&old), &ctx)?;
                }
                None => { h.upd(data); acc.extend_from_slice(data); }
            },
            _ => { h.upd(data); acc.extend_from_slice(data); }
        }
    }
    let n = recs.len();
    eqv("final digest", &h.fin_reset(0), &reff(&acc), &|| format!("after {} records, accumulated {} bytes", n, acc.len()))
}

// ======================================================================
// SHAKE
// ======================================================================

const MAX_XOF: usize = 800;

fn split_sizes(c: &Chunks) -> Vec<usize> {
    let mut v = Vec::new();
    let mut tot = 0;
    match c {
        Chunks::List(l) => for &x in l { let x = x.min(MAX_XOF - tot); v.push(x); tot += x; },
        Chunks::Uniform(s) => while tot < 600 { v.push(*s); tot += *s; },
    }
    v
}

/// inject chunking and extract splitting: `[chunk header][split header][message]`
fn run_shake_chunked<const SZ: usize>(reff: fn(&[u8], usize) -> Vec<u8>, inp: &[u8]) -> Result<(), String> {
    use crrl::sha3::SHAKE;
    ensure_refs()?;
    let mut pos = 0;
    let ch = match parse_chunks(inp, &mut pos) { Some(c) => c, None => return Ok(()) };
    let sp = match parse_chunks(inp, &mut pos) { Some(c) => c, None => return Ok(()) };
    let msg = &inp[pos..];
    if msg.len() > MAX_MSG { return Ok(()); }
    let pcs = pieces(&ch, msg);
    let splits = split_sizes(&sp);
    let total: usize = splits.iter().sum();
    let want = reff(msg, total + 40);
    let ctx = || format!("msg len {}, chunks {:?}, extract splits {:?}", msg.len(), pcs.iter().map(|c| c.len()).collect::<Vec<_>>(), splits);
    let mut sh = SHAKE::<SZ>::new();
    for (i, c) in pcs.iter().enumerate() { if i & 1 == 0 { sh.inject(c) } else { sh.update(c) } }
    sh.flip();
    let mut got = Vec::new();
    for &s in &splits {
        let mut b = vec![0xA5u8; s];
        sh.extract(&mut b);
        got.extend_from_slice(&b);
    }
    eqv("split extract", &got, &want[..total], &ctx)?;
    // a clone taken at this point continues the same stream, independently of the original
    let mut c = sh.clone();
    let mut t1 = [0u8; 40];
    let mut t2 = [0u8; 40];
    c.extract(&mut t1[..17]); c.extract(&mut t1[17..]);
    sh.extract(&mut t2);
    eqv("clone continues stream", &t1, &want[total..], &ctx)?;
    eqv("original continues stream", &t2, &want[total..], &ctx)?;
    // reset => fresh; one-call inject and flip_extract
    sh.reset();
    sh.inject(msg);
    let mut one = vec![0u8; total];
    sh.flip_extract(&mut one);
    eqv("after reset, flip_extract", &one, &want[..total], &ctx)?;
    sh.extract(&mut t2);
    eqv("extract after flip_extract", &t2, &want[total..], &ctx)?;
    // flip_extract_reset leaves a fresh instance
    let mut s2 = SHAKE::<SZ>::new();
    for c in pcs.iter().rev() { s2.inject(c); }
    let mut junk = [0u8; 33];
    s2.flip_extract_reset(&mut junk);
    for c in &pcs { s2.inject(c); }
    let mut two = vec![0u8; total];
    s2.flip_extract_reset(&mut two);
    eqv("after flip_extract_reset", &two, &want[..total], &ctx)?;
    s2.flip();
    s2.extract(&mut t2);
    eqv("empty input after flip_extract_reset", &t2, &reff(&[], 40), &ctx)
}

/// op script for SHAKE. ops (low 3 bits): 0,6,7 inject; 1 reset; 2 clone + suffix; 3 clone, original moves on;
/// 4 output phase (data = u16 split sizes) with a clone diverging mid-stream, then reset; 5 flip_extract_reset(len(data)).
fn run_shake_script<const SZ: usize>(reff: fn(&[u8], usize) -> Vec<u8>, script: &[u8]) -> Result<(), String> {
    use crrl::sha3::SHAKE;
    ensure_refs()?;
    let recs = records(script);
    let mut sh = SHAKE::<SZ>::new();
    let mut acc: Vec<u8> = Vec::new();
    for (i, (op, data)) in recs.iter().enumerate() {
        if acc.len() + data.len() > 4 * MAX_MSG { return Ok(()); }
        let acc_len = acc.len();
        let ctx = || format!("record {} op {:#04x}, accumulated {} bytes, data {} bytes", i, op, acc_len, data.len());
        match op & 7 {
            1 => { sh.reset(); acc.clear(); }
            2 => {
                let mut c = sh.clone();
                c.inject(data);
                c.flip();
                let mut full = acc.clone(); full.extend_from_slice(data);
                let mut o = [0u8; 200];
                c.extract(&mut o);
                eqv("clone + suffix", &o, &reff(&full, 200), &ctx)?;
            }
            3 => {
                let mut c = sh.clone();
                let old = acc.clone();
                sh.inject(data); acc.extend_from_slice(data);
                let mut o = [0u8; 64];
                c.flip_extract(&mut o);
                eqv("clone unaffected by original", &o, &reff(&old, 64), &ctx)?;
            }
            4 => {
                let mut splits: Vec<usize> = Vec::new();
                let mut tot = 0;
                for w in data.chunks_exact(2).take(16) { let x = (u16::from_le_bytes([w[0], w[1]]) as usize).min(MAX_XOF - tot); splits.push(x); tot += x; }
                let want = reff(&acc, tot);
                let mut got = Vec::new();
                let mut cl: Option<(SHAKE<SZ>, usize)> = None;
                for (j, &s) in splits.iter().enumerate() {
                    let mut b = vec![0u8; s];
                    if j == 0 && (op >> 3) & 1 == 1 { sh.flip_extract(&mut b); } else { if j == 0 { sh.flip(); } sh.extract(&mut b); }
                    got.extend_from_slice(&b);
                    if j == splits.len() / 2 { cl = Some((sh.clone(), got.len())); }
                }
                if splits.is_empty() { sh.flip(); }
                eqv("split extract", &got, &want, &|| format!("{} splits {:?}", ctx(), splits))?;
                if let Some((mut c, at)) = cl {
                    let mut rest = vec![0u8; tot - at];
                    c.extract(&mut rest);
                    eqv("mid-stream clone", &rest, &want[at..], &|| format!("{} splits {:?} clone at {}", ctx(), splits, at))?;
                }
                sh.reset(); acc.clear();
            }
            5 => {
                let mut o = vec![0u8; data.len()];
                sh.flip_extract_reset(&mut o);
                eqv("flip_extract_reset", &o, &reff(&acc, data.len()), &ctx)?;
                acc.clear();
            }
            7 => { sh.update(data); acc.extend_from_slice(data); }
            _ => { sh.inject(data); acc.extend_from_slice(data); }
        }
    }
    let mut o = [0u8; 32];
    sh.flip();
    sh.extract(&mut o);
    let n = recs.len();
    eqv("final output", &o, &reff(&acc, 32), &|| format!("after {} records, accumulated {} bytes", n, acc.len()))
}

// ======================================================================
// Generators (boundary-biased call scripts)
// ======================================================================
// B = block size / sponge rate, LF = number of trailing bytes the padding needs in the last
// block (SHA-256: 9, SHA-512: 17, Keccak: 1, BLAKE2s: 0).

fn boundary_lens(b: usize, lf: usize) -> Vec<usize> {
    let mut v: Vec<i64> = vec![0, 1, 2, 3, 7, 8, 9, 31, 32, 33, 200];
    for k in 1..=3i64 {
        for d in -2..=2i64 {
            v.push(k * b as i64 + d);
            v.push(k * b as i64 - lf as i64 + d);
        }
    }
    v.push(4 * b as i64 + 3);
    let mut w: Vec<usize> = v.into_iter().filter(|x| *x >= 0 && *x <= 700).map(|x| x as usize).collect();
    w.sort();
    w.dedup();
    w
}

fn content(len: usize, salt: usize) -> Vec<u8> {
    match salt % 5 {
        0 => vec![0u8; len],
        1 => vec![0xFFu8; len],
        2 => vec![0x80u8; len],
        _ => (0..len).map(|i| ((i * 167 + 13 + salt * 31) & 0xff) as u8).collect(),
    }
}

fn hdr_list(v: &[usize]) -> Vec<u8> {
    assert!(v.len() < 32);
    let mut o = vec![v.len() as u8];
    for x in v { o.extend_from_slice(&(*x as u16).to_le_bytes()); }
    o
}
fn hdr_uniform(s: usize) -> Vec<u8> { vec![(31 + s.clamp(1, 224)) as u8] }

fn chunk_patterns(b: usize) -> Vec<Vec<u8>> {
    vec![
        hdr_list(&[]),
        hdr_list(&[1, b - 1, 2 * b, 0]), // partial, exactly fills the buffer, multiple of block, 0-length, rest
        hdr_list(&[b - 1, 1, b, 0]),
        hdr_list(&[b / 2, b - b / 2, 3 * b, 0, 1]),
        hdr_list(&[0]),
        hdr_list(&[0, 0, 1]),
        hdr_list(&[b]),
        hdr_list(&[b, b]),
        hdr_list(&[b, 0, b]),
        hdr_list(&[b, 1]),
        hdr_list(&[b + 1]),
        hdr_list(&[2 * b - 1, 1]),
        hdr_list(&[2 * b]),
        hdr_list(&[b - 1, 2]),
        hdr_list(&[b - 1, 1, 1]),
        hdr_list(&[3, b, b]),
        hdr_list(&[b - 3, 3 * b + 3]),
        hdr_uniform(1),
        hdr_uniform(7),
        hdr_uniform(b - 1),
        hdr_uniform(b),
        hdr_uniform(b + 1),
    ]
}

/// a length biased to complete / just miss / just overshoot the current block and the padding threshold
fn biased_len(r: &mut Rng, b: usize, lf: usize, pos: usize) -> usize {
    let to_fill = b - pos % b;
    let to_pad = (2 * b - lf - pos % b) % b;
    match r.below(16) {
        0 => 0,
        1 => 1,
        2 => to_fill.saturating_sub(1),
        3 => to_fill,
        4 => to_fill + 1,
        5 => to_pad.saturating_sub(1),
        6 => to_pad,
        7 => to_pad + 1,
        8 => b,
        9 => 2 * b,
        10 => to_fill + b,
        11 => to_fill + 2 * b + r.below(2) as usize,
        12 => [7usize, 8, 9][r.below(3) as usize],
        13 => r.below(16) as usize,
        _ => r.below(2 * b as u64 + 2) as usize,
    }
}

fn rand_hdr(r: &mut Rng, b: usize, lf: usize) -> Vec<u8> {
    match r.below(6) {
        0 => hdr_list(&[]),
        1 => hdr_uniform(match r.below(8) { 0 => 1, 1 => 2, 2 => 7, 3 => b - 1, 4 => b, 5 => b + 1, _ => 1 + r.below(224) as usize }),
        _ => {
            let n = 1 + r.below(8) as usize;
            let mut v = Vec::new();
            let mut pos = 0;
            for _ in 0..n { let l = biased_len(r, b, lf, pos); v.push(l); pos += l; }
            hdr_list(&v)
        }
    }
}

fn rand_len(r: &mut Rng, b: usize, lf: usize) -> usize {
    let bl = boundary_lens(b, lf);
    match r.below(4) {
        0 | 1 => bl[r.below(bl.len() as u64) as usize],
        2 => (bl[r.below(bl.len() as u64) as usize] + r.below(7) as usize).saturating_sub(3),
        _ => r.below(4 * b as u64 + 20) as usize,
    }
}

fn rand_content(r: &mut Rng, len: usize) -> Vec<u8> {
    match r.below(6) {
        0 => content(len, r.below(5) as usize),
        1 => { let mut m: Vec<u8> = (0..len).map(|_| r.next() as u8).collect(); if len > 0 { m[len - 1] = 0x80; } m }
        _ => (0..len).map(|_| r.next() as u8).collect(),
    }
}

fn sp_chunked<const B: usize, const LF: usize>() -> Vec<Vec<u8>> {
    let mut v = Vec::new();
    for (i, len) in boundary_lens(B, LF).into_iter().enumerate() {
        for (j, pat) in chunk_patterns(B).into_iter().enumerate() {
            let mut x = pat;
            x.extend_from_slice(&content(len, i + j));
            v.push(x);
        }
    }
    v
}
fn rnd_chunked<const B: usize, const LF: usize>(r: &mut Rng) -> Vec<u8> {
    let mut x = rand_hdr(r, B, LF);
    let len = rand_len(r, B, LF);
    x.extend_from_slice(&rand_content(r, len));
    x
}

fn rec(op: u8, data: &[u8]) -> Vec<u8> {
    let mut o = vec![op];
    o.extend_from_slice(&(data.len() as u16).to_le_bytes());
    o.extend_from_slice(data);
    o
}

fn sp_script<const B: usize, const LF: usize>() -> Vec<Vec<u8>> {
    let mut v = Vec::new();
    for (i, len) in boundary_lens(B, LF).into_iter().enumerate() {
        let m = content(len, i + 3);
        let h = len / 2;
        for var in 0..4u8 {
            let vb = var << 3;
            // prefix, clone+suffix, rest, finalize, again, reset, short, clone-then-move-on, finalize
            let mut s = Vec::new();
            s.extend(rec(0, &m[..h]));
            s.extend(rec(3 | vb, &m[h..]));
            s.extend(rec(0, &m[h..]));
            s.extend(rec(1 | vb, &[]));
            s.extend(rec(0, &m));
            s.extend(rec(2, &[]));
            s.extend(rec(0, &m[..len.min(1)]));
            s.extend(rec(4 | vb, &m));
            s.extend(rec(1 | vb, &[]));
            v.push(s);
        }
        // finalize twice (empty message second), block-filling pieces around a clone
        let fill = (B - len % B) % B;
        let mut s = Vec::new();
        s.extend(rec(0, &m));
        s.extend(rec(3, &content(fill, 3)));
        s.extend(rec(4, &content(fill, 4)));
        s.extend(rec(3, &[]));
        s.extend(rec(1, &[]));
        s.extend(rec(1, &[]));
        s.extend(rec(0, &[]));
        s.extend(rec(4, &[]));
        v.push(s);
    }
    v.push(Vec::new());
    v.push(rec(1, &[]));
    v.push(rec(2, &[]));
    v
}

fn rnd_script<const B: usize, const LF: usize>(r: &mut Rng) -> Vec<u8> {
    let n = 1 + r.below(10);
    let mut s = Vec::new();
    let mut pos = 0usize;
    for _ in 0..n {
        let op: u8 = match r.below(20) { 0..=9 => 0, 10..=12 => 1, 13 => 2, 14..=16 => 3, _ => 4 };
        let l = if op == 1 || op == 2 { 0 } else { biased_len(r, B, LF, pos) };
        let d = rand_content(r, l);
        s.extend(rec(op | ((r.below(4) as u8) << 3) | ((r.below(8) as u8) << 5), &d));
        match op { 1 | 2 => pos = 0, 3 => {}, _ => pos += l }
    }
    s
}

// ---- SHAKE ----

fn split_patterns(rt: usize) -> Vec<Vec<u8>> {
    vec![
        hdr_list(&[0, 1, 7, 8, 9, rt - 1, rt, rt + 1]),
        hdr_list(&[rt, rt]),
        hdr_list(&[rt - 1, 1, rt]),
        hdr_list(&[rt + 1, rt - 1]),
        hdr_list(&[2 * rt, 0, 1]),
        hdr_list(&[1, rt - 1, 2 * rt, 0, 5]),
        hdr_list(&[600]),
        hdr_list(&[0]),
        hdr_list(&[]),
        hdr_list(&[32]),
        hdr_uniform(1), hdr_uniform(7), hdr_uniform(8), hdr_uniform(9),
        hdr_uniform(rt - 1), hdr_uniform(rt), hdr_uniform(rt + 1),
    ]
}

fn sp_shake_chunked<const RT: usize>() -> Vec<Vec<u8>> {
    let mut v = Vec::new();
    let cps = chunk_patterns(RT);
    let sps = split_patterns(RT);
    for (i, len) in boundary_lens(RT, 1).into_iter().enumerate() {
        for (j, pat) in cps.iter().enumerate() {
            let mut x = pat.clone();
            x.extend_from_slice(&sps[(i + j) % sps.len()]);
            x.extend_from_slice(&content(len, i + j));
            v.push(x);
        }
        for (j, sp) in sps.iter().enumerate() {
            let mut x = cps[(i + j) % 4].clone();
            x.extend_from_slice(sp);
            x.extend_from_slice(&content(len, i + j + 1));
            v.push(x);
        }
    }
    v
}
fn rnd_shake_chunked<const RT: usize>(r: &mut Rng) -> Vec<u8> {
    let mut x = rand_hdr(r, RT, 1);
    x.extend_from_slice(&rand_hdr(r, RT, 0));
    let len = rand_len(r, RT, 1);
    x.extend_from_slice(&rand_content(r, len));
    x
}
fn u16s(v: &[usize]) -> Vec<u8> { let mut o = Vec::new(); for x in v { o.extend_from_slice(&(*x as u16).to_le_bytes()); } o }

fn sp_shake_script<const RT: usize>() -> Vec<Vec<u8>> {
    let mut v = Vec::new();
    for (i, len) in boundary_lens(RT, 1).into_iter().enumerate() {
        let m = content(len, i + 3);
        let h = len / 2;
        for hi in [0u8, 8] {
            let mut s = Vec::new();
            s.extend(rec(0, &m[..h]));
            s.extend(rec(2, &m[h..]));
            s.extend(rec(7, &m[h..]));
            s.extend(rec(4 | hi, &u16s(&[0, 1, 7, 8, 9, RT - 1, RT, RT + 1])));
            s.extend(rec(0, &m));
            s.extend(rec(3, &m[..len.min(RT)]));
            s.extend(rec(5, &vec![0u8; RT + 1]));
            s.extend(rec(0, &m[..len.min(1)]));
            s.extend(rec(1, &[]));
            s.extend(rec(6, &m));
            s.extend(rec(4 | hi, &u16s(&[RT, RT, 1])));
            s.extend(rec(4 | hi, &u16s(&[])));
            s.extend(rec(5, &[]));
            s.extend(rec(0, &m[h..]));
            v.push(s);
        }
    }
    v.push(Vec::new());
    v.push(rec(4, &[]));
    v.push(rec(5, &[]));
    v
}
fn rnd_shake_script<const RT: usize>(r: &mut Rng) -> Vec<u8> {
    let n = 1 + r.below(10);
    let mut s = Vec::new();
    let mut pos = 0usize;
    for _ in 0..n {
        let op: u8 = match r.below(20) { 0..=7 => 0, 8 => 7, 9 => 1, 10..=12 => 2, 13..=14 => 3, 15..=17 => 4, _ => 5 };
        let d = match op {
            1 => Vec::new(),
            4 => { let k = r.below(9) as usize; let mut sz = Vec::new(); let mut p = 0; for _ in 0..k { let l = biased_len(r, RT, 0, p); sz.push(l); p += l; } u16s(&sz) }
            5 => vec![0u8; biased_len(r, RT, 0, 0)],
            _ => { let l = biased_len(r, RT, 1, pos); rand_content(r, l) }
        };
        s.extend(rec(op | ((r.below(32) as u8) << 3), &d));
        match op { 1 | 4 | 5 => pos = 0, 2 => {}, _ => pos += d.len() }
    }
    s
}

// ---- BLAKE2s ----

const B2S_LENS: [usize; 16] = [0, 1, 2, 31, 32, 63, 64, 65, 127, 128, 129, 191, 192, 193, 199, 200];

fn sp_b2s_chunked() -> Vec<Vec<u8>> {
    // [out_len - 1][chunk header][message]
    let mut v = Vec::new();
    let pats = chunk_patterns(64);
    for ol in 1..=32usize {
        for (i, &len) in B2S_LENS.iter().enumerate() {
            let full = ol == 1 || ol == 20 || ol == 31 || ol == 32;
            for (j, pat) in pats.iter().enumerate() {
                if !full && j != 0 && j != (ol + i) % pats.len() { continue; }
                let mut x = vec![(ol - 1) as u8];
                x.extend_from_slice(pat);
                x.extend_from_slice(&content(len, i + j + ol));
                v.push(x);
            }
        }
    }
    v
}
fn rand_b2s_len(r: &mut Rng) -> usize {
    match r.below(4) { 0 | 1 => B2S_LENS[r.below(16) as usize], 2 => r.below(201) as usize, _ => rand_len(r, 64, 0) }
}
fn rand_ol(r: &mut Rng) -> u8 { match r.below(4) { 0 => 31, 1 => [0u8, 1, 15, 16, 19, 27, 30][r.below(7) as usize], _ => r.below(32) as u8 } }
fn rnd_b2s_chunked(r: &mut Rng) -> Vec<u8> {
    let mut x = vec![rand_ol(r) | ((r.below(8) as u8) << 5)];
    x.extend_from_slice(&rand_hdr(r, 64, 0));
    let len = rand_b2s_len(r);
    x.extend_from_slice(&rand_content(r, len));
    x
}
fn sp_b2s_script() -> Vec<Vec<u8>> {
    let mut v = Vec::new();
    for (k, s) in sp_script::<64, 0>().into_iter().enumerate() {
        let mut x = vec![[31u8, 0, 19, 30][k % 4]];
        x.extend_from_slice(&s);
        v.push(x);
    }
    v
}
fn rnd_b2s_script(r: &mut Rng) -> Vec<u8> {
    let mut x = vec![rand_ol(r)];
    x.extend_from_slice(&rnd_script::<64, 0>(r));
    x
}

fn b2s_key_bytes(salt: usize) -> Vec<u8> {
    match salt % 4 { 0 => (0..32u8).collect(), 1 => vec![0u8; 32], 2 => vec![0xFFu8; 32], _ => (0..32usize).map(|i| (i * 89 + 7 * salt + 1) as u8).collect() }
}
fn sp_b2s_keyed() -> Vec<Vec<u8>> {
    // [out_len - 1][key_len][32 key bytes][chunk header][message]
    let mut v = Vec::new();
    let pats = chunk_patterns(64);
    for kl in 0..=32usize {
        for ol in [1usize, 7, 16, 31, 32] {
            for (i, &len) in [0usize, 1, 63, 64, 65, 128, 129, 200].iter().enumerate() {
                for j in [0usize, 1 + (kl + ol + i) % (pats.len() - 1)] {
                    let mut x = vec![(ol - 1) as u8, kl as u8];
                    x.extend_from_slice(&b2s_key_bytes(kl + i));
                    x.extend_from_slice(&pats[j]);
                    x.extend_from_slice(&content(len, i + j + kl));
                    v.push(x);
                }
            }
        }
    }
    for ol in 1..=32usize {
        for kl in [1usize, 31, 32] {
            let mut x = vec![(ol - 1) as u8, kl as u8];
            x.extend_from_slice(&b2s_key_bytes(ol));
            x.extend_from_slice(&hdr_list(&[64, 0]));
            x.extend_from_slice(&content(64 + ol % 3 * 32, ol));
            v.push(x);
        }
    }
    v
}
fn rand_kl(r: &mut Rng) -> u8 { match r.below(4) { 0 => 32, 1 => [0u8, 1, 16, 31][r.below(4) as usize], _ => r.below(33) as u8 } }
fn rand_key(r: &mut Rng) -> Vec<u8> { if r.below(4) == 0 { b2s_key_bytes(r.below(4) as usize) } else { (0..32).map(|_| r.next() as u8).collect() } }
fn rnd_b2s_keyed(r: &mut Rng) -> Vec<u8> {
    let mut x = vec![rand_ol(r), rand_kl(r)];
    x.extend_from_slice(&rand_key(r));
    x.extend_from_slice(&rand_hdr(r, 64, 0));
    let len = rand_b2s_len(r);
    x.extend_from_slice(&rand_content(r, len));
    x
}
fn sp_b2s_keyed_script() -> Vec<Vec<u8>> {
    let mut v = Vec::new();
    for (k, s) in sp_script::<64, 0>().into_iter().enumerate() {
        if k % 3 != 0 { continue; }
        for kl in [0usize, 1, 16, 31, 32] {
            let mut x = vec![[31u8, 0, 19, 30][k % 4], kl as u8];
            x.extend_from_slice(&b2s_key_bytes(k + kl));
            x.extend_from_slice(&s);
            v.push(x);
        }
    }
    v
}
fn rnd_b2s_keyed_script(r: &mut Rng) -> Vec<u8> {
    let mut x = vec![rand_ol(r), rand_kl(r)];
    x.extend_from_slice(&rand_key(r));
    x.extend_from_slice(&rnd_script::<64, 0>(r));
    x
}

// ======================================================================
// BLAKE2s cases
// ======================================================================

fn run_b2s_chunked(inp: &[u8]) -> Result<(), String> {
    use crrl::blake2s::{Blake2s, Blake2s256};
    if inp.is_empty() { return Ok(()); }
    let ol = 1 + (inp[0] & 31) as usize;
    let reff = move |m: &[u8]| ref_blake2s(ol, &[], m);
    run_chunked::<Blake2s>(&ol, &reff, &inp[1..], true)?;
    if ol == 32 {
        let mut pos = 1;
        let ch = match parse_chunks(inp, &mut pos) { Some(c) => c, None => return Ok(()) };
        let msg = &inp[pos..];
        let want = ref_blake2s(32, &[], msg);
        let ctx = || format!("Blake2s256, msg len {}", msg.len());
        eqv("Blake2s256::hash", &Blake2s256::hash(msg), &want, &ctx)?;
        let mut h = Blake2s256::new();
        for c in pieces(&ch, msg) { h.update(c); }
        eqv("Blake2s256 finalize_reset", &h.finalize_reset(), &want, &ctx)?;
        for c in pieces(&ch, msg) { h.update(c); }
        let mut o = [0u8; 32];
        let n = h.finalize_reset_write(&mut o);
        if n != 32 { return Err("Blake2s256::finalize_reset_write length".into()); }
        eqv("Blake2s256 finalize_reset_write", &o, &want, &ctx)?;
        h.update(msg);
        let n = h.finalize_write(&mut o);
        if n != 32 { return Err("Blake2s256::finalize_write length".into()); }
        eqv("Blake2s256 finalize_write", &o, &want, &ctx)?;
        let mut h = Blake2s256::new();
        h.update(msg);
        eqv("Blake2s256 finalize", &h.finalize(), &want, &ctx)?;
    }
    Ok(())
}

fn parse_keyed(inp: &[u8]) -> Option<(usize, Vec<u8>, &[u8])> {
    if inp.len() < 34 { return None; }
    let ol = 1 + (inp[0] & 31) as usize;
    let kl = inp[1] as usize;
    if kl > 32 { return None; }
    Some((ol, inp[2..2 + kl].to_vec(), &inp[34..]))
}

/// keyed BLAKE2s, never touching reset
fn run_b2s_keyed_chunked(inp: &[u8]) -> Result<(), String> {
    use crrl::blake2s::KeyedBlake2s;
    let (ol, key, rest) = match parse_keyed(inp) { Some(x) => x, None => return Ok(()) };
    let p = (ol, key.clone());
    let reff = { let key = key.clone(); move |m: &[u8]| ref_blake2s(ol, &key, m) };
    run_chunked::<KeyedBlake2s>(&p, &reff, rest, false)?;
    // every key length at this output length, every output length at this key length (one-shot API)
    let mut pos = 0;
    if parse_chunks(rest, &mut pos).is_none() { return Ok(()); }
    let msg = &rest[pos..];
    if msg.len() > MAX_MSG { return Ok(()); }
    let keymat = &inp[2..34];
    for kl in 0..=32usize {
        let mut o = [0xA5u8; 34];
        KeyedBlake2s::hash_into(ol, &keymat[..kl], msg, &mut o);
        if o[ol..] != [0xA5u8; 34][ol..] { return Err(format!("hash_into wrote past out_len {}", ol)); }
        eqv("hash_into (key length sweep)", &o[..ol], &ref_blake2s(ol, &keymat[..kl], msg), &|| format!("out_len {} key_len {} msg len {}", ol, kl, msg.len()))?;
    }
    for ol2 in 1..=32usize {
        let mut o = [0xA5u8; 34];
        KeyedBlake2s::hash_into(ol2, &key, msg, &mut o);
        eqv("hash_into (output length sweep)", &o[..ol2], &ref_blake2s(ol2, &key, msg), &|| format!("out_len {} key_len {} msg len {}", ol2, key.len(), msg.len()))?;
    }
    Ok(())
}

/// keyed BLAKE2s reset paths. kind 0: finalize_reset_write then reuse; kind 1: explicit reset() mid-stream.
fn run_b2s_keyed_reset(kind: u8, inp: &[u8]) -> Result<(), String> {
    use crrl::blake2s::KeyedBlake2s;
    ensure_refs()?;
    let (ol, key, rest) = match parse_keyed(inp) { Some(x) => x, None => return Ok(()) };
    let mut pos = 0;
    let ch = match parse_chunks(rest, &mut pos) { Some(c) => c, None => return Ok(()) };
    let msg = &rest[pos..];
    if msg.len() > MAX_MSG { return Ok(()); }
    let pcs = pieces(&ch, msg);
    let want = ref_blake2s(ol, &key, msg);
    let ctx = || format!("out_len {} key_len {} msg len {}, chunks {:?}", ol, key.len(), msg.len(), pcs.iter().map(|c| c.len()).collect::<Vec<_>>());
    let mut h = KeyedBlake2s::new(ol, &key);
    let mut o = [0u8; 32];
    if kind == 0 {
        h.update(msg);
        let n = h.finalize_reset_write(&mut o);
        eqv("first finalize_reset_write", &o[..n], &want, &ctx)?;
        for c in &pcs { h.update(c); }
        let n = h.finalize_reset_write(&mut o);
        eqv("after finalize_reset_write", &o[..n], &want, &ctx)?;
        let n = h.finalize_reset_write(&mut o);
        eqv("empty message after finalize_reset_write", &o[..n], &ref_blake2s(ol, &key, &[]), &ctx)
    } else {
        h.update(&msg[..msg.len() / 2]);
        h.update(&[0x80]);
        h.reset();
        for c in &pcs { h.update(c); }
        let n = h.finalize_write(&mut o);
        eqv("after mid-stream reset", &o[..n], &want, &ctx)?;
        // reset of a finalized (unusable) context makes it usable again
        h.reset();
        let n = h.finalize_write(&mut o);
        eqv("empty message after reset of finalized context", &o[..n], &ref_blake2s(ol, &key, &[]), &ctx)
    }
}

// ======================================================================
// Registration
// ======================================================================

fn reg_fixed<H: StreamHash<P = ()> + 'static, const B: usize, const LF: usize>(v: &mut Vec<Case>, tag: &str, reff: fn(&[u8]) -> Vec<u8>) {
    v.push(Case {
        id: format!("hash_chunked@{}", tag),
        describe: "digest of chunked updates == reference(message); one-shot; fresh after finalize / reset. Input: [chunk header][message]",
        ops: vec![Op::Custom { len: None, specials: sp_chunked::<B, LF>, random: rnd_chunked::<B, LF> }],
        run: Box::new(move |inp: &[u8]| run_chunked::<H>(&(), &reff, inp, true)),
    });
    v.push(Case {
        id: format!("hash_script@{}", tag),
        describe: "op script (update / finalize_reset / reset / clone+diverge): every digest == reference(bytes since last reset). Input: records op,len16,data",
        ops: vec![Op::Custom { len: None, specials: sp_script::<B, LF>, random: rnd_script::<B, LF> }],
        run: Box::new(move |inp: &[u8]| run_script::<H>(&(), &reff, inp)),
    });
}

fn reg_shake<const SZ: usize, const RT: usize>(v: &mut Vec<Case>, tag: &str, reff: fn(&[u8], usize) -> Vec<u8>) {
    v.push(Case {
        id: format!("shake_chunked@{}", tag),
        describe: "SHAKE: chunked inject, split extract == reference stream; clone / reset / flip_extract[_reset]. Input: [chunk header][split header][message]",
        ops: vec![Op::Custom { len: None, specials: sp_shake_chunked::<RT>, random: rnd_shake_chunked::<RT> }],
        run: Box::new(move |inp: &[u8]| run_shake_chunked::<SZ>(reff, inp)),
    });
    v.push(Case {
        id: format!("shake_script@{}", tag),
        describe: "SHAKE op script (inject / reset / clone+diverge / flip+split extract with mid-stream clone / flip_extract_reset). Input: records op,len16,data",
        ops: vec![Op::Custom { len: None, specials: sp_shake_script::<RT>, random: rnd_shake_script::<RT> }],
        run: Box::new(move |inp: &[u8]| run_shake_script::<SZ>(reff, inp)),
    });
}

pub fn register(v: &mut Vec<Case>) {
    use crrl::{sha2, sha3};
    reg_fixed::<sha2::Sha224, 64, 9>(v, "sha224", ref_sha224);
    reg_fixed::<sha2::Sha256, 64, 9>(v, "sha256", ref_sha256);
    reg_fixed::<sha2::Sha384, 128, 17>(v, "sha384", ref_sha384);
    reg_fixed::<sha2::Sha512, 128, 17>(v, "sha512", ref_sha512);
    reg_fixed::<sha2::Sha512_224, 128, 17>(v, "sha512_224", ref_sha512_224);
    reg_fixed::<sha2::Sha512_256, 128, 17>(v, "sha512_256", ref_sha512_256);
    reg_fixed::<sha3::SHA3_224, 144, 1>(v, "sha3_224", ref_sha3_224);
    reg_fixed::<sha3::SHA3_256, 136, 1>(v, "sha3_256", ref_sha3_256);
    reg_fixed::<sha3::SHA3_384, 104, 1>(v, "sha3_384", ref_sha3_384);
    reg_fixed::<sha3::SHA3_512, 72, 1>(v, "sha3_512", ref_sha3_512);
    reg_shake::<128, 168>(v, "shake128", ref_shake128);
    reg_shake::<256, 136>(v, "shake256", ref_shake256);

    v.push(Case {
        id: "blake2s_chunked".into(),
        describe: "unkeyed BLAKE2s, any out_len: chunked / one-shot / after finalize_reset / after reset == RFC 7693; Blake2s256 wrapper. Input: [out_len-1][chunk header][message]",
        ops: vec![Op::Custom { len: None, specials: sp_b2s_chunked, random: rnd_b2s_chunked }],
        run: Box::new(run_b2s_chunked),
    });
    v.push(Case {
        id: "blake2s_script".into(),
        describe: "unkeyed BLAKE2s op script (update / finalize_reset_write / finalize_write+reset / reset). Input: [out_len-1] records",
        ops: vec![Op::Custom { len: None, specials: sp_b2s_script, random: rnd_b2s_script }],
        run: Box::new(|inp: &[u8]| {
            if inp.is_empty() { return Ok(()); }
            let ol = 1 + (inp[0] & 31) as usize;
            let reff = move |m: &[u8]| ref_blake2s(ol, &[], m);
            run_script::<crrl::blake2s::Blake2s>(&ol, &reff, &inp[1..])
        }),
    });
    v.push(Case {
        id: "blake2s_keyed_chunked".into(),
        describe: "keyed BLAKE2s (no reset involved): chunked + finalize_write, hash_into for all key lengths 0..=32 and all out_len 1..=32 == RFC 7693. Input: [out_len-1][key_len][key32][chunk header][message]",
        ops: vec![Op::Custom { len: None, specials: sp_b2s_keyed, random: rnd_b2s_keyed }],
        run: Box::new(run_b2s_keyed_chunked),
    });
    v.push(Case {
        id: "blake2s_keyed_reset@finalize".into(),
        describe: "keyed BLAKE2s: finalize_reset_write leaves an instance equivalent to KeyedBlake2s::new(out_len, key). Input as blake2s_keyed_chunked",
        ops: vec![Op::Custom { len: None, specials: sp_b2s_keyed, random: rnd_b2s_keyed }],
        run: Box::new(|inp: &[u8]| run_b2s_keyed_reset(0, inp)),
    });
    v.push(Case {
        id: "blake2s_keyed_reset@explicit".into(),
        describe: "keyed BLAKE2s: reset() mid-stream / after finalize_write leaves an instance equivalent to KeyedBlake2s::new(out_len, key). Input as blake2s_keyed_chunked",
        ops: vec![Op::Custom { len: None, specials: sp_b2s_keyed, random: rnd_b2s_keyed }],
        run: Box::new(|inp: &[u8]| run_b2s_keyed_reset(1, inp)),
    });
    v.push(Case {
        id: "blake2s_keyed_reset@script".into(),
        describe: "keyed BLAKE2s op script (update / finalize_reset_write / finalize_write+reset / reset). Input: [out_len-1][key_len][key32] records",
        ops: vec![Op::Custom { len: None, specials: sp_b2s_keyed_script, random: rnd_b2s_keyed_script }],
        run: Box::new(|inp: &[u8]| {
            let (ol, key, rest) = match parse_keyed(inp) { Some(x) => x, None => return Ok(()) };
            let p = (ol, key.clone());
            let reff = move |m: &[u8]| ref_blake2s(ol, &key, m);
            run_script::<crrl::blake2s::KeyedBlake2s>(&p, &reff, rest)
        }),
    });
}
