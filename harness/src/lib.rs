//! vharness: executable postconditions ("cases") for the functions under
//! contract. One case = decode an input byte string into operands, run the
//! REAL crrl function, and re-evaluate the contract's postcondition with
//! big integers. Used for (a) replaying a violation on the real code,
//! (b) the directed counterexample search when Verus reports a failed
//! obligation (Verus gives no model), (c) smoke-testing contracts for
//! vacuity (each case must pass on the unchanged tree).

#![allow(clippy::all)]

#[cfg(not(kani))]
pub mod ora;
#[cfg(not(kani))]
pub mod gen;
#[cfg(not(kani))]
pub mod cases_gf255;
#[cfg(not(kani))]
pub mod cases_recode;
#[cfg(not(kani))]
pub mod cases_fields;
#[cfg(not(kani))]
pub mod cases_hash;
#[cfg(not(kani))]
pub mod cases_schemes;

#[cfg(not(kani))]
pub mod cases_curves;
#[cfg(not(kani))]
pub mod cases_frost;
#[cfg(not(kani))]
pub mod cases_extra;

#[cfg(kani)]
pub mod kani_harnesses;

#[cfg(not(kani))]
pub use gen::Op;

#[cfg(not(kani))]
pub struct Case {
    pub id: String,
    pub describe: &'static str,
    pub ops: Vec<Op>,
    pub run: Box<dyn Fn(&[u8]) -> Result<(), String> + Send + Sync>,
}

#[cfg(not(kani))]
pub fn all_cases() -> Vec<Case> {
    let mut v = Vec::new();
    cases_curves::register(&mut v);
    cases_gf255::register(&mut v);
    cases_recode::register(&mut v);
    cases_fields::register(&mut v);
    cases_hash::register(&mut v);
    cases_schemes::register(&mut v);
    cases_frost::register(&mut v);
    cases_extra::register(&mut v);
    v
}
