//! Executable postconditions for the finite-field types other than GF255:
//!  - ModInt256 family (GFp256 and the 256-bit curve scalar types)   ids `modint_<op>@<type>`
//!  - GFsecp256k1                                                     ids `gfsecp256k1_<op>`
//!  - GF448                                                           ids `gf448_<op>`
//!  - ed448::Scalar (define_gfgen!)                                   ids `gfgen_<op>@ed448scalar`
//!  - GFb127 / GFb254                                                 ids `gfb127_<op>` / `gfb254_<op>`
//! Oracles: num-bigint for the prime fields; a from-the-definition GF(2)[z]
//! shift-and-xor implementation for the binary fields.
use crate::gen::{split, Rng};
use crate::ora::*;
use crate::{Case, Op};
use crrl::field::{GFb127, GFb254, GFsecp256k1, ModInt256, GF448};
use num_bigint::{BigInt, BigUint, Sign};
use std::sync::OnceLock;

type Ed448Scalar = crrl::ed448::Scalar;

fn u32of(b: &[u8]) -> u32 { u32::from_le_bytes(b[..4].try_into().unwrap()) }
fn u64of(b: &[u8]) -> u64 { u64::from_le_bytes(b[..8].try_into().unwrap()) }
fn limbs_of(b: &[u8]) -> Vec<u64> { b.chunks(8).map(u64of).collect() }
fn chk(cond: bool, msg: impl FnOnce() -> String) -> Result<(), String> { if cond { Ok(()) } else { Err(msg()) } }
fn zero() -> BigInt { BigInt::from(0) }

// ------------------------------------------------------------------------
// Uniform view of the prime-field types.

/// all operator forms: a op b, a op &b, &a op b, &a op &b, a op= b, a op= &b
macro_rules! opv { ($a:expr, $b:expr, $op:tt, $opa:tt) => {{
    let (a, b) = ($a, $b); let mut c = a; c $opa b; let mut d = a; d $opa &b;
    vec![a $op b, a $op &b, &a $op b, &a $op &b, c, d]
}} }

trait PF: Copy + Send + Sync + 'static {
    const NL: usize;     // 64-bit limbs taken by the limb constructors
    const EL: usize;     // encoding length (bytes)
    const MONTY: bool;   // internal representation is Montgomery with R = 2^(64*NL), limbs < modulus
    const RAWIN: bool;   // mk() feeds the internal limbs directly (else: the integer value)
    const BATCH: usize;  // internal block size of batch_invert
    fn modulus() -> BigInt;
    fn rinv() -> BigInt { let q = Self::modulus(); modinv(&(pow2(64 * Self::NL as u32) % &q), &q) }
    fn mk(b: &[u8]) -> Self;
    fn raw(&self) -> Option<Vec<u64>> { None }
    fn enc(&self) -> Vec<u8>;
    fn enc_alt(&self) -> Option<Vec<u8>> { None }
    fn w64(l: &[u64]) -> [Self; 4];
    fn consts() -> [Self; 3];
    fn from_ints(lo: u64, hi: u64) -> [Self; 6];
    fn f_add(self, o: Self) -> Vec<Self>;
    fn f_sub(self, o: Self) -> Vec<Self>;
    fn f_mul(self, o: Self) -> Vec<Self>;
    fn f_div(self, o: Self) -> Vec<Self>;
    fn f_neg(self) -> Vec<Self>;
    fn f_square(self) -> Self;
    fn f_xsquare(self, n: u32) -> Self;
    fn f_half(self) -> Self;
    fn f_mulk(self) -> Vec<(u32, Self)>;
    // which optional operations the type has: decided WITHOUT running library code (a library function that hangs or
    // panics on a constant must not take the whole case registry down)
    const HAS_MUL_SMALL: bool = false; const HAS_SQRT: bool = true; const HAS_SQRT_EXT: bool = false; const HAS_SPLIT128: bool = false; const HAS_SPLIT_BYTES: bool = false;
    fn f_mul_small(self, _k: u32) -> Option<(u32, Self)> { None }
    fn f_invert(self) -> Option<Self> { None }
    fn f_iszero(self) -> u32;
    fn f_equals(self, o: Self) -> u32;
    fn f_set_cond(&mut self, a: &Self, c: u32);
    fn f_select(a: &Self, b: &Self, c: u32) -> Self;
    fn f_cswap(a: &mut Self, b: &mut Self, c: u32);
    fn f_legendre(self) -> i32;
    fn f_sqrt(self) -> Option<(Self, u32)>;
    fn f_sqrt_ext(self) -> Option<(Self, u32)> { None }
    fn f_batch_invert(x: &mut [Self]);
    fn f_decode_ct(b: &[u8]) -> (Self, u32);
    fn f_set_decode_ct(&mut self, b: &[u8]) -> u32;
    fn f_decode(b: &[u8]) -> Option<Self>;
    fn f_decode_reduce(b: &[u8]) -> Self;
    fn f_decode32(_b: &[u8]) -> Option<(Self, u32)> { None }
    fn f_set_decode32(&mut self, _b: &[u8]) -> Option<u32> { None }
    fn f_split128(self) -> Option<(i128, i128)> { None }
    fn f_split_bytes(self) -> Option<(Vec<u8>, Vec<u8>)> { None }
}

macro_rules! pf_common { () => {
    fn modulus() -> BigInt { limbs_to_int(&Self::MODULUS) }
    fn consts() -> [Self; 3] { [Self::ZERO, Self::ONE, Self::MINUS_ONE] }
    fn from_ints(lo: u64, hi: u64) -> [Self; 6] {
        let x = ((hi as u128) << 64) | lo as u128;
        [Self::from_i32(lo as i32), Self::from_u32(lo as u32), Self::from_i64(lo as i64), Self::from_u64(lo), Self::from_i128(x as i128), Self::from_u128(x)]
    }
    fn f_add(self, o: Self) -> Vec<Self> { opv!(self, o, +, +=) }
    fn f_sub(self, o: Self) -> Vec<Self> { opv!(self, o, -, -=) }
    fn f_mul(self, o: Self) -> Vec<Self> { opv!(self, o, *, *=) }
    fn f_div(self, o: Self) -> Vec<Self> { opv!(self, o, /, /=) }
    fn f_neg(self) -> Vec<Self> { vec![-self, -&self] }
    fn f_square(self) -> Self { self.square() }
    fn f_xsquare(self, n: u32) -> Self { self.xsquare(n) }
    fn f_half(self) -> Self { self.half() }
    fn f_iszero(self) -> u32 { self.iszero() }
    fn f_equals(self, o: Self) -> u32 { self.equals(o) }
    fn f_set_cond(&mut self, a: &Self, c: u32) { self.set_cond(a, c) }
    fn f_select(a: &Self, b: &Self, c: u32) -> Self { Self::select(a, b, c) }
    fn f_cswap(a: &mut Self, b: &mut Self, c: u32) { Self::cswap(a, b, c) }
    fn f_legendre(self) -> i32 { self.legendre() }
    fn f_batch_invert(x: &mut [Self]) { Self::batch_invert(x) }
    fn f_decode_ct(b: &[u8]) -> (Self, u32) { Self::decode_ct(b) }
    fn f_set_decode_ct(&mut self, b: &[u8]) -> u32 { self.set_decode_ct(b) }
    fn f_decode(b: &[u8]) -> Option<Self> { Self::decode(b) }
    fn f_decode_reduce(b: &[u8]) -> Self { Self::decode_reduce(b) }
} }

impl<const M0: u64, const M1: u64, const M2: u64, const M3: u64> PF for ModInt256<M0, M1, M2, M3> {
    const NL: usize = 4; const EL: usize = Self::ENC_LEN; const MONTY: bool = true; const RAWIN: bool = true; const BATCH: usize = 200;
    pf_common!();
    fn mk(b: &[u8]) -> Self {
        // raw Montgomery limbs; verif_from_raw requires value < modulus, larger patterns are reduced
        let q = limbs_to_int(&Self::MODULUS);
        let x = le_to_int(b);
        Self::verif_from_raw(int_to_limbs4(&if x >= q { x % &q } else { x }))
    }
    fn raw(&self) -> Option<Vec<u64>> { Some(self.verif_limbs().to_vec()) }
    fn enc(&self) -> Vec<u8> { self.encode32().to_vec() }
    fn w64(l: &[u64]) -> [Self; 4] {
        [Self::w64le(l[0], l[1], l[2], l[3]), Self::w64be(l[3], l[2], l[1], l[0]), Self::from_w64le(l[0], l[1], l[2], l[3]), Self::from_w64be(l[3], l[2], l[1], l[0])]
    }
    fn f_mulk(self) -> Vec<(u32, Self)> { vec![(2, self.mul2()), (3, self.mul3()), (4, self.mul4()), (8, self.mul8()), (16, self.mul16()), (32, self.mul32())] }
    const HAS_SQRT: bool = (M0 & 3) == 3 || (M0 & 7) == 5; const HAS_SPLIT128: bool = true;
    fn f_sqrt(self) -> Option<(Self, u32)> { if (M0 & 3) == 3 || (M0 & 7) == 5 { Some(self.sqrt()) } else { None } }
    fn f_decode32(b: &[u8]) -> Option<(Self, u32)> { Some(Self::decode32(b)) }
    fn f_set_decode32(&mut self, b: &[u8]) -> Option<u32> { Some(self.set_decode32(b)) }
    fn f_split128(self) -> Option<(i128, i128)> { Some(self.split_vartime()) }
}

impl PF for GFsecp256k1 {
    const NL: usize = 4; const EL: usize = 32; const MONTY: bool = false; const RAWIN: bool = true; const BATCH: usize = 200;
    pf_common!();
    fn mk(b: &[u8]) -> Self { let l = limbs_of(b); Self::w64le(l[0], l[1], l[2], l[3]) }
    fn enc(&self) -> Vec<u8> { self.encode().to_vec() }
    fn enc_alt(&self) -> Option<Vec<u8>> { Some(self.encode32().to_vec()) }
    fn w64(l: &[u64]) -> [Self; 4] {
        [Self::w64le(l[0], l[1], l[2], l[3]), Self::w64be(l[3], l[2], l[1], l[0]), Self::from_w64le(l[0], l[1], l[2], l[3]), Self::from_w64be(l[3], l[2], l[1], l[0])]
    }
    fn f_mulk(self) -> Vec<(u32, Self)> { vec![(2, self.mul2()), (3, self.mul3()), (4, self.mul4()), (8, self.mul8()), (16, self.mul16()), (32, self.mul32()), (21, self.mul21())] }
    const HAS_MUL_SMALL: bool = true;
    fn f_mul_small(self, k: u32) -> Option<(u32, Self)> { let x = k as u16; Some((x as u32, self.mul_u16(x))) }
    fn f_sqrt(self) -> Option<(Self, u32)> { Some(self.sqrt()) }
    fn f_decode32(b: &[u8]) -> Option<(Self, u32)> { Some(Self::decode32(b)) }
}

fn arr7(l: &[u64]) -> [u64; 7] { [l[0], l[1], l[2], l[3], l[4], l[5], l[6]] }
fn rev7(l: &[u64]) -> [u64; 7] { [l[6], l[5], l[4], l[3], l[2], l[1], l[0]] }

impl PF for GF448 {
    const NL: usize = 7; const EL: usize = 56; const MONTY: bool = false; const RAWIN: bool = true; const BATCH: usize = 100;
    pf_common!();
    fn mk(b: &[u8]) -> Self { Self::w64le(arr7(&limbs_of(b))) }
    fn enc(&self) -> Vec<u8> { self.encode().to_vec() }
    fn w64(l: &[u64]) -> [Self; 4] { [Self::w64le(arr7(l)), Self::w64be(rev7(l)), Self::from_w64le(arr7(l)), Self::from_w64be(rev7(l))] }
    fn f_mulk(self) -> Vec<(u32, Self)> { vec![(2, self.mul2()), (4, self.mul4()), (8, self.mul8()), (16, self.mul16()), (32, self.mul32())] }
    const HAS_MUL_SMALL: bool = true; const HAS_SQRT_EXT: bool = true;
    fn f_mul_small(self, k: u32) -> Option<(u32, Self)> { Some((k, self.mul_small(k))) }
    fn f_sqrt(self) -> Option<(Self, u32)> { Some(self.sqrt()) }
    fn f_sqrt_ext(self) -> Option<(Self, u32)> { Some(self.sqrt_ext()) }
}

impl PF for Ed448Scalar {
    const NL: usize = 7; const EL: usize = 56; const MONTY: bool = true; const RAWIN: bool = false; const BATCH: usize = 146;
    pf_common!();
    fn rinv() -> BigInt {
        static C: OnceLock<BigInt> = OnceLock::new();
        C.get_or_init(|| { let q = limbs_to_int(&Ed448Scalar::MODULUS); modinv(&(pow2(448) % &q), &q) }).clone()
    }
    fn mk(b: &[u8]) -> Self { Self::from_w64le(arr7(&limbs_of(b))) }
    fn enc(&self) -> Vec<u8> { self.encode().to_vec() }
    fn w64(l: &[u64]) -> [Self; 4] { [Self::w64le(arr7(l)), Self::w64be(rev7(l)), Self::from_w64le(arr7(l)), Self::from_w64be(rev7(l))] }
    fn f_mulk(self) -> Vec<(u32, Self)> { vec![(2, self.mul2()), (3, self.mul3()), (4, self.mul4()), (8, self.mul8()), (16, self.mul16()), (32, self.mul32())] }
    const HAS_MUL_SMALL: bool = true; const HAS_SQRT_EXT: bool = true; const HAS_SPLIT_BYTES: bool = true;
    fn f_mul_small(self, k: u32) -> Option<(u32, Self)> { Some((k, self.mul_small(k))) }
    fn f_invert(self) -> Option<Self> { Some(self.invert()) }
    fn f_sqrt(self) -> Option<(Self, u32)> { Some(self.sqrt()) }
    fn f_sqrt_ext(self) -> Option<(Self, u32)> { Some(self.sqrt_ext()) }
    fn f_split_bytes(self) -> Option<(Vec<u8>, Vec<u8>)> { let (a, b) = self.split_vartime(); Some((a.to_vec(), b.to_vec())) }
}

// ------------------------------------------------------------------------
// Value helpers.

#[derive(Clone)]
struct Ctx { q: BigInt, r: BigInt, rinv: BigInt }
fn ctx<F: PF>() -> Ctx { let q = F::modulus(); let r = pow2(64 * F::NL as u32) % &q; Ctx { rinv: F::rinv(), r, q } }

/// field value of an element = its canonical encoding read little-endian
fn fe<F: PF>(x: &F) -> BigInt { le_to_int(&x.enc()) }
/// field value that mk(bytes) must represent, computed from the input bytes only
fn in_val<F: PF>(c: &Ctx, b: &[u8]) -> BigInt {
    let x = le_to_int(b) % &c.q;
    if F::MONTY && F::RAWIN { (x * &c.rinv) % &c.q } else { x }
}
/// representation invariant, where the limbs are readable: limbs < modulus and limbs == value*R mod q
fn wf<F: PF>(c: &Ctx, x: &F, what: &str) -> Result<(), String> {
    let e = x.enc();
    if e.len() != F::EL || le_to_int(&e) >= c.q { return Err(format!("{}: non-canonical encoding {}", what, hex(&e))); }
    if let Some(l) = x.raw() {
        let v = limbs_to_int(&l);
        if v >= c.q { return Err(format!("{}: limbs {:x?} not below the modulus", what, l)); }
        if F::MONTY && v != (le_to_int(&e) * &c.r) % &c.q { return Err(format!("{}: limbs {:x?} inconsistent with encoding {}", what, l, hex(&e))); }
    }
    Ok(())
}
/// Runs a library function that is documented as variable-time on a persistent helper thread, so
/// that a call that never returns is reported as a failure (HANG) instead of blocking the search.
struct Guard<A: Send + 'static, T: Send + 'static> {
    f: fn(A) -> T,
    w: std::sync::Mutex<Option<(std::sync::mpsc::Sender<A>, std::sync::mpsc::Receiver<Result<T, String>>)>>,
}
impl<A: Send + 'static, T: Send + 'static> Guard<A, T> {
    fn new(f: fn(A) -> T) -> Self { Guard { f, w: std::sync::Mutex::new(None) } }
    fn call(&self, what: &str, a: A) -> Result<T, String> {
        use std::sync::mpsc::{channel, RecvTimeoutError};
        let mut g = self.w.lock().unwrap_or_else(|e| e.into_inner());
        if g.is_none() {
            let (txa, rxa) = channel::<A>(); let (txt, rxt) = channel::<Result<T, String>>(); let f = self.f;
            std::thread::spawn(move || {
                while let Ok(a) = rxa.recv() {
                    let r = std::panic::catch_unwind(std::panic::AssertUnwindSafe(|| f(a))).map_err(|e| {
                        if let Some(s) = e.downcast_ref::<String>() { s.clone() } else if let Some(s) = e.downcast_ref::<&str>() { s.to_string() } else { "panic".into() } });
                    if txt.send(r).is_err() { break; }
                }
            });
            *g = Some((txa, rxt));
        }
        let (tx, rx) = g.as_ref().unwrap();
        if tx.send(a).is_err() { *g = None; return Err(format!("PANIC: {} helper thread died", what)); }
        match rx.recv_timeout(std::time::Duration::from_secs(3)) {
            Ok(Ok(x)) => Ok(x),
            Ok(Err(m)) => Err(format!("PANIC: {}: {}", what, m)),
            Err(RecvTimeoutError::Timeout) => { *g = None; Err(format!("HANG: {} did not return within 3 s", what)) }
            Err(RecvTimeoutError::Disconnected) => { *g = None; Err(format!("PANIC: inside {}", what)) }
        }
    }
}

/// check every result of an operator family against the expected value
fn all_eq<F: PF>(c: &Ctx, rs: &[F], want: &BigInt, what: &str) -> Result<(), String> {
    for (i, r) in rs.iter().enumerate() {
        wf(c, r, what)?;
        if &fe(r) != want { return Err(format!("{} (form {}): got {} limbs {:x?} want {:x}", what, i, hex(&r.enc()), r.raw(), want)); }
        // the result must also be EQUAL (equals(), and a zero difference) to an element built independently from the expected
        // value: a result that encodes correctly but sits in an internal representation the other operations do not
        // accept (e.g. not below the modulus for the Montgomery types) is a wrong result
        let refel = F::mk(&in_value::<F>(want));
        if r.f_equals(refel) != 0xFFFFFFFF { return Err(format!("{} (form {}): result {} does not compare equal to a fresh element of the same value", what, i, hex(&r.enc()))); }
        for d in r.f_sub(refel) { if d.f_iszero() != 0xFFFFFFFF || d.enc().iter().any(|&b| b != 0) { return Err(format!("{} (form {}): result - expected is not a canonical zero (encodes {})", what, i, hex(&d.enc()))); } }
    }
    Ok(())
}
fn same<F: PF>(a: &F, b: &F) -> bool { match (a.raw(), b.raw()) { (Some(x), Some(y)) => x == y, _ => a.enc() == b.enc() } }

// ------------------------------------------------------------------------
// Generators.

fn nbytes<F: PF>() -> usize { 8 * F::NL }
fn nbits<F: PF>() -> u32 { 64 * F::NL as u32 }
/// exclusive upper bound of the internal representation
fn ibound<F: PF>() -> BigInt { if F::MONTY { F::modulus() } else { pow2(nbits::<F>()) } }

/// input bytes such that the INTERNAL limbs of mk(bytes) are p (p reduced into the representation's range)
fn in_internal<F: PF>(p: &BigInt) -> Vec<u8> {
    let q = F::modulus();
    let x = if F::MONTY { p % &q } else { p.clone() };
    let x = if F::RAWIN { x } else { (x * F::rinv()) % &q };
    int_to_le(&x, nbytes::<F>())
}
/// input bytes such that the VALUE of mk(bytes) is v mod q (non-reduced where the type admits it)
fn in_value<F: PF>(v: &BigInt) -> Vec<u8> {
    let q = F::modulus();
    let x = if F::MONTY && F::RAWIN { ((v % &q) * (pow2(nbits::<F>()) % &q)) % &q } else { v.clone() };
    int_to_le(&x, nbytes::<F>())
}

/// boundary integers in 0..2^(64*NL)
fn pats<F: PF>() -> Vec<BigInt> {
    let q = F::modulus(); let b = nbits::<F>(); let top = pow2(b);
    let bl = q.bits() as u32;
    let mut v: Vec<BigInt> = vec![
        zero(), BigInt::from(1), BigInt::from(2), BigInt::from(3), &q - 1, &q - 2, q.clone(), &q + 1, &q * 2 - 1, &q * 2, &q * 2 + 1,
        (&q - 1) / 2, (&q + 1) / 2, &top - 1, &top - 2, pow2(b - 1), pow2(b - 1) - 1, pow2(b - 1) + 1,
        &top % &q, (&top % &q) - 1, &top - &q, (&top * &top) % &q, pow2(bl - 1), pow2(bl - 1) - 1, pow2(bl) - 1, pow2(255), pow2(256) - 1,
        pow2(224), pow2(224) - 1, pow2(224) + 1, pow2(32), BigInt::from(0x1000003D1u64),
    ];
    for k in 1..F::NL as u32 { v.push(pow2(64 * k) - 1); v.push(pow2(64 * k)); v.push(pow2(64 * k) + 1); }
    // quarter points of the modulus length (for a Solinas prime 2^n - 2^(n/2) - 1 the products 2^(3n/4) * 2^(3n/4) wrap twice)
    for k in 1..4u32 { let e = bl * k / 4; v.push(pow2(e) - 1); v.push(pow2(e)); v.push(pow2(e) + 1); }
    let mut alt0 = zero(); let mut alt1 = zero(); let mut msb = zero(); let mut lsb = zero();
    for k in 0..F::NL as u32 {
        if k % 2 == 0 { alt0 += BigInt::from(u64::MAX) << (64 * k); } else { alt1 += BigInt::from(u64::MAX) << (64 * k); }
        msb += pow2(64 * k + 63); lsb += pow2(64 * k);
    }
    v.extend([alt0, alt1, msb, lsb]);
    v.retain(|x| x.sign() != Sign::Minus && x < &top);
    let mut out: Vec<BigInt> = Vec::new();
    for x in v { if !out.contains(&x) { out.push(x); } }
    out
}

fn el_specials<F: PF>() -> Vec<Vec<u8>> {
    let mut out: Vec<Vec<u8>> = Vec::new();
    for p in pats::<F>() {
        for w in [in_value::<F>(&p), in_internal::<F>(&p)] { if !out.contains(&w) { out.push(w); } }
    }
    // 1/2, 1/2^64, 1/2^128 as values
    let q = F::modulus(); let h = (&q + 1) / 2;
    for k in [1u32, 64, 128] { let w = in_value::<F>(&modpow(&h, &BigInt::from(k), &q)); if !out.contains(&w) { out.push(w); } }
    out
}

/// operands on which the binary-GCD based routines (division, inversion, Legendre symbol) converge slowest: internal
/// patterns c*2^k with a small odd c and k close to the bit length (k halvings, then one bit of the modulus per step)
fn gcd_family<F: PF>() -> Vec<BigInt> {
    let nbv = nbits::<F>();
    let q = F::modulus();
    let mut out = Vec::new();
    for j in 1..=40u32 {
        if j >= nbv { break; }
        let k = nbv - j;
        let cmax: u64 = if j >= 9 { 255 } else { (1u64 << (j - 1)).max(1) * 2 - 1 };
        let mut c = 1u64;
        while c <= cmax {
            let y = BigInt::from(c) * pow2(k);
            if y.bits() <= nbv as u64 { for cand in [y.clone(), emod(&(&q - &y), &pow2(nbv))] { out.push(cand); } }
            c += 2;
        }
    }
    out
}
fn gcd_specials<F: PF>() -> Vec<Vec<u8>> {
    let mut out = el_specials::<F>();
    for y in gcd_family::<F>() { let w = in_internal::<F>(&clampn::<F>(y)); out.push(w); }
    out
}
fn gcd_random<F: PF>(r: &mut Rng) -> Vec<u8> {
    if r.below(2) == 0 { return el_random::<F>(r); }
    let nbv = nbits::<F>();
    let j = 1 + r.below(60.min(nbv as u64 - 1)) as u32;
    let k = nbv - j;
    let c = (r.next() | 1) & ((1u64 << j.min(40)) - 1).max(1);
    let mut y = BigInt::from(c) * pow2(k);
    if y.bits() > nbv as u64 { y = pow2(k); }
    if r.below(3) == 0 { y = emod(&(F::modulus() - &y), &pow2(nbv)); }
    in_internal::<F>(&clampn::<F>(y))
}

fn limb_pal<F: PF>(r: &mut Rng, i: usize) -> u64 {
    let ml = { let q = F::modulus(); let (_, d) = q.to_u64_digits(); d.get(i).copied().unwrap_or(0) };
    match r.below(20) {
        0 => 0, 1 => 1, 2 => u64::MAX, 3 => u64::MAX - 1, 4 => 1u64 << 63, 5 => (1u64 << 63) - 1, 6 => (1u64 << 63) + 1,
        7 => ml, 8 => ml.wrapping_sub(1 + r.below(3)), 9 => ml.wrapping_add(1 + r.below(3)),
        10 => 1u64 << r.below(64), 11 => u64::MAX << r.below(64), 12 => u64::MAX >> r.below(64),
        13 => 0xFFFFFFFF, 14 => 0xFFFFFFFF00000000, 15 => 1u64 << 32, 16 => r.below(1 << 12), 17 => (r.below(1 << 12)).wrapping_neg(),
        _ => r.next(),
    }
}
fn pal_int<F: PF>(r: &mut Rng) -> BigInt {
    let l: Vec<u64> = (0..F::NL).map(|i| limb_pal::<F>(r, i)).collect();
    limbs_to_int(&l)
}
fn small_delta(r: &mut Rng) -> BigInt { BigInt::from(r.below(9) as i64 - 4) }
/// integer in 0..n (n > 0), biased towards both ends
fn rand_big(r: &mut Rng, n: &BigInt) -> BigInt {
    match r.below(4) {
        0 => BigInt::from(r.below(8)) % n,
        1 => { let x: BigInt = n - BigInt::from(1 + r.below(8)); if x.sign() == Sign::Minus { zero() } else { x } }
        _ => { let k = (n.bits() / 64 + 2) as usize; let l: Vec<u64> = (0..k).map(|_| r.next()).collect(); limbs_to_int(&l) % n }
    }
}
fn clampn<F: PF>(x: BigInt) -> BigInt { let top = pow2(nbits::<F>()); if x.sign() == Sign::Minus { zero() } else if x >= top { top - 1 } else { x } }

fn el_random<F: PF>(r: &mut Rng) -> Vec<u8> {
    let q = F::modulus();
    match r.below(10) {
        0 => { let sp = pats::<F>(); let x = clampn::<F>(&sp[r.below(sp.len() as u64) as usize] + small_delta(r));
               if r.below(2) == 0 { in_value::<F>(&x) } else { in_internal::<F>(&x) } }
        1 => { // +-2^k (+ small) as value or as internal pattern
               let k = r.below(nbits::<F>() as u64) as u32;
               let mut x = pow2(k) + small_delta(r); if r.below(2) == 0 { x = &q - x; }
               let x = clampn::<F>(emod(&x, &pow2(nbits::<F>())));
               if r.below(2) == 0 { in_value::<F>(&x) } else { in_internal::<F>(&x) } }
        2 => { // +-1/2^k as value
               let k = r.below(q.bits() + 70);
               let mut x = modpow(&((&q + 1) / 2), &BigInt::from(k), &q); if r.below(2) == 0 { x = emod(&-x, &q); }
               in_value::<F>(&x) }
        3 => { // just below / above j*2^(64k)
               let k = 1 + r.below(F::NL as u64 - 1) as u32; let j = BigInt::from(limb_pal::<F>(r, 0));
               let x = clampn::<F>((j << (64 * k)) + small_delta(r));
               if r.below(2) == 0 { in_value::<F>(&x) } else { in_internal::<F>(&x) } }
        4 => { // multiples of q (non-reduced representations where admitted)
               let x = clampn::<F>(&q * BigInt::from(r.below(3)) + small_delta(r));
               if r.below(2) == 0 { in_value::<F>(&x) } else { in_internal::<F>(&x) } }
        5 => { let x = pal_int::<F>(r); in_value::<F>(&x) }
        6 | 7 | 8 => { let x = pal_int::<F>(r); in_internal::<F>(&x) }
        _ => { let mut b = Vec::new(); for _ in 0..F::NL { b.extend_from_slice(&r.next().to_le_bytes()); } b }
    }
}

/// arbitrary NL-limb integers for the limb constructors
fn int_specials<F: PF>() -> Vec<Vec<u8>> { pats::<F>().iter().map(|x| int_to_le(x, nbytes::<F>())).collect() }
fn int_random<F: PF>(r: &mut Rng) -> Vec<u8> {
    let q = F::modulus();
    let x = match r.below(4) {
        0 => { let kmax = pow2(nbits::<F>()) / &q + 1; clampn::<F>(&q * rand_big(r, &kmax) + small_delta(r)) }
        1 => { let sp = pats::<F>(); clampn::<F>(&sp[r.below(sp.len() as u64) as usize] + small_delta(r)) }
        _ => pal_int::<F>(r),
    };
    int_to_le(&x, nbytes::<F>())
}

/// pair whose INTERNAL integer product is within a few multiples of b of k*2^(64*j), j in NL+1..2NL-1
fn target_pair<F: PF>(r: &mut Rng) -> Option<(BigInt, BigInt)> {
    let bd = ibound::<F>();
    let mut b = pal_int::<F>(r) % &bd; if b.sign() == Sign::NoSign { b = BigInt::from(1); }
    let t = 64 * (F::NL as u64 + 1 + r.below(F::NL as u64 - 1));
    let kmax: BigInt = (&b * (&bd - 1)) >> t;
    if kmax < BigInt::from(1) { return None; }
    let k = rand_big(r, &kmax) + 1;
    let num: BigInt = k << t;
    let a: BigInt = (num + &b - BigInt::from(1)) / &b + BigInt::from(r.below(5) as i64 - 2);
    if a.sign() == Sign::Minus || a >= bd { return None; }
    Some((a, b))
}
fn target_sq<F: PF>(r: &mut Rng) -> Option<BigInt> {
    let bd = ibound::<F>();
    let t = 64 * (F::NL as u64 + 1 + r.below(F::NL as u64 - 1));
    let kmax: BigInt = ((&bd - 1) * (&bd - 1)) >> t;
    if kmax < BigInt::from(1) { return None; }
    let k = if r.below(2) == 0 { rand_big(r, &kmax) + 1 } else { (pal_int::<F>(r) % &kmax) + 1 };
    let num: BigInt = k << t;
    let a: BigInt = num.sqrt() + BigInt::from(r.below(4) as i64 - 1);
    if a.sign() == Sign::Minus || a >= bd { return None; }
    Some(a)
}
fn pair_bytes<F: PF>(a: &BigInt, b: &BigInt, swap: bool) -> Vec<u8> {
    let (mut x, y) = if swap { (in_internal::<F>(b), in_internal::<F>(a)) } else { (in_internal::<F>(a), in_internal::<F>(b)) };
    x.extend_from_slice(&y); x
}
fn pair_specials<F: PF>() -> Vec<Vec<u8>> {
    let sp = el_specials::<F>();
    let mut out = Vec::new();
    for a in sp.iter().take(44) { for b in sp.iter().take(44) { let mut w = a.clone(); w.extend_from_slice(b); out.push(w); } }
    let mut r = Rng(0x51ed_270b_93a4_c0de);
    let mut n = 0;
    while n < 400 { if let Some((a, b)) = target_pair::<F>(&mut r) { out.push(pair_bytes::<F>(&a, &b, n % 2 == 1)); n += 1; } }
    out
}
fn pair_random<F: PF>(r: &mut Rng) -> Vec<u8> {
    if r.below(2) == 0 { if let Some((a, b)) = target_pair::<F>(r) { return pair_bytes::<F>(&a, &b, r.below(2) == 0); } }
    let mut w = el_random::<F>(r); w.extend_from_slice(&el_random::<F>(r)); w
}
fn sq_specials<F: PF>() -> Vec<Vec<u8>> {
    let mut out = el_specials::<F>();
    let mut r = Rng(0x7a11_5eed_0bad_cafe);
    let mut n = 0;
    while n < 400 { if let Some(a) = target_sq::<F>(&mut r) { out.push(in_internal::<F>(&a)); n += 1; } }
    out
}
fn sq_random<F: PF>(r: &mut Rng) -> Vec<u8> {
    if r.below(2) == 0 { if let Some(a) = target_sq::<F>(r) { return in_internal::<F>(&a); } }
    el_random::<F>(r)
}

/// byte strings of length 0..=150 for the decoders
fn vb_specials<F: PF>() -> Vec<Vec<u8>> {
    let el = F::EL; let q = F::modulus();
    let mut lens = vec![0usize, 1, el - 1, el, el + 1, 2 * el - 1, 2 * el, 2 * el + 1, 27, 28, 29, 31, 32, 33, 55, 56, 57, 63, 64, 65, 84, 96, 111, 112, 113, 128, 140, 149, 150];
    lens.sort(); lens.dedup();
    let mut v: Vec<Vec<u8>> = Vec::new();
    for n in lens { v.push(vec![0u8; n]); v.push(vec![0xFFu8; n]); let mut w = vec![0u8; n]; if n > 0 { w[n - 1] = 0x80; v.push(w); } }
    for x in pats::<F>() {
        if x < pow2(8 * el as u32) {
            let w = int_to_le(&x, el);
            v.push(w.clone());
            let mut w1 = w.clone(); w1.push(0); v.push(w1);
            v.push(w[..el - 1].to_vec());
            let mut w2 = w.clone(); w2.extend_from_slice(&w); v.push(w2);
        }
    }
    let mut w = int_to_le(&(&q - 1), el); w.extend_from_slice(&int_to_le(&(&q - 1), el)); w.extend_from_slice(&[0xFF; 38]); w.truncate(150); v.push(w);
    v
}
fn vb_random<F: PF>(r: &mut Rng) -> Vec<u8> {
    let el = F::EL; let q = F::modulus();
    let n = match r.below(8) {
        0 | 1 | 2 | 3 => el,
        4 => el - 1 + 2 * r.below(2) as usize,
        5 => r.below(151) as usize,
        _ => { let u = [28usize, 32, 56, el][r.below(4) as usize]; ((u * (1 + r.below(150 / u as u64) as usize)) + r.below(3) as usize).saturating_sub(1).min(150) }
    };
    let mut b: Vec<u8> = Vec::with_capacity(n + 8);
    while b.len() < n { b.extend_from_slice(&limb_pal::<F>(r, (b.len() / 8) % F::NL).to_le_bytes()); }
    b.truncate(n);
    if n >= el {
        match r.below(4) {
            0 => { let sp = pats::<F>(); let x = clampn::<F>(&sp[r.below(sp.len() as u64) as usize] + small_delta(r));
                   if x < pow2(8 * el as u32) { let p = n - el; b[p..].copy_from_slice(&int_to_le(&x, el)); if r.below(2) == 0 { b[..el].copy_from_slice(&int_to_le(&x, el)); } } }
            1 => { let x = le_to_int(&b[..el]) % &q; b[..el].copy_from_slice(&int_to_le(&x, el)); }
            _ => {}
        }
    }
    b
}

/// batch_invert input: five elements, zeros at random places
fn five_specials<F: PF>() -> Vec<Vec<u8>> {
    let sp = el_specials::<F>();
    let z = vec![0u8; nbytes::<F>()];
    let mut out = Vec::new();
    let mut r = Rng(0x0b47_c4_1e57);
    for i in 0..48u64 {
        let mut w = Vec::new();
        for j in 0..5 { if (i >> j) & 1 == 1 && i < 32 { w.extend_from_slice(&z); } else { w.extend_from_slice(&sp[r.below(sp.len() as u64) as usize]); } }
        out.push(w);
    }
    out
}
fn five_random<F: PF>(r: &mut Rng) -> Vec<u8> {
    let mut w = Vec::new();
    for _ in 0..5 { if r.below(6) == 0 { w.extend_from_slice(&vec![0u8; nbytes::<F>()]); } else { w.extend_from_slice(&el_random::<F>(r)); } }
    w
}
fn cnt_specials() -> Vec<Vec<u8>> { (0u8..=8).map(|x| vec![x]).collect() }
fn cnt_random(r: &mut Rng) -> Vec<u8> { vec![if r.below(40) == 0 { 6 + r.below(4) as u8 } else { r.below(6) as u8 }] }

/// pairs for equals(): identical, congruent (x, x +- q), one bit apart, independent
fn eq_random<F: PF>(r: &mut Rng) -> Vec<u8> {
    let q = F::modulus(); let top = pow2(nbits::<F>());
    let mut a = el_random::<F>(r);
    let b = match r.below(5) {
        0 => a.clone(),
        1 | 2 => { let x = le_to_int(&a); let y = if x >= q { x - &q } else if &x + &q < top { x + &q } else { x }; int_to_le(&y, nbytes::<F>()) }
        3 => { let mut w = a.clone(); let k = r.below(8 * w.len() as u64) as usize; w[k / 8] ^= 1 << (k % 8); w }
        _ => el_random::<F>(r),
    };
    if r.below(2) == 0 { let mut w = b; w.extend_from_slice(&a); w } else { a.extend_from_slice(&b); a }
}

// ------------------------------------------------------------------------
// Prime-field cases (written once for all representations).

fn reg_pf<F: PF>(v: &mut Vec<Case>, prefix: &str, tag: &str) {
    let cx = ctx::<F>();
    let mkid = |name: &str| if tag.is_empty() { format!("{}_{}", prefix, name) } else { format!("{}_{}@{}", prefix, name, tag) };
    let nb = nbytes::<F>();
    let el = Op::Custom { len: Some(nb), specials: el_specials::<F>, random: el_random::<F> };
    let gcdel = Op::Custom { len: Some(nb), specials: gcd_specials::<F>, random: gcd_random::<F> };
    let pair = Op::Custom { len: Some(2 * nb), specials: pair_specials::<F>, random: pair_random::<F> };
    let eqp = Op::Custom { len: Some(2 * nb), specials: pair_specials::<F>, random: eq_random::<F> };
    let sq = Op::Custom { len: Some(nb), specials: sq_specials::<F>, random: sq_random::<F> };
    let int = Op::Custom { len: Some(nb), specials: int_specials::<F>, random: int_random::<F> };
    let vb = Op::Custom { len: None, specials: vb_specials::<F>, random: vb_random::<F> };
    let five = Op::Custom { len: Some(5 * nb), specials: five_specials::<F>, random: five_random::<F> };
    let cnt = Op::Custom { len: Some(1), specials: cnt_specials, random: cnt_random };
    macro_rules! case { ($name:expr, $desc:expr, $ops:expr, |$o:ident, $c:ident| $body:expr) => {{
        let ops: Vec<Op> = $ops; let opsc = ops.clone(); let cxc = cx.clone();
        v.push(Case { id: mkid($name), describe: $desc, ops, run: Box::new(move |inp: &[u8]| -> Result<(), String> {
            let $o = split(&opsc, inp).ok_or("bad input length")?; let $c = &cxc; $body }) });
    }}; }

    case!("add", "fe(a+b) == fe(a)+fe(b) mod q, all operator forms; result limbs canonical", vec![el.clone(), el.clone()], |o, c| {
        let (a, b) = (F::mk(o[0]), F::mk(o[1]));
        all_eq(c, &a.f_add(b), &((fe(&a) + fe(&b)) % &c.q), "add") });
    case!("sub", "fe(a-b) == fe(a)-fe(b) mod q, all operator forms; result limbs canonical", vec![el.clone(), el.clone()], |o, c| {
        let (a, b) = (F::mk(o[0]), F::mk(o[1]));
        all_eq(c, &a.f_sub(b), &emod(&(fe(&a) - fe(&b)), &c.q), "sub") });
    case!("neg", "fe(-a) == -fe(a) mod q", vec![el.clone()], |o, c| {
        let a = F::mk(o[0]);
        all_eq(c, &a.f_neg(), &emod(&-fe(&a), &c.q), "neg") });
    case!("half", "2*fe(half(a)) == fe(a) mod q", vec![el.clone()], |o, c| {
        let a = F::mk(o[0]); let r = a.f_half();
        wf(c, &r, "half")?;
        chk((fe(&r) * 2) % &c.q == fe(&a), || format!("half: got {} limbs {:x?}", hex(&r.enc()), r.raw())) });
    case!("mul", "fe(a*b) == fe(a)*fe(b) mod q, all operator forms (pairs targeted at carry boundaries of the limb product)", vec![pair.clone()], |o, c| {
        let (a, b) = (F::mk(&o[0][..nb]), F::mk(&o[0][nb..]));
        all_eq(c, &a.f_mul(b), &((fe(&a) * fe(&b)) % &c.q), "mul") });
    case!("square", "fe(square(a)) == fe(a)^2 mod q", vec![sq.clone()], |o, c| {
        let a = F::mk(o[0]);
        all_eq(c, &[a.f_square()], &((fe(&a) * fe(&a)) % &c.q), "square") });
    case!("xsquare", "fe(xsquare(a,n)) == fe(a)^(2^n) mod q (n reduced mod 70 by the case)", vec![sq.clone(), Op::U32], |o, c| {
        let a = F::mk(o[0]); let n = u32of(o[1]) % 70;
        all_eq(c, &[a.f_xsquare(n)], &modpow(&fe(&a), &pow2(n), &c.q), "xsquare") });
    case!("mulk", "fe(mulK(a)) == K*fe(a) mod q for every constant multiplier (mul2/3/4/8/16/32, mul21)", vec![el.clone()], |o, c| {
        let a = F::mk(o[0]); let x = fe(&a);
        for (k, r) in a.f_mulk() { all_eq(c, &[r], &((&x * BigInt::from(k)) % &c.q), &format!("mul{}", k))?; }
        Ok(()) });
    if F::HAS_MUL_SMALL {
        case!("mul_small", "fe(mul_small(a,k)) == k*fe(a) mod q, every 32-bit k (mul_u16: every 16-bit k)", vec![el.clone(), Op::U32], |o, c| {
            let a = F::mk(o[0]); let (k, r) = a.f_mul_small(u32of(o[1])).unwrap();
            all_eq(c, &[r], &((fe(&a) * BigInt::from(k)) % &c.q), &format!("mul_small({:#x})", k)) });
    }
    case!("encode", "encode == canonical LE encoding of the represented value (value computed from the input limbs)", vec![el.clone()], |o, c| {
        let a = F::mk(o[0]); let e = a.enc(); let want = int_to_le(&in_val::<F>(c, o[0]), F::EL);
        if let Some(l) = a.raw() { if F::RAWIN && limbs_to_int(&l) != le_to_int(o[0]) % &c.q { return Err(format!("limb constructor/accessor mismatch {:x?}", l)); } }
        if let Some(e2) = a.enc_alt() { if e2 != e { return Err(format!("encode {} != encode32 {}", hex(&e), hex(&e2))); } }
        chk(e == want, || format!("encode: got {} want {}", hex(&e), hex(&want))) });
    case!("iszero", "iszero == 0xFFFFFFFF iff the value is 0 mod q (every representation) else 0", vec![el.clone()], |o, c| {
        let a = F::mk(o[0]); let r = a.f_iszero();
        let want = if in_val::<F>(c, o[0]).sign() == Sign::NoSign { 0xFFFFFFFFu32 } else { 0 };
        chk(r == want, || format!("iszero: got {:08x} want {:08x}", r, want)) });
    case!("equals", "equals == 0xFFFFFFFF iff the values are equal mod q (every representation) else 0", vec![eqp.clone()], |o, c| {
        let (a, b) = (F::mk(&o[0][..nb]), F::mk(&o[0][nb..]));
        let want = if in_val::<F>(c, &o[0][..nb]) == in_val::<F>(c, &o[0][nb..]) { 0xFFFFFFFFu32 } else { 0 };
        let (r1, r2) = (a.f_equals(b), b.f_equals(a));
        chk(r1 == want && r2 == want, || format!("equals: got {:08x}/{:08x} want {:08x}", r1, r2, want)) });
    case!("cond", "set_cond / select / cswap copy or exchange exactly per ctl in {0, 0xFFFFFFFF}", vec![el.clone(), el.clone(), Op::Ctl], |o, _c| {
        let (a, b, ctl) = (F::mk(o[0]), F::mk(o[1]), u32of(o[2]));
        if ctl != 0 && ctl != 0xFFFFFFFF { return Ok(()); }
        let mut t = a; t.f_set_cond(&b, ctl);
        chk(same(&t, if ctl == 0 { &a } else { &b }), || format!("set_cond: got {} {:x?}", hex(&t.enc()), t.raw()))?;
        let t = F::f_select(&a, &b, ctl);
        chk(same(&t, if ctl == 0 { &a } else { &b }), || format!("select: got {} {:x?}", hex(&t.enc()), t.raw()))?;
        let (mut s, mut t) = (a, b); F::f_cswap(&mut s, &mut t, ctl);
        let (ws, wt) = if ctl == 0 { (&a, &b) } else { (&b, &a) };
        chk(same(&s, ws) && same(&t, wt), || format!("cswap: got {} / {}", hex(&s.enc()), hex(&t.enc()))) });
    case!("decode_ct", "strict decoders (decode_ct, set_decode_ct on a non-zero value, decode, decode32, set_decode32): (value, 0xFFFFFFFF) iff right length and LE(buf) < q, else (zero, 0)", vec![vb.clone()], |o, c| {
        let buf = o[0]; let n = le_to_int(buf);
        let check = |r: &F, cc: u32, what: &str, valid: bool| -> Result<(), String> {
            if valid {
                wf(c, r, what)?;
                chk(cc == 0xFFFFFFFF && fe(r) == n && r.enc()[..] == buf[..], || format!("{}(valid): cc={:08x} value {}", what, cc, hex(&r.enc())))
            } else {
                let rz = r.raw().map(|l| l.iter().all(|&w| w == 0)).unwrap_or(true);
                chk(cc == 0 && fe(r).sign() == Sign::NoSign && r.f_iszero() == 0xFFFFFFFF && rz, || format!("{}(invalid): cc={:08x} value {} limbs {:x?}", what, cc, hex(&r.enc()), r.raw()))
            }
        };
        let valid = buf.len() == F::EL && n < c.q;
        let valid32 = buf.len() == 32 && n < c.q;
        let prev = F::from_ints(0x0123_4567_89AB_CDEF, 0)[3];
        let (r, cc) = F::f_decode_ct(buf); check(&r, cc, "decode_ct", valid)?;
        let mut r = prev; let cc = r.f_set_decode_ct(buf); check(&r, cc, "set_decode_ct", valid)?;
        match F::f_decode(buf) {
            Some(r) => { chk(valid, || format!("decode accepted {}", hex(buf)))?; check(&r, 0xFFFFFFFF, "decode", true)?; }
            None => chk(!valid, || format!("decode rejected canonical {}", hex(buf)))?,
        }
        if let Some((r, cc)) = F::f_decode32(buf) { check(&r, cc, "decode32", valid32)?; }
        let mut r = prev; if let Some(cc) = r.f_set_decode32(buf) { check(&r, cc, "set_decode32", valid32)?; }
        Ok(()) });
    case!("decode_reduce", "fe(decode_reduce(buf)) == LE(buf) mod q for every length 0..=150", vec![vb.clone()], |o, c| {
        let r = F::f_decode_reduce(o[0]);
        all_eq(c, &[r], &(le_to_int(o[0]) % &c.q), "decode_reduce") });
    case!("roundtrip", "decode(encode(a)) == a (same value, same limbs where canonical) with status 0xFFFFFFFF", vec![el.clone()], |o, c| {
        let a = F::mk(o[0]); let e = a.enc();
        let (r, cc) = F::f_decode_ct(&e);
        wf(c, &r, "roundtrip")?;
        let lim = if F::MONTY { same(&r, &a) } else { true };
        chk(cc == 0xFFFFFFFF && fe(&r) == fe(&a) && r.f_equals(a) == 0xFFFFFFFF && lim && r.enc() == e, || format!("roundtrip: enc {} -> cc {:08x} {}", hex(&e), cc, hex(&r.enc()))) });
    case!("from_int", "from_i32/u32/i64/u64/i128/u128(x) == x mod q; ZERO/ONE/MINUS_ONE", vec![Op::U64, Op::U64], |o, c| {
        let (lo, hi) = (u64of(o[0]), u64of(o[1]));
        let x = ((hi as u128) << 64) | lo as u128;
        let want = [BigInt::from(lo as i32), BigInt::from(lo as u32), BigInt::from(lo as i64), BigInt::from(lo), BigInt::from(x as i128), BigInt::from(x)];
        let got = F::from_ints(lo, hi);
        for i in 0..6 { all_eq(c, &[got[i]], &emod(&want[i], &c.q), ["from_i32", "from_u32", "from_i64", "from_u64", "from_i128", "from_u128"][i])?; }
        let k = F::consts();
        all_eq(c, &[k[0]], &zero(), "ZERO")?; all_eq(c, &[k[1]], &BigInt::from(1), "ONE")?; all_eq(c, &[k[2]], &(&c.q - 1), "MINUS_ONE") });
    case!("from_w64", "w64le/w64be/from_w64le/from_w64be(limbs) == integer mod q for every limb pattern (>= q, 2q, 2^255, all-ones ...)", vec![int.clone()], |o, c| {
        let l = limbs_of(o[0]);
        all_eq(c, &F::w64(&l), &(le_to_int(o[0]) % &c.q), "w64") });
    case!("div", "(a/b)*b == a when b != 0; a/0 == 0; all operator forms (+ invert where public)", vec![el.clone(), gcdel.clone()], |o, c| {
        let (a, b) = (F::mk(o[0]), F::mk(o[1])); let (x, y) = (fe(&a), fe(&b));
        for (i, r) in a.f_div(b).iter().enumerate() {
            wf(c, r, "div")?;
            let ok = if y.sign() == Sign::NoSign { fe(r).sign() == Sign::NoSign } else { (fe(r) * &y) % &c.q == x };
            if !ok { return Err(format!("div (form {}): got {} limbs {:x?}", i, hex(&r.enc()), r.raw())); }
        }
        if let Some(r) = b.f_invert() {
            wf(c, &r, "invert")?;
            let ok = if y.sign() == Sign::NoSign { fe(&r).sign() == Sign::NoSign } else { (fe(&r) * &y) % &c.q == BigInt::from(1) };
            if !ok { return Err(format!("invert: got {}", hex(&r.enc()))); }
        }
        Ok(()) });
    case!("batch_invert", "batch_invert == element-wise inversion, zeros preserved; lengths 0..=5 and around the internal block size", vec![cnt.clone(), five.clone()], |o, c| {
        let n = match o[0][0] { x @ 0..=5 => x as usize, 6 => F::BATCH - 1, 7 => F::BATCH, 8 => F::BATCH + 1, 9 => F::BATCH + 5, x => (x % 6) as usize };
        let mut xs: Vec<F> = (0..n).map(|i| {
            let e = &o[1][(i % 5) * nb..(i % 5 + 1) * nb];
            if i < 5 || (i / 5) % 3 == 0 { F::mk(e) } else { let mut w = e.to_vec(); let l0 = u64of(&w).wrapping_add(i as u64); w[..8].copy_from_slice(&l0.to_le_bytes()); F::mk(&w) }
        }).collect();
        let orig = xs.clone();
        F::f_batch_invert(&mut xs);
        for i in 0..n {
            wf(c, &xs[i], "batch_invert")?;
            let (x, y) = (fe(&orig[i]), fe(&xs[i]));
            let ok = if x.sign() == Sign::NoSign { y.sign() == Sign::NoSign } else { (&x * &y) % &c.q == BigInt::from(1) };
            if !ok { return Err(format!("batch_invert n={} i={}: in {} out {}", n, i, hex(&orig[i].enc()), hex(&xs[i].enc()))); }
        }
        Ok(()) });
    case!("legendre", "legendre(a) in {0,1,-1} per Euler's criterion (operands include the slowest-converging binary-GCD patterns c*2^k)", vec![gcdel.clone()], |o, c| {
        let a = F::mk(o[0]); let r = a.f_legendre();
        let e = modpow(&fe(&a), &((&c.q - 1) / 2), &c.q);
        let want = if e.sign() == Sign::NoSign { 0 } else if e == BigInt::from(1) { 1 } else { -1 };
        chk(r == want, || format!("legendre: got {} want {}", r, want)) });
    if F::HAS_SQRT {
        case!("sqrt", "sqrt: status all-ones iff a is a square; root has even lsb and squares to a; else (zero, 0)", vec![el.clone()], |o, c| {
            let a = F::mk(o[0]); let x = fe(&a);
            let (y, r) = a.f_sqrt().unwrap();
            wf(c, &y, "sqrt")?;
            let yv = fe(&y);
            if modpow(&x, &((&c.q - 1) / 2), &c.q) != &c.q - 1 {
                chk(r == 0xFFFFFFFF && (&yv * &yv) % &c.q == x && !yv.bit(0), || format!("sqrt(QR): r={:08x} y {}", r, hex(&y.enc())))
            } else {
                chk(r == 0 && yv.sign() == Sign::NoSign, || format!("sqrt(nonQR): r={:08x} y {}", r, hex(&y.enc())))
            } });
    }
    if F::HAS_SQRT_EXT {
        case!("sqrt_ext", "sqrt_ext (q = 3 mod 4): (sqrt(a), all-ones) if a is a square else (sqrt(-a), 0); root has even lsb", vec![el.clone()], |o, c| {
            let a = F::mk(o[0]); let x = fe(&a);
            let (y, r) = a.f_sqrt_ext().unwrap();
            wf(c, &y, "sqrt_ext")?;
            let yv = fe(&y); let y2 = (&yv * &yv) % &c.q;
            if modpow(&x, &((&c.q - 1) / 2), &c.q) != &c.q - 1 {
                chk(r == 0xFFFFFFFF && y2 == x && !yv.bit(0), || format!("sqrt_ext(QR): r={:08x} y {}", r, hex(&y.enc())))
            } else {
                chk(r == 0 && y2 == emod(&-x, &c.q) && !yv.bit(0), || format!("sqrt_ext(nonQR): r={:08x} y {}", r, hex(&y.enc())))
            } });
    }
    if F::HAS_SPLIT128 {
        let gd: Guard<F, (i128, i128)> = Guard::new(|a: F| a.f_split128().unwrap());
        case!("split", "split_vartime: k*c1' == c0' mod n, c1' != 0, (c0',c1') = (c0 + a*2^128, c1 + b*2^128) with |a|,|b| <= 0/1/2 per modulus size; zero -> (0,1); no panic", vec![el.clone()], |o, c| {
            let a = F::mk(o[0]); let k = fe(&a);
            let (c0, c1) = gd.call("split_vartime", a)?;
            if k.sign() == Sign::NoSign { return chk(c0 == 0 && c1 == 1, || format!("split(0) = ({}, {})", c0, c1)); }
            let q2 = &c.q * &c.q;
            let rg: i32 = if q2 <= BigInt::from(3) << 506 { 0 } else if q2 <= BigInt::from(3) << 510 { 1 } else { 2 };
            for da in -rg..=rg { for db in -rg..=rg {
                let d0 = BigInt::from(c0) + BigInt::from(da) * pow2(128);
                let d1 = BigInt::from(c1) + BigInt::from(db) * pow2(128);
                if emod(&d1, &c.q).sign() != Sign::NoSign && emod(&(&k * &d1 - &d0), &c.q).sign() == Sign::NoSign { return Ok(()); }
            } }
            Err(format!("split: k={:x} c0={} c1={} (no a,b in -{}..={} fits)", k, c0, c1, rg, rg)) });
    }
    if F::HAS_SPLIT_BYTES {
        let gd: Guard<F, (Vec<u8>, Vec<u8>)> = Guard::new(|a: F| a.f_split_bytes().unwrap());
        case!("split", "split_vartime (gfgen): k*c1 == c0 mod p, c1 != 0 mod p, 3*c^4 < 4*p^2 for both; no panic", vec![el.clone()], |o, c| {
            let a = F::mk(o[0]); let k = fe(&a);
            let (b0, b1) = gd.call("split_vartime", a)?;
            let (c0, c1) = (BigInt::from_signed_bytes_le(&b0), BigInt::from_signed_bytes_le(&b1));
            let small = |x: &BigInt| BigInt::from(3) * x * x * x * x < BigInt::from(4) * &c.q * &c.q;
            chk(emod(&c1, &c.q).sign() != Sign::NoSign && emod(&(&k * &c1 - &c0), &c.q).sign() == Sign::NoSign && small(&c0) && small(&c1),
                || format!("split: k={:x} c0={} c1={}", k, c0, c1)) });
    }
}

// ------------------------------------------------------------------------
// Binary fields: GF(2^127) = GF(2)[z]/(z^127 + z^63 + 1), GF(2^254) = GF(2^127)[u]/(u^2 + u + 1).
// Reference arithmetic straight from the definition (shift-and-xor product, bit-by-bit reduction).

const Z127: u128 = 1u128 << 127;
const ZLOW: u128 = (1u128 << 63) | 1; // z^127 = z^63 + 1
/// canonical (degree < 127) representative of a 128-bit pattern
fn bnorm(x: u128) -> u128 { if x & Z127 != 0 { (x ^ Z127) ^ ZLOW } else { x } }
/// product in GF(2^127) of two canonical values (u128 bit operations)
fn bmul(a: u128, b: u128) -> u128 {
    let mut w = [0u128; 2];
    let mut bb = b;
    while bb != 0 { let i = bb.trailing_zeros(); bb &= bb - 1; w[0] ^= a << i; if i > 0 { w[1] ^= a >> (128 - i); } }
    let flip = |w: &mut [u128; 2], i: usize| w[i / 128] ^= 1u128 << (i % 128);
    for i in (127..254).rev() {
        if (w[i / 128] >> (i % 128)) & 1 == 1 { flip(&mut w, i); flip(&mut w, i - 127); flip(&mut w, i - 64); }
    }
    w[0]
}
/// same product with num-bigint bit operations (second, independent oracle for the mul case)
fn bmul_big(a: u128, b: u128) -> u128 {
    let (a, b) = (BigUint::from(a), BigUint::from(b));
    let one = BigUint::from(1u8);
    let m = (&one << 127u32) | (&one << 63u32) | &one;
    let mut acc = BigUint::from(0u8);
    for i in 0..127u64 { if b.bit(i) { acc ^= &a << i; } }
    for i in (127..254u64).rev() { if acc.bit(i) { acc ^= &m << (i - 127); } }
    let mut by = acc.to_bytes_le(); by.resize(16, 0);
    u128::from_le_bytes(by[..16].try_into().unwrap())
}
fn bsq(a: u128) -> u128 { bmul(a, a) }
fn bxsq(mut a: u128, n: u32) -> u128 { for _ in 0..n { a = bsq(a); } a }
fn btrace(a: u128) -> u128 { let (mut t, mut x) = (0u128, a); for _ in 0..127 { t ^= x; x = bsq(x); } t }
fn bhalftrace(a: u128) -> u128 { let (mut t, mut x) = (0u128, a); for i in 0..64 { t ^= x; if i < 63 { x = bsq(bsq(x)); } } t }
type B2 = (u128, u128);
fn b2mul(a: B2, b: B2) -> B2 { let t = bmul(a.1, b.1); (bmul(a.0, b.0) ^ t, bmul(a.0, b.1) ^ bmul(a.1, b.0) ^ t) }
/// (a0 + a1*u)^2 = a0^2 + a1^2*(u + 1)
fn b2sq(a: B2) -> B2 { let t = bsq(a.1); (bsq(a.0) ^ t, t) }
fn b2xsq(mut a: B2, n: u32) -> B2 { for _ in 0..n { a = b2sq(a); } a }
fn b2trace(a: B2) -> B2 { let (mut t, mut x) = ((0u128, 0u128), a); for _ in 0..254 { t = (t.0 ^ x.0, t.1 ^ x.1); x = b2sq(x); } t }

fn u128of(b: &[u8]) -> u128 { u128::from_le_bytes(b[..16].try_into().unwrap()) }
fn b1(b: &[u8]) -> GFb127 { GFb127::w64le(u64of(b), u64of(&b[8..])) }
fn b1v(x: &GFb127) -> Result<u128, String> { let v = u128::from_le_bytes(x.encode()); if v & Z127 != 0 { Err(format!("non-canonical encoding {:x}", v)) } else { Ok(v) } }
fn b2(b: &[u8]) -> GFb254 { GFb254::w64le(u64of(b), u64of(&b[8..]), u64of(&b[16..]), u64of(&b[24..])) }
fn b2v(x: &GFb254) -> Result<B2, String> {
    let e = x.encode(); let v = (u128of(&e), u128of(&e[16..]));
    if (v.0 | v.1) & Z127 != 0 { Err(format!("non-canonical encoding {}", hex(&e))) } else { Ok(v) }
}
fn b2in(b: &[u8]) -> B2 { (bnorm(u128of(b)), bnorm(u128of(&b[16..]))) }

fn b1_list() -> Vec<u128> {
    vec![0, 1, 2, 3, 1 << 63, 1 << 64, 1 << 126, Z127, Z127 | ZLOW, Z127 | 1, u128::MAX, u128::MAX >> 1, u64::MAX as u128, (u64::MAX as u128) << 64,
         0x5555_5555_5555_5555_5555_5555_5555_5555, 0xAAAA_AAAA_AAAA_AAAA_AAAA_AAAA_AAAA_AAAA, 1 | (1 << 27), 1 | (1 << 54), ZLOW, (1 << 64) | (1 << 32), 1 << 62, 1 << 65]
}
fn b1_specials() -> Vec<Vec<u8>> { b1_list().iter().map(|x| x.to_le_bytes().to_vec()).collect() }
fn b1_rand(r: &mut Rng) -> u128 {
    let w = |r: &mut Rng| -> u64 { match r.below(10) { 0 => 0, 1 => u64::MAX, 2 => 1 << r.below(64), 3 => u64::MAX << r.below(64), 4 => u64::MAX >> r.below(64), 5 => 0x5555555555555555, 6 => 0xAAAAAAAAAAAAAAAA, 7 => 1 | (1 << 63), _ => r.next() } };
    match r.below(8) {
        0 => { let l = b1_list(); l[r.below(l.len() as u64) as usize] ^ (r.below(4) as u128) }
        1 => 1u128 << r.below(128),
        2 => (1u128 << r.below(128)) ^ (1u128 << r.below(128)) ^ if r.below(2) == 0 { Z127 } else { 0 },
        _ => ((w(r) as u128) << 64) | w(r) as u128,
    }
}
fn b1_random(r: &mut Rng) -> Vec<u8> { b1_rand(r).to_le_bytes().to_vec() }
fn b2_specials() -> Vec<Vec<u8>> {
    let l = [0u128, 1, 2, 1 << 63, 1 << 126, Z127, Z127 | ZLOW, u128::MAX, u128::MAX >> 1, 0x5555_5555_5555_5555_5555_5555_5555_5555, ZLOW, 1 << 64];
    let mut v = Vec::new();
    for a in l { for b in l { let mut w = a.to_le_bytes().to_vec(); w.extend_from_slice(&b.to_le_bytes()); v.push(w); } }
    v
}
fn b2_random(r: &mut Rng) -> Vec<u8> {
    let a = b1_rand(r); let b = match r.below(6) { 0 => 0, 1 => a, 2 => a ^ 1, _ => b1_rand(r) };
    let (a, b) = if r.below(2) == 0 { (a, b) } else { (b, a) };
    let mut w = a.to_le_bytes().to_vec(); w.extend_from_slice(&b.to_le_bytes()); w
}
/// byte strings for the strict decoders (n = canonical length)
fn bvb_specials(n: usize) -> Vec<Vec<u8>> {
    let mut v = Vec::new();
    for k in [0usize, 1, 15, 16, 17, 31, 32, 33, 48] { v.push(vec![0u8; k]); v.push(vec![0xFFu8; k]); }
    for hi in [0x7Fu8, 0x80, 0xFF, 0x00, 0x01] { for lo in [0x7Fu8, 0x80] {
        let mut w = vec![0xA5u8; n]; w[n - 1] = hi; if n == 32 { w[15] = lo; } v.push(w);
    } }
    v
}
fn bvb_random(r: &mut Rng, n: usize) -> Vec<u8> {
    let k = match r.below(6) { 0 => n - 1, 1 => n + 1, 2 => r.below(50) as usize, _ => n };
    let mut b = Vec::new();
    while b.len() < k + 16 { b.extend_from_slice(&b1_rand(r).to_le_bytes()); }
    b.truncate(k);
    if k == n && r.below(2) == 0 { b[n - 1] &= 0x7F; if n == 32 && r.below(4) != 0 { b[15] &= 0x7F; } }
    b
}
fn bvb16_specials() -> Vec<Vec<u8>> { bvb_specials(16) }
fn bvb32_specials() -> Vec<Vec<u8>> { bvb_specials(32) }
fn bvb16_random(r: &mut Rng) -> Vec<u8> { bvb_random(r, 16) }
fn bvb32_random(r: &mut Rng) -> Vec<u8> { bvb_random(r, 32) }

fn reg_b127(v: &mut Vec<Case>) {
    let e1 = Op::Custom { len: Some(16), specials: b1_specials, random: b1_random };
    let vb = Op::Custom { len: None, specials: bvb16_specials, random: bvb16_random };
    macro_rules! case { ($name:expr, $desc:expr, $ops:expr, |$o:ident| $body:expr) => {{
        let ops: Vec<Op> = $ops; let opsc = ops.clone();
        v.push(Case { id: format!("gfb127_{}", $name), describe: $desc, ops, run: Box::new(move |inp: &[u8]| -> Result<(), String> {
            let $o = split(&opsc, inp).ok_or("bad input length")?; $body }) });
    }}; }
    let all = |rs: &[GFb127], want: u128, what: &str| -> Result<(), String> {
        for (i, r) in rs.iter().enumerate() { let g = b1v(r)?; if g != want { return Err(format!("{} (form {}): got {:032x} want {:032x}", what, i, g, want)); } }
        Ok(())
    };
    case!("add", "a+b == a-b == xor of the canonical values; -a == a; all operator forms", vec![e1.clone(), e1.clone()], |o| {
        let (a, b) = (b1(o[0]), b1(o[1])); let want = bnorm(u128of(o[0])) ^ bnorm(u128of(o[1]));
        all(&opv!(a, b, +, +=), want, "add")?; all(&opv!(a, b, -, -=), want, "sub")?;
        all(&[-a, -&a], bnorm(u128of(o[0])), "neg") });
    case!("mul", "a*b == polynomial product mod z^127+z^63+1 (u128 and BigUint references), all operator forms", vec![e1.clone(), e1.clone()], |o| {
        let (a, b) = (b1(o[0]), b1(o[1])); let (x, y) = (bnorm(u128of(o[0])), bnorm(u128of(o[1])));
        let want = bmul(x, y);
        if want != bmul_big(x, y) { return Err("reference implementations disagree".into()); }
        all(&opv!(a, b, *, *=), want, "mul") });
    case!("square", "square(a) == a*a; xsquare(a,n) == a^(2^n) (n mod 140)", vec![e1.clone(), Op::U32], |o| {
        let a = b1(o[0]); let x = bnorm(u128of(o[0])); let n = u32of(o[1]) % 140;
        all(&[a.square()], bsq(x), "square")?;
        all(&[a.xsquare(n)], bxsq(x, n), "xsquare") });
    case!("div", "(a/b)*b == a for b != 0, a/0 == 0; invert(b)*b == 1, invert(0) == 0; all operator forms", vec![e1.clone(), e1.clone()], |o| {
        let (a, b) = (b1(o[0]), b1(o[1])); let (x, y) = (bnorm(u128of(o[0])), bnorm(u128of(o[1])));
        for (i, r) in opv!(a, b, /, /=).iter().enumerate() {
            let g = b1v(r)?; if bmul(g, y) != if y == 0 { 0 } else { x } || (y == 0 && g != 0) { return Err(format!("div (form {}): got {:032x}", i, g)); }
        }
        let g = b1v(&b.invert())?;
        chk(if y == 0 { g == 0 } else { bmul(g, y) == 1 }, || format!("invert: got {:032x}", g)) });
    case!("sqrt", "sqrt(a)^2 == a", vec![e1.clone()], |o| {
        let g = b1v(&b1(o[0]).sqrt())?;
        chk(bsq(g) == bnorm(u128of(o[0])), || format!("sqrt: got {:032x}", g)) });
    case!("trace", "trace(a) == sum of the 127 conjugates a^(2^i) (an element of GF(2)); documented value: coefficient of z^0", vec![e1.clone()], |o| {
        let x = bnorm(u128of(o[0])); let t = btrace(x); let g = b1(o[0]).trace();
        chk(t <= 1 && g as u128 == t && t == x & 1, || format!("trace: got {} reference {:x}", g, t)) });
    case!("halftrace", "halftrace(a) == sum_{i=0..63} a^(4^i); H^2 + H == a + trace(a)", vec![e1.clone()], |o| {
        let x = bnorm(u128of(o[0])); let g = b1v(&b1(o[0]).halftrace())?;
        chk(g == bhalftrace(x) && bsq(g) ^ g == x ^ (x & 1), || format!("halftrace: got {:032x} want {:032x}", g, bhalftrace(x))) });
    case!("smallmul", "mul_sb == *(1+z^27), mul_b == *(1+z^54), div_z*z == a, div_z2*z^2 == a", vec![e1.clone()], |o| {
        let a = b1(o[0]); let x = bnorm(u128of(o[0]));
        all(&[a.mul_sb()], bmul(x, 1 | (1 << 27)), "mul_sb")?; all(&[a.mul_b()], bmul(x, 1 | (1 << 54)), "mul_b")?;
        let g = b1v(&a.div_z())?; chk(bmul(g, 2) == x, || format!("div_z: got {:032x}", g))?;
        let g = b1v(&a.div_z2())?; chk(bmul(g, 4) == x, || format!("div_z2: got {:032x}", g)) });
    case!("bits", "get_bit/set_bit/xor_bit act on coefficient k (0..=126) of the canonical value", vec![e1.clone(), Op::U32, Op::U32], |o| {
        let a = b1(o[0]); let x = bnorm(u128of(o[0])); let k = (u32of(o[1]) % 127) as usize; let val = u32of(o[2]);
        let g = a.get_bit(k); chk(g as u128 == (x >> k) & 1, || format!("get_bit({}): got {}", k, g))?;
        let mut t = a; t.set_bit(k, val); all(&[t], (x & !(1u128 << k)) | (((val & 1) as u128) << k), "set_bit")?;
        let mut t = a; t.xor_bit(k, val); all(&[t], x ^ (((val & 1) as u128) << k), "xor_bit") });
    case!("cond", "set_cond / select / cswap copy or exchange exactly per ctl in {0, 0xFFFFFFFF}", vec![e1.clone(), e1.clone(), Op::Ctl], |o| {
        let (a, b, ctl) = (b1(o[0]), b1(o[1]), u32of(o[2])); let (x, y) = (bnorm(u128of(o[0])), bnorm(u128of(o[1])));
        if ctl != 0 && ctl != 0xFFFFFFFF { return Ok(()); }
        let (wx, wy) = if ctl == 0 { (x, y) } else { (y, x) };
        let mut t = a; t.set_cond(&b, ctl); all(&[t], wx, "set_cond")?;
        all(&[GFb127::select(&a, &b, ctl)], wx, "select")?;
        let (mut s, mut t) = (a, b); GFb127::cswap(&mut s, &mut t, ctl); all(&[s], wx, "cswap.0")?; all(&[t], wy, "cswap.1") });
    case!("iszero", "iszero == 0xFFFFFFFF iff the value is 0 (both representations of zero) else 0", vec![e1.clone()], |o| {
        let r = b1(o[0]).iszero(); let want = if bnorm(u128of(o[0])) == 0 { 0xFFFFFFFFu32 } else { 0 };
        chk(r == want, || format!("iszero: got {:08x} want {:08x}", r, want)) });
    case!("equals", "equals == 0xFFFFFFFF iff the values are equal (every representation) else 0", vec![e1.clone(), e1.clone()], |o| {
        let r = b1(o[0]).equals(b1(o[1])); let want = if bnorm(u128of(o[0])) == bnorm(u128of(o[1])) { 0xFFFFFFFFu32 } else { 0 };
        chk(r == want, || format!("equals: got {:08x} want {:08x}", r, want)) });
    case!("encode", "encode == 16-byte LE canonical value (bit 127 clear)", vec![e1.clone()], |o| {
        let e = b1(o[0]).encode();
        chk(u128::from_le_bytes(e) == bnorm(u128of(o[0])), || format!("encode: got {}", hex(&e))) });
    case!("decode_ct", "decode_ct / set_decode_ct (on a non-zero value) / decode: (value, 0xFFFFFFFF) iff len == 16 and top bit clear, else (zero, 0)", vec![vb.clone()], |o| {
        let buf = o[0]; let valid = buf.len() == 16 && buf[15] & 0x80 == 0;
        let check = |r: &GFb127, cc: u32, what: &str| -> Result<(), String> {
            let e = r.encode();
            if valid { chk(cc == 0xFFFFFFFF && e[..] == buf[..], || format!("{}(valid): cc={:08x} {}", what, cc, hex(&e))) }
            else { chk(cc == 0 && e == [0u8; 16] && r.iszero() == 0xFFFFFFFF, || format!("{}(invalid): cc={:08x} {}", what, cc, hex(&e))) }
        };
        let (r, cc) = GFb127::decode_ct(buf); check(&r, cc, "decode_ct")?;
        let mut r = GFb127::w64le(0x1234, 0x5678); let cc = r.set_decode_ct(buf); check(&r, cc, "set_decode_ct")?;
        match GFb127::decode(buf) { Some(r) => { chk(valid, || "decode accepted invalid input".into())?; check(&r, 0xFFFFFFFF, "decode") } None => chk(!valid, || "decode rejected valid input".into()) } });
}

fn reg_b254(v: &mut Vec<Case>) {
    let e1 = Op::Custom { len: Some(16), specials: b1_specials, random: b1_random };
    let e2 = Op::Custom { len: Some(32), specials: b2_specials, random: b2_random };
    let vb = Op::Custom { len: None, specials: bvb32_specials, random: bvb32_random };
    macro_rules! case { ($name:expr, $desc:expr, $ops:expr, |$o:ident| $body:expr) => {{
        let ops: Vec<Op> = $ops; let opsc = ops.clone();
        v.push(Case { id: format!("gfb254_{}", $name), describe: $desc, ops, run: Box::new(move |inp: &[u8]| -> Result<(), String> {
            let $o = split(&opsc, inp).ok_or("bad input length")?; $body }) });
    }}; }
    let all = |rs: &[GFb254], want: B2, what: &str| -> Result<(), String> {
        for (i, r) in rs.iter().enumerate() { let g = b2v(r)?; if g != want { return Err(format!("{} (form {}): got {:032x}+u*{:032x} want {:032x}+u*{:032x}", what, i, g.0, g.1, want.0, want.1)); } }
        Ok(())
    };
    case!("add", "a+b == a-b == component-wise xor; -a == a; all operator forms", vec![e2.clone(), e2.clone()], |o| {
        let (a, b) = (b2(o[0]), b2(o[1])); let (x, y) = (b2in(o[0]), b2in(o[1])); let want = (x.0 ^ y.0, x.1 ^ y.1);
        all(&opv!(a, b, +, +=), want, "add")?; all(&opv!(a, b, -, -=), want, "sub")?; all(&[-a, -&a], x, "neg") });
    case!("mul", "a*b == product in GF(2^127)[u]/(u^2+u+1), all operator forms", vec![e2.clone(), e2.clone()], |o| {
        let (a, b) = (b2(o[0]), b2(o[1]));
        all(&opv!(a, b, *, *=), b2mul(b2in(o[0]), b2in(o[1])), "mul") });
    case!("mul_b127", "mul_b127(a, c) == a*(c + 0*u); set_mul_b127 idem", vec![e2.clone(), e1.clone()], |o| {
        let (a, cc) = (b2(o[0]), b1(o[1])); let want = b2mul(b2in(o[0]), (bnorm(u128of(o[1])), 0));
        let mut t = a; t.set_mul_b127(&cc);
        all(&[a.mul_b127(&cc), t], want, "mul_b127") });
    case!("smallmul", "mul_u == *u, mul_u1 == *(u+1), mul_sb == *(1+z^27), mul_b == *(1+z^54), div_z*z == a, div_z2*z^2 == a, mul_selfphi == a*a^(2^127)", vec![e2.clone()], |o| {
        let a = b2(o[0]); let x = b2in(o[0]);
        all(&[a.mul_u()], b2mul(x, (0, 1)), "mul_u")?; all(&[a.mul_u1()], b2mul(x, (1, 1)), "mul_u1")?;
        all(&[a.mul_sb()], b2mul(x, (1 | (1 << 27), 0)), "mul_sb")?; all(&[a.mul_b()], b2mul(x, (1 | (1 << 54), 0)), "mul_b")?;
        let g = b2v(&a.div_z())?; chk(b2mul(g, (2, 0)) == x, || format!("div_z: got {:x?}", g))?;
        let g = b2v(&a.div_z2())?; chk(b2mul(g, (4, 0)) == x, || format!("div_z2: got {:x?}", g))?;
        let n = b2mul(x, b2xsq(x, 127)); let g = b1v(&a.mul_selfphi())?;
        chk(n.1 == 0 && g == n.0, || format!("mul_selfphi: got {:032x} want {:x?}", g, n)) });
    case!("square", "square(a) == a*a; xsquare(a,n) == a^(2^n) (n mod 70)", vec![e2.clone(), Op::U32], |o| {
        let a = b2(o[0]); let x = b2in(o[0]); let n = u32of(o[1]) % 70;
        chk(b2sq(x) == b2mul(x, x), || "reference square != reference product".to_string())?;
        all(&[a.square()], b2mul(x, x), "square")?; all(&[a.xsquare(n)], b2xsq(x, n), "xsquare") });
    case!("div", "(a/b)*b == a for b != 0, a/0 == 0; invert(b)*b == 1, invert(0) == 0; all operator forms", vec![e2.clone(), e2.clone()], |o| {
        let (a, b) = (b2(o[0]), b2(o[1])); let (x, y) = (b2in(o[0]), b2in(o[1])); let yz = y == (0, 0);
        for (i, r) in opv!(a, b, /, /=).iter().enumerate() {
            let g = b2v(r)?; if if yz { g != (0, 0) } else { b2mul(g, y) != x } { return Err(format!("div (form {}): got {:x?}", i, g)); }
        }
        let g = b2v(&b.invert())?;
        chk(if yz { g == (0, 0) } else { b2mul(g, y) == (1, 0) }, || format!("invert: got {:x?}", g)) });
    case!("sqrt", "sqrt(a)^2 == a", vec![e2.clone()], |o| {
        let g = b2v(&b2(o[0]).sqrt())?;
        chk(b2mul(g, g) == b2in(o[0]), || format!("sqrt: got {:x?}", g)) });
    case!("trace", "trace(a) == sum of the 254 conjugates a^(2^i) (an element of GF(2)); documented value: trace over GF(2^127) of the u-coefficient", vec![e2.clone()], |o| {
        let x = b2in(o[0]); let t = b2trace(x); let g = b2(o[0]).trace();
        chk(t.1 == 0 && t.0 <= 1 && g as u128 == t.0 && t.0 == x.1 & 1, || format!("trace: got {} reference {:x?}", g, t)) });
    case!("qsolve", "x = qsolve(a): x^2 + x == a + u*trace(a) (hence x^2 + x == a when trace(a) == 0)", vec![e2.clone()], |o| {
        let a = b2in(o[0]); let x = b2v(&b2(o[0]).qsolve())?; let t = b2trace(a).0;
        let l = b2mul(x, x);
        chk((l.0 ^ x.0, l.1 ^ x.1) == (a.0, a.1 ^ t), || format!("qsolve: got {:x?}", x)) });
    case!("cond", "set_cond / select / cswap copy or exchange exactly per ctl in {0, 0xFFFFFFFF}", vec![e2.clone(), e2.clone(), Op::Ctl], |o| {
        let (a, b, ctl) = (b2(o[0]), b2(o[1]), u32of(o[2])); let (x, y) = (b2in(o[0]), b2in(o[1]));
        if ctl != 0 && ctl != 0xFFFFFFFF { return Ok(()); }
        let (wx, wy) = if ctl == 0 { (x, y) } else { (y, x) };
        let mut t = a; t.set_cond(&b, ctl); all(&[t], wx, "set_cond")?;
        all(&[GFb254::select(&a, &b, ctl)], wx, "select")?;
        let (mut s, mut t) = (a, b); GFb254::cswap(&mut s, &mut t, ctl); all(&[s], wx, "cswap.0")?; all(&[t], wy, "cswap.1") });
    case!("iszero", "iszero == 0xFFFFFFFF iff both components are 0 (every representation) else 0", vec![e2.clone()], |o| {
        let r = b2(o[0]).iszero(); let want = if b2in(o[0]) == (0, 0) { 0xFFFFFFFFu32 } else { 0 };
        chk(r == want, || format!("iszero: got {:08x} want {:08x}", r, want)) });
    case!("equals", "equals == 0xFFFFFFFF iff the values are equal (every representation) else 0", vec![e2.clone(), e2.clone()], |o| {
        let r = b2(o[0]).equals(b2(o[1])); let want = if b2in(o[0]) == b2in(o[1]) { 0xFFFFFFFFu32 } else { 0 };
        chk(r == want, || format!("equals: got {:08x} want {:08x}", r, want)) });
    case!("encode", "encode == LE16(x0) || LE16(x1), canonical; w64le / b127 / from_b127 / to_components / constants consistent", vec![e2.clone()], |o| {
        let a = b2(o[0]); let x = b2in(o[0]);
        let (c0, c1) = (b1(&o[0][..16]), b1(&o[0][16..]));
        let (t0, t1) = a.to_components();
        chk((b1v(&t0)?, b1v(&t1)?) == x, || "to_components".to_string())?;
        all(&[a, GFb254::b127(c0, c1), GFb254::from_b127(c0, c1)], x, "constructors")?;
        all(&[GFb254::ZERO], (0, 0), "ZERO")?; all(&[GFb254::ONE], (1, 0), "ONE")?; all(&[GFb254::U], (0, 1), "U") });
    case!("decode_ct", "decode_ct / set_decode_ct (on a non-zero value) / decode: (value, 0xFFFFFFFF) iff len == 32 and both top bits clear, else (zero, 0)", vec![vb.clone()], |o| {
        let buf = o[0]; let valid = buf.len() == 32 && (buf[15] | buf[31]) & 0x80 == 0;
        let check = |r: &GFb254, cc: u32, what: &str| -> Result<(), String> {
            let e = r.encode();
            if valid { chk(cc == 0xFFFFFFFF && e[..] == buf[..], || format!("{}(valid): cc={:08x} {}", what, cc, hex(&e))) }
            else { chk(cc == 0 && e == [0u8; 32] && r.iszero() == 0xFFFFFFFF, || format!("{}(invalid): cc={:08x} {}", what, cc, hex(&e))) }
        };
        let (r, cc) = GFb254::decode_ct(buf); check(&r, cc, "decode_ct")?;
        let mut r = GFb254::w64le(0x1234, 0x5678, 0x9ABC, 0xDEF0); let cc = r.set_decode_ct(buf); check(&r, cc, "set_decode_ct")?;
        match GFb254::decode(buf) { Some(r) => { chk(valid, || "decode accepted invalid input".into())?; check(&r, 0xFFFFFFFF, "decode") } None => chk(!valid, || "decode rejected valid input".into()) } });
    case!("lookup", "lookup16_x2/lookup8_x2/lookup4_x2: entries 2j, 2j+1 for j in range, zeros otherwise (every u32 j); lookup4_x2_nocheck for j < 4", vec![Op::Raw(32 * 32), Op::U32], |o| {
        let mut tab = [GFb254::ZERO; 32]; let mut tv = [(0u128, 0u128); 32];
        for i in 0..32 { tab[i] = b2(&o[0][32 * i..]); tv[i] = b2in(&o[0][32 * i..]); }
        let j = u32of(o[1]);
        let t16 = tab; let t8: [GFb254; 16] = tab[..16].try_into().unwrap(); let t4: [GFb254; 8] = tab[..8].try_into().unwrap();
        let want = |n: u32, k: usize| if j < n { tv[2 * j as usize + k] } else { (0, 0) };
        let r = GFb254::lookup16_x2(&t16, j); for k in 0..2 { all(&[r[k]], want(16, k), "lookup16_x2")?; }
        let r = GFb254::lookup8_x2(&t8, j); for k in 0..2 { all(&[r[k]], want(8, k), "lookup8_x2")?; }
        let r = GFb254::lookup4_x2(&t4, j); for k in 0..2 { all(&[r[k]], want(4, k), "lookup4_x2")?; }
        if j < 4 { let r = GFb254::lookup4_x2_nocheck(&t4, j); for k in 0..2 { all(&[r[k]], want(4, k), "lookup4_x2_nocheck")?; } }
        Ok(()) });
}

pub fn register(v: &mut Vec<Case>) {
    reg_pf::<crrl::field::GFp256>(v, "modint", "gfp256");
    reg_pf::<crrl::ed25519::Scalar>(v, "modint", "ed25519scalar");
    reg_pf::<crrl::p256::Scalar>(v, "modint", "p256scalar");
    reg_pf::<crrl::secp256k1::Scalar>(v, "modint", "secp256k1scalar");
    reg_pf::<crrl::jq255e::Scalar>(v, "modint", "jq255escalar");
    reg_pf::<crrl::jq255s::Scalar>(v, "modint", "jq255sscalar");
    reg_pf::<crrl::gls254::Scalar>(v, "modint", "gls254scalar");
    reg_pf::<GFsecp256k1>(v, "gfsecp256k1", "");
    reg_pf::<GF448>(v, "gf448", "");
    reg_pf::<Ed448Scalar>(v, "gfgen", "ed448scalar");
    reg_b127(v);
    reg_b254(v);
    // the `encode()` alias that each concrete 256-bit type defines on top of the generic ModInt256
    macro_rules! enc_alias { ($t:ty, $tag:expr) => {{
        let ops = vec![Op::Custom { len: Some(32), specials: el_specials::<$t>, random: el_random::<$t> }];
        let opsc = ops.clone(); let cx = ctx::<$t>();
        v.push(Case { id: format!("modint_encode_alias@{}", $tag), describe: "encode() == encode32() == canonical LE32 encoding of the value", ops,
            run: Box::new(move |inp: &[u8]| -> Result<(), String> {
                let o = split(&opsc, inp).ok_or("bad input length")?;
                let a = <$t as PF>::mk(o[0]); let e = a.encode();
                chk(e == a.encode32() && e.to_vec() == int_to_le(&in_val::<$t>(&cx, o[0]), 32), || format!("encode: got {}", hex(&e))) }) });
    }}; }
    enc_alias!(crrl::field::GFp256, "gfp256");
    enc_alias!(crrl::ed25519::Scalar, "ed25519scalar");
    enc_alias!(crrl::p256::Scalar, "p256scalar");
    enc_alias!(crrl::secp256k1::Scalar, "secp256k1scalar");
    enc_alias!(crrl::jq255e::Scalar, "jq255escalar");
    enc_alias!(crrl::jq255s::Scalar, "jq255sscalar");
    enc_alias!(crrl::gls254::Scalar, "gls254scalar");
}
