"""Generator (one-off, output pasted into contracts/*.vrs) of modular proof
hints for schoolbook carry-chain multiplications: per carry chain, ghost
captures plus ONE call to an isolated integer lemma (lem_chain::lemma_chain7)."""
import re, sys
sys.path.insert(0, '/verif')
from tools.gen_chain_hints import lets_of, limb_index, W


def gen(lets, stop_pred):
    out = []
    umk = -1
    cur = None
    chains = []
    chain = None
    def emit(name, occ, text):
        out.append("//@@at let %s %d\n%s" % (name, occ, text))
    for idx, (stmt, names, occ) in enumerate(lets):
        if stop_pred(stmt):
            break
        m = re.match(r'^let \((\w+), (\w+)\) = umull\((\w+), (\w+)\);$', stmt)
        if m:
            lo, hi, x, y = m.groups()
            if limb_index(lo) is not None:
                continue
            umk += 1
            cur = dict(lo="lo_%d" % umk, hi="hi_%d" % umk, x=x, y=y, lov=lo, hiv=hi)
            txt = "let ghost (lo_%d, hi_%d) = (%s as int, %s as int);" % (umk, umk, lo, hi)
            nxt = lets[idx + 1][0] if idx + 1 < len(lets) else ""
            if re.match(r'^let \(e\d, \w+\) = addcarry_u64\(.*, 0\);$', nxt):
                g = len(chains) + 1
                txt += "\nlet ghost (%s) = (%s);" % (", ".join("s%d_%d" % (g, j) for j in range(8)), ", ".join("e%d as int" % j for j in range(8)))
            emit(hi, occ[hi], txt)
            continue
        m = re.match(r'^let \((\w+), (\w+)\) = addcarry_u64\((\w+), (.+), (0|cc)\);$', stmt)
        if not m:
            continue
        dst, cout, srcl, addend, cin = m.groups()
        i = limb_index(dst)
        if i is None:
            return out, chains, stmt
        if cin == '0':
            chain = dict(g=len(chains) + 1, steps={}, prods=[], start=i)
            chains.append(chain)
        g = chain['g']
        if cur and addend == cur['lov']:
            a = cur['lo']
            chain['prods'].append((cur['x'], cur['y'], i))
        elif cur and addend == cur['hiv']:
            a = cur['hi']
        elif addend == '0':
            a = "0"
        else:
            a = "(%s) as int" % addend
        chain['steps'][i] = a
        if cout != '_':
            emit(dst, occ[dst], "let ghost (n%d_%d, c%d_%d) = (%s as int, %s as int);" % (g, i, g, i, dst, cout))
        else:
            # end of chain: build lemma call
            S = lambda j: "s%d_%d" % (g, j)
            args_s = ", ".join(S(j) for j in range(1, 8))
            args_a = ", ".join(chain['steps'].get(j, "0") for j in range(1, 8))
            args_n = ", ".join(("n%d_%d" % (g, j)) if (j in chain['steps'] and j != i) else (("%s as int" % dst) if j == i else S(j)) for j in range(1, 8))
            args_c = ", ".join(("c%d_%d" % (g, j)) if (j in chain['steps'] and j != i) else "0" for j in range(1, 7))
            last_sum = "%s + %s + c%d_%d" % (S(i), chain['steps'][i], g, i - 1)
            prods = " + ".join("pr(%s, %s) * %s" % (x, y, W[pos]) for (x, y, pos) in chain['prods'])
            ssum = " + ".join(["%s" % S(0)] + ["%s * %s" % (S(j), W[j]) for j in range(1, 8)])
            asum = " + ".join("%s * %s" % (chain['steps'][j], W[j]) for j in sorted(chain['steps']) if chain['steps'][j] != "0")
            txt = ("let ghost t%d = t%d + %s;\n" % (g, g - 1, prods) +
                   "proof {\n"
                   "    let r7 = if %s as int == %s { 0int } else { 1int };\n" % (dst, last_sum) +
                   "    assert(%s == t%d);\n" % (ssum, g - 1) +
                   "    assert(%s == %s);\n" % (asum, prods) +
                   "    assert(t%d <= tfull);\n" % g +
                   "    lem_chain::lemma_chain7(%s, %s, %s, %s, r7);\n" % (args_s, args_a, args_n, args_c) +
                   "    assert(v8(e0, e1, e2, e3, e4, e5, e6, e7) == t%d);\n" % g +
                   "}")
            emit(dst, occ[dst], txt)
    return out, chains, None


if __name__ == "__main__":
    lets = lets_of("src/backend/w64/gf255_m64.rs", "impl<const MQ: u64> GF255<MQ>", "set_mul")
    out, chains, stop = gen(lets, lambda s: "2 * MQ" in s)
    print("\n".join(out))
    print("// STOPPED AT:", stop)
