"""Run Kani harnesses of /verif/harness against the real crate in /repo."""
import os, re, subprocess, time, json, hashlib
from . import rsx, unitgen

ROOT = os.path.dirname(os.path.dirname(os.path.abspath(__file__)))
BUILD = os.path.join(ROOT, ".build")
HARNESS = os.path.join(ROOT, "harness")
GEN = os.path.join(BUILD, "gen")
KANI_TIMEOUT = int(os.environ.get("VERIF_KANI_TIMEOUT", "3600"))

# harness -> case id whose input layout equals the order of kani::any() bytes
HARNESS_CASE = {}
for _f in ("gf25519", "gf255e", "gf255s"):
    for _h, _c in (("k_add", "gf255_add"), ("k_sub", "gf255_sub"), ("k_neg", "gf255_neg"), ("k_half", "gf255_half"),
                   ("k_normalized_encode", "gf255_encode"), ("k_decode_ct32", "gf255_decode_ct")):
        HARNESS_CASE["gf255::%s::%s" % (_f, _h)] = "%s@%s" % (_c, _f)
CANARY = "k_canary_must_fail"


def setup():
    """Generate the files harnesses include!() from /repo's current tree."""
    os.makedirs(GEN, exist_ok=True)
    unitgen._src_cache.clear()
    src = unitgen.read_src("src/backend/w64/mod.rs")
    cfg = unitgen.get_cfg("portable")
    out = "// generated on every run: portable arms extracted from /repo/src/backend/w64/mod.rs\n"
    for name in ("addcarry_u64", "subborrow_u64"):
        k = 0
        while True:
            s, t = rsx.find_fn(src, name, k)
            frag = src[s:t]
            if rsx.resolve_cfg(frag, cfg).strip():
                break
            k += 1
        txt, _ = rsx.normalise_fn(frag, cfg, rename="portable_" + name)
        out += txt + "\n"
    path = os.path.join(GEN, "portable_arms.rs")
    old = open(path).read() if os.path.exists(path) else None
    if old != out:
        with open(path, "w") as f:
            f.write(out)
    lock = os.path.join(HARNESS, "Cargo.lock")
    if not os.path.exists(lock):
        subprocess.run(["cp", "/repo/Cargo.lock", lock])


def _env():
    e = dict(os.environ)
    e["RUSTFLAGS"] = "--cfg pornin_crrl_verif"
    e["CARGO_NET_OFFLINE"] = "true"
    e["VH_GEN_DIR"] = GEN
    return e


def _tree_hash():
    h = hashlib.sha256()
    for base in ("/repo/src", os.path.join(HARNESS, "src")):
        for dp, dn, fn in sorted(os.walk(base)):
            dn.sort()
            for f in sorted(fn):
                if f.endswith(".rs"):
                    p = os.path.join(dp, f)
                    h.update(p.encode())
                    h.update(open(p, "rb").read())
    h.update(open("/repo/Cargo.toml", "rb").read())
    return h.hexdigest()


def _hn(full):
    return full[len("kani_harnesses::"):] if full.startswith("kani_harnesses::") else full


def _parse(out, harnesses):
    res = {}
    thread_h = {}
    cur = None
    blocks = {}
    for ln in out.split('\n'):
        m = re.match(r'^Thread (\d+): Checking harness (\S+?)\.\.\.', ln)
        if m:
            thread_h[m.group(1)] = _hn(m.group(2))
            cur = None
            continue
        m = re.match(r'^Thread (\d+):\s*$', ln)
        if m:
            cur = thread_h.get(m.group(1))
            blocks.setdefault(cur, [])
            continue
        m = re.match(r'^Checking harness (\S+?)\.\.\.', ln)
        if m:
            cur = _hn(m.group(1))
            blocks.setdefault(cur, [])
            continue
        if ln.startswith("Manual Harness Summary"):
            cur = None
        if cur is not None:
            blocks[cur].append(ln)
    for h in harnesses:
        b = "\n".join(blocks.get(h, []))
        r = dict(harness=h, status="undecided", reason="no result block in Kani output", checks=0, failed_checks=[], log_tail=b[-1500:])
        m = re.search(r'\*\* (\d+) of (\d+) failed', b)
        if m:
            r["checks"] = int(m.group(2))
            r["n_failed"] = int(m.group(1))
        mt = re.search(r'Verification Time: ([0-9.]+)s', b)
        if mt:
            r["time_s"] = float(mt.group(1))
        if "VERIFICATION:- SUCCESSFUL" in b:
            r["status"] = "success"
            r["reason"] = ""
        elif "VERIFICATION:- FAILED" in b:
            fc = re.findall(r'Failed Checks: (.*)', b)
            r["failed_checks"] = fc
            # unwinding / unsupported constructs are tool limits, not violations
            if fc and all(("unwinding assertion" in x or "not currently supported" in x or "unsupported" in x.lower()) for x in fc):
                r["status"] = "undecided"
                r["reason"] = "tool limit: " + "; ".join(fc)[:300]
            else:
                r["status"] = "failed"
                r["reason"] = "; ".join(fc)[:500]
        elif "CBMC timed out" in b or "TIMEOUT" in b:
            r["reason"] = "cbmc timeout"
        res[h] = r
    return res


def run_many(harnesses, jobs=6, use_cache=True):
    setup()
    if not harnesses:
        return {}
    cdir = os.path.join(BUILD, "cache")
    os.makedirs(cdir, exist_ok=True)
    th = _tree_hash()
    res = {}
    todo = []
    for h in harnesses:
        cp = os.path.join(cdir, "kani-" + hashlib.sha256((th + h).encode()).hexdigest() + ".json")
        if use_cache and not os.environ.get("VERIF_NO_CACHE") and os.path.exists(cp):
            res[h] = json.load(open(cp))
            res[h]["cached"] = True
        else:
            todo.append(h)
    if todo:
        todo = todo + [CANARY]
        args = ["cargo", "kani", "-Z", "stubbing", "-Z", "function-contracts", "--output-format", "terse", "-j", str(jobs)]
        for h in todo:
            args += ["--harness", h]
        t0 = time.time()
        o_, e_, to_ = _run_group(args, KANI_TIMEOUT)
        out = o_ + "\n" + e_ + ("\nTIMEOUT" if to_ else "")
        got = _parse(out, todo)
        if "error: could not compile" in out or "error[E" in out:
            for h in todo:
                got[h] = dict(harness=h, status="undecided", reason="harness crate does not compile under kani: " +
                              "\n".join([l for l in out.split('\n') if l.startswith("error")][:5]), checks=0)
        canary = got.pop(CANARY, None)
        todo = [h for h in todo if h != CANARY]
        if not canary or canary["status"] != "failed":
            for h in todo:
                if got[h]["status"] == "success":
                    got[h] = dict(harness=h, status="undecided", reason="vacuity guard: the must-fail canary harness did not fail", checks=0)
        for h in todo:
            r = got[h]
            r["cmd"] = "RUSTFLAGS='--cfg pornin_crrl_verif' cargo kani -Z stubbing -Z function-contracts --harness " + h
            r["case"] = HARNESS_CASE.get(h)
            if r["status"] == "failed" and r.get("case"):
                r["cex_hex"] = counterexample(h)
            if r["status"] in ("success", "failed"):
                cp = os.path.join(cdir, "kani-" + hashlib.sha256((th + h).encode()).hexdigest() + ".json")
                json.dump(r, open(cp, "w"))
            res[h] = r
    return res


def _run_group(args, timeout):
    """Run in its own process group with output to files; on timeout the whole group (cargo, kani-driver, cbmc)
    is killed so that nothing keeps running after the check has returned."""
    import tempfile
    os.makedirs(os.path.join(BUILD, "run"), exist_ok=True)
    fo = tempfile.TemporaryFile("w+", dir=os.path.join(BUILD, "run"))
    fe = tempfile.TemporaryFile("w+", dir=os.path.join(BUILD, "run"))
    pr = subprocess.Popen(args, cwd=HARNESS, env=_env(), stdout=fo, stderr=fe, text=True, start_new_session=True)
    timed_out = False
    try:
        pr.wait(timeout=timeout)
    except subprocess.TimeoutExpired:
        timed_out = True
        try:
            os.killpg(pr.pid, 9)
        except Exception:
            pr.kill()
        pr.wait()
    fo.seek(0); fe.seek(0)
    o, e = fo.read(), fe.read()
    fo.close(); fe.close()
    return o, e, timed_out


def counterexample(h):
    """Ask Kani for a concrete counterexample (bytes of every kani::any() in order)."""
    args = ["cargo", "kani", "-Z", "stubbing", "-Z", "function-contracts", "-Z", "concrete-playback",
            "--concrete-playback=print", "--harness", h]
    out, _e, to_ = _run_group(args, KANI_TIMEOUT)
    if to_:
        return None
    m = re.search(r'let concrete_vals: Vec<Vec<u8>> = vec!\[(.*?)\];', out, re.S)
    if not m:
        return None
    body = m.group(1)
    bs = bytearray()
    for v in re.findall(r'vec!\[([0-9,\s]*)\]', body):
        for x in v.split(','):
            x = x.strip()
            if x:
                bs.append(int(x))
    return bs.hex()


if __name__ == "__main__":
    import sys
    r = run_many(sys.argv[1:], use_cache=False)
    for h, x in r.items():
        print(h, x["status"], x.get("checks"), x.get("time_s"), x.get("reason"), x.get("cex_hex"))
