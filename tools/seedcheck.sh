#!/bin/bash
# usage: seedcheck.sh <seeded dir>   (confirms: applies, suite passes, demo fails with / passes without)
# works in the scratch worktree /tmp/seedwt (created from /repo HEAD by the caller)
set -u
D=$1; W=${SEEDWT:-/tmp/seedwt}
cd $W && git checkout -q -- . && rm -f tests/demo.rs
export CARGO_TARGET_DIR=$W/target CARGO_NET_OFFLINE=true
if ! git apply --check $D/patch.diff 2>/dev/null; then echo "RESULT $D apply=FAIL"; exit 0; fi
git apply $D/patch.diff
suite=$(cargo test --offline --workspace 2>&1 | grep -E "^test result" | head -1)
mkdir -p tests; cp $D/demo.rs tests/demo.rs
with=$(cargo test --offline --test demo 2>&1 | grep -E "^test result" | head -1)
git checkout -q -- .
without=$(cargo test --offline --test demo 2>&1 | grep -E "^test result" | head -1)
rm -f tests/demo.rs
echo "RESULT $D apply=ok | suite: $suite | demo with: $with | demo without: $without"
