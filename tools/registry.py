"""Which units / harnesses / cases decide which property.

verus:   list of (unit, rlimit or None, tier) — tier 'quick' units run in both tiers
kani:    list of (harness, tier, kind) kind in {'full-domain','bounded:<bound>'}
cases:   extra executable-postcondition cases swept as a labelled stand-in
         (cases attached to contracted functions through `case=` are found
         automatically)
"""

def _gf255_k(names, quick_fields=("gf25519",), all_fields=("gf25519", "gf255e", "gf255s")):
    out = []
    for f in all_fields:
        for n in names:
            out.append(("gf255::%s::%s" % (f, n), "quick" if f in quick_fields else "thorough", "full-domain"))
    return out


# Z3's newer linear-arithmetic core; the default (solver=2) needs minutes on the 512-bit carry-chain equalities
ARITH6 = ("--smt-option", "smt.arith.solver=6")

PROPS = {
    "C01": dict(
        title="Field arithmetic is exact for every element representation",
        verus=[("w64_prim", None, "quick"), ("gf255_m64_lin", None, "quick"), ("gf255_m64_shift", None, "quick"),
               ("gf255_m64_mul", 300, "quick", ARITH6)],
        kani=_gf255_k(["k_add", "k_sub", "k_neg", "k_half"]),
        cases=["gf255_mul", "gf255_square", "gf255_xsquare", "gf255_mul_small"],
    ),
    "C05": dict(
        title="Field and scalar encodings are canonical; decoding is strict",
        verus=[("gf255_m64_lin", None, "quick")],
        kani=_gf255_k(["k_normalized_encode", "k_decode_ct32", "k_decode_ct_badlen"]),
        cases=["gf255_encode", "gf255_decode_ct", "gf255_decode_opt", "gf255_decode_reduce", "gf255_roundtrip"],
    ),
    "C20": dict(
        title="Masked selection primitives select exactly as their control word says",
        verus=[("gf255_m64_lin", None, "quick"), ("gf255_m64_lookup", None, "quick")],
        kani=_gf255_k(["k_iszero_equals", "k_cond_select_cswap"]) + _gf255_k(["k_lookup16", "k_lookup16_x4"], quick_fields=()),
        cases=["gf255_equals"],
    ),
    "C10": dict(
        title="Variable-time fast paths agree with the constant-time reference",
        verus=[("recode_naf", None, "quick")],
        kani=[],
        cases=["jq255e_recode_u128_naf", "jq255s_recode_u128_naf", "ed25519_recode_u128_naf", "secp256k1_recode_u128_naf",
               "p256_recode_u129_naf", "ed25519_recode_scalar_naf", "jq255e_recode_scalar_naf", "jq255s_recode_scalar_naf",
               "secp256k1_recode_scalar_naf", "p256_recode_scalar_naf", "ed448_recode_scalar_naf", "ed448_recode_halfwidth_naf"],
    ),
    "C16": dict(
        title="LMS never reuses a one-time key and accepts exactly its own signatures",
        verus=[],
        kani=[("lms::sha256_m32::k_sign_state_machine", "quick", "full-domain"), ("lms::sha256_m32::k_verify_total", "quick", "full-domain")]
             + [("lms::%s::%s" % (ps, hn), "thorough", "full-domain") for ps in ("sha256_m24", "shake_m24", "shake_m32") for hn in ("k_sign_state_machine", "k_verify_total")],
        cases=[],
        explanation="One call of sign() is proved against its contract for every key state (all 2^32 counter values, symbolic I/SEED/tree): below 2^h it returns a signature carrying the old index and the right authentication path and leaves counter = old+1 with I, SEED and the tree unchanged; at or above 2^h it returns None and changes nothing. The whole-history statement (strictly increasing indices, each at most once, exhaustion) is the induction over calls on that contract. verify(): false for every wrong length, out-of-range index, and no panic. The one-time signature (ots_sign/ots_verify) and the hash functions are havoc stubs in these harnesses.",
        assumptions=["ots_sign / ots_verify / Hm replaced by havoc stubs (kani::stub): the Winternitz chain arithmetic and 'own signatures verify' are not decided by the deductive check (see stand-in sweep cases lms_*)",
                     "'rejects any other message' is a collision-resistance statement about the hash, not a theorem of the code: not claimed"],
    ),
    "C17": dict(
        title="Hash functions match their standards for every input and call pattern",
        verus=[("sha2_update", None, "quick")],
        kani=[],
        cases=[],
        explanation="SHA-2 family: update() of both block sizes is proved (Verus, loop invariant, any number of calls, any chunk lengths) to extend the absorbed byte string: view(final) == view(old) ++ src, where view relates (h, buf, ctr) to the message through an abstract compression function. Padding/finalisation (to_be_bytes has no Verus spec in this toolchain), the compression functions, SHA-3 and BLAKE2s are covered only by the labelled stand-in sweep against from-the-standard reference implementations.",
        assumptions=["process() (the compression function) is used through an assumed contract: final.h == compress(old.h, old.buf), buf and ctr unchanged",
                     "usize is 64 bits (global size_of usize == 8)"],
    ),
}

NOT_APPLICABLE = {
    "C02": "Constant-time behaviour of the optimized machine code (branch and address traces) is not a property of values computed by the source program; no Verus/Kani contract can state it and neither tool sees the emitted code.",
}
