"""Which units / harnesses / cases decide which property.

verus:   list of (unit, rlimit or None, tier[, extra verus args]) - tier 'quick' units run in both tiers
kani:    list of (harness, tier, kind) kind in {'full-domain','bounded:<bound>'}
cases:   glob patterns over the base ids of executable postconditions (harness/src/cases_*.rs)
         swept as a labelled stand-in; '!pat' removes. Cases attached to contracted functions
         through `case=` in the contract templates are added automatically.
"""


def _gf255_k(names, quick_fields=("gf25519",), all_fields=("gf25519", "gf255e", "gf255s")):
    out = []
    for f in all_fields:
        for n in names:
            out.append(("gf255::%s::%s" % (f, n), "quick" if f in quick_fields else "thorough", "full-domain"))
    return out


# Z3's newer linear-arithmetic core; the default (solver=2) needs minutes on the 512-bit carry-chain equalities
ARITH6 = ("--smt-option", "smt.arith.solver=6")
# Z3 run time on these units is heavy-tailed in the random seed (20 s .. > 5 min): run several seeds, first proof wins
PORTFOLIO = (0, 1, 2, 3)

FIELDS = ["gf255", "modint", "gf448", "gfsecp256k1", "gfgen", "gfb127", "gfb254"]
CURVES = ["ed25519", "ed448", "p256", "secp256k1", "jq255e", "jq255s", "gls254", "ristretto255", "decaf448"]


def _f(ops):
    return ["%s_%s" % (f, o) for f in FIELDS for o in ops]


def _c(ops):
    return ["%s_%s" % (c, o) for c in CURVES for o in ops]


PROPS = {
    "C01": dict(
        title="Field arithmetic is exact for every element representation",
        verus=[("w64_prim", None, "quick"), ("gf255_m64_lin", None, "quick"), ("gf255_m64_shift", None, "quick"),
               ("gf255_m64_mul", 120, "quick", ARITH6, 300, PORTFOLIO), ("gf255_m64_ops", None, "quick"), ("modint_lin", 60, "quick"),
               ("modint_m0i", 60, "quick"), ("gfsecp256k1_mul", 120, "quick", ARITH6, 300, PORTFOLIO),
               ("modint_monty", 120, "quick", (), 400), ("modint_mul_p1", 120, "quick", (), 400), ("modint_mul_p2", 120, "quick", (), 400),
               ("modint_mul_p3", 120, "quick", (), 400),
               ("modint_sq_p1", 400, "quick", ARITH6, 600), ("modint_sq_p2", 400, "quick", ARITH6, 600), ("modint_half", 60, "quick"), ("gf448_lin", 100, "quick"), ("gfsecp256k1_lin", 100, "quick")],
        kani=_gf255_k(["k_add", "k_sub", "k_neg", "k_half"]),
        cases=_f(["add", "sub", "neg", "half", "mul", "mul2", "mul4", "mul8", "mul16", "mul32", "mulk", "mul_small", "smallmul", "mul_b127",
                  "square", "xsquare", "bits"]),
        level_text="GF255<MQ> (64-bit limbs; instantiated as GF25519, GF255e, GF255s): add, sub, neg, half, mul2..mul32, the full 4x4-limb multiplication and the dedicated squaring with their two-step pseudo-Mersenne reduction, repeated squaring (loop invariant, any n) and every +,-,* operator impl are proved by Verus against fe(result) == op(fe(args)) mod 2^255-MQ for every limb pattern and every admissible MQ; add/sub/neg/half additionally by Kani on the full 2^512 input domain. ModInt256<M0..M3> (all scalar fields and the P-256 field; any odd modulus with a non-zero top limb): set_add (both code paths), set_sub, set_neg, set_mul2/3/4/8/16/32 proved by Verus on the internal (Montgomery) representation with the invariant value < m. make_m0i (the -1/m0 mod 2^64 Newton iteration behind every Montgomery reduction) proved for every odd m0. GFsecp256k1::set_mul and set_square (product and the two-fold 2^32+977 reduction), set_add, set_sub, set_neg, set_half, set_normalized, the - operator proved. GF448: set_add, set_sub, set_neg proved (fe(result) == fe(a) op fe(b) mod 2^448-2^224-1 for every 448-bit limb pattern; the dropped final carries / borrows are shown to be zero). ModInt256 Montgomery reduction (set_montyred) Montgomery multiplication (set_mul, all three code paths) and squaring (set_square, both code paths) - and halving (set_half: 2*r == a or a + m, r < m, given HMP1 == (m+1)/2) - multiplication and squaring as one unit per code path, splitting the contract by the path condition on the modulus; the other branches are proved unreachable in each: result < m and result*2^256 == a*b (mod m), for every modulus, given the M0I property that make_m0i is proved to establish. The other field types and backends: executable-postcondition stand-in only.",
        assumptions=["ModInt256::M0I is an opaque constant in the Montgomery units; its defining property (M0*M0I == -1 mod 2^64) is a precondition of set_montyred/set_mul and is what make_m0i(M0), which the source assigns to M0I, is proved to return"],
        level_note="Trusted: Verus+Z3, Kani/CBMC, the x86 add-with-carry intrinsics (assumed to behave as the portable arms that are proved), extraction transformations listed in evidence. Not reached by any contract: ModInt256, GF448, GFsecp256k1, gfgen, binary fields, 32-bit/51-bit/clmul backends.",
        not_reached=["ModInt256 set_montylin / set_div (stand-in only); make_hmp1 is a declared contract (its nested helper fn cannot be given a contract by the weaver)", "GF448", "GFsecp256k1", "define_gfgen! (ed448 scalar)", "GFb127/GFb254",
                     "GF255 set_mul_small, set_lin, set_lindiv31abs (stand-in only)", "gf255_m51, w32 backend, gfb254_x86clmul/arm64pmull"],
    ),
    "C03": dict(
        title="Point addition, doubling and negation implement the complete group law",
        verus=[("ed25519_law", None, "quick"), ("jq255e_law", None, "quick"), ("jq255s_law", None, "quick"), ("ed448_law", None, "quick"), ("gf255_m64_ops", None, "quick"), ("gf255_m64_lin", None, "quick"),
               ("gf255_m64_shift", None, "quick"), ("gf255_m64_mul", 120, "quick", ARITH6, 300, PORTFOLIO)],
        kani=[],
        level_text="edwards448: set_add, set_add_affine, set_double, set_xdouble, set_neg, set_condneg compute exactly the RFC 8032 section 5.2.4 projective formulas (d = -39081), equals / isneutral are the cross-multiplied comparisons - on declared GF448 operation contracts. jq255e and jq255s: set_add, set_add_affine_extended, set_sub_affine_extended, set_neg, set_condneg, set_double, set_xdouble (loop invariant, any n), isneutral and equals are proved by Verus to compute, as field values, exactly the formulas of extra/jq255-formulas.txt (general addition, addition with affine, negation, doubling to Jacobian, extra doublings in Jacobian coordinates incl. the halved jq255s variant, conversion XWJ -> EZUT, neutral and equality tests) with the curve constants ap, bp substituted; on GF255 operator contracts discharged in the same run. edwards25519: set_add, set_sub, set_double, set_xdouble (loop invariant, any n), set_neg, set_condneg and the &Point negation are proved by Verus to compute, as field values, exactly the RFC 8032 section 5.1.4 addition / doubling formulas (constant 2d checked by evaluation), on top of the GF255 operator contracts that are themselves discharged in the same run. That those formulas are the complete group law for every pair of curve points (Hisil-Wong-Carter-Dawson, d non-square) is the mathematical lemma this check assumes. Every other curve and set_mul_small: stand-in only.",
        level_note="Assumed (not machine-checked): completeness of the unified extended twisted-Edwards formulas. Not reached: ed448, p256, secp256k1, gls254, ristretto255, decaf448 formulas. For jq255e/s the formulas of the reference document are likewise assumed to implement the group law on the Jacobi quartic.",
        assumptions=["the RFC 8032 5.1.4 formulas implement the (complete) twisted-Edwards group law on valid extended coordinates: assumed lemma, sanity-checked by the stand-in cases against an affine big-integer reference"],
        not_reached=["set_mul_small, set_add_duif/set_sub_duif", "p256, secp256k1, gls254, ristretto255, decaf448 formulas"],
        cases=_c(["add_affine_ref", "add_relations", "double_ref", "double_relations", "assoc", "mul_small"]) + ["p256_affine_api", "secp256k1_affine_api"],
    ),
    "C04": dict(
        title="Scalar multiplication returns [n]P for every scalar and point",
        verus=[("recode_w5", None, "quick"), ("recode_w5_52", 100, "quick"), ("ed25519_law", None, "quick"), ("gf255_m64_ops", None, "quick"), ("gf255_m64_lin", None, "quick")],
        kani=[("recode::k_jq255e_recode_u128", "thorough", "full-domain"), ("recode::k_secp256k1_recode_u128", "thorough", "full-domain")],
        cases=_c(["mul_vs_dbladd", "mulgen_vs_dbladd", "mul_homomorphism", "recode_scalar", "recode_u128"]) + ["gls254_zeta_split", "jq255e_split_mu", "secp256k1_split_theta"],
        level_text="P-256, secp256k1 and jq255s: recode_scalar (52 digits in -15..16, top digit in 0..2, sum sd[j]*32^j == the scalar, by loop induction, including the last digit that sees no fresh byte). edwards25519: the 5-bit signed-digit recoding of a scalar (51 digits in -15..16, top digit >= 0, sum sd[j]*32^j == the scalar's integer value, by loop induction over the byte buffer) and the constant-time window lookup with sign handling (exact entry |k|, neutral for 0, negated for k < 0, for every k in -16..16) are proved by Verus, on top of the discharged GF255 contracts; the point additions/doublings the loop is made of are C03. The windowed loops themselves (set_mul, set_mulgen), precomputed tables, the other curves and the endomorphism splits: stand-in only (double-and-add references, homomorphism relations). recode_u128 (jq255e, secp256k1): Kani full domain in the thorough tier.",
        level_note="Assumed contract: Scalar::encode returns the 32-byte little-endian canonical value below 2^253 (C05, stand-in for ModInt256). Loops of set_mul/set_mulgen and PRECOMP tables are not under contract.",
        assumptions=["ed25519 Scalar::encode: le_value(result) == scalar value < 2^253 (assumed contract; ModInt256 codecs are stand-in only)"],
        not_reached=["set_mul / set_mulgen loops, PRECOMP_* tables", "recode_scalar of ed448", "split_mu / split_theta / mul_divr_rounded"],
    ),
    "C05": dict(
        title="Field and scalar encodings are canonical; decoding is strict",
        verus=[("gf255_m64_lin", None, "quick"), ("gfsecp256k1_lin", 100, "quick"), ("gfsecp256k1_codec", 100, "quick"), ("modint_codec", 60, "quick"), ("modint_monty", 120, "quick", (), 400),
               ("modint_mul_p1", 120, "quick", (), 400), ("modint_mul_p2", 120, "quick", (), 400), ("modint_mul_p3", 120, "quick", (), 400)],
        kani=_gf255_k(["k_normalized_encode", "k_decode_ct32", "k_decode_ct_badlen", "k_decode_reduce32"]),
        cases=_f(["encode", "encode_alias", "decode_ct", "decode_opt", "decode_reduce", "roundtrip", "from_int", "from_w64"]),
        level_text="GFsecp256k1: set_normalized (limbs == value mod q), encode / encode32 (canonical little-endian string of the value), set_decode_ct / decode_ct / decode32 / decode (status or Some exactly for 32-byte strings below q, value preserved, zero limbs otherwise) proved by Verus. ModInt256<M0..M3> (every scalar field and the P-256 field; any odd modulus with non-zero top limb): encode32 is proved by Verus to return the 32-byte little-endian string of the unique e < m with e*2^256 == limbs (mod m), i.e. the canonical value of the Montgomery representation; set_decode32 / decode32 return status all-ones exactly for 32-byte strings with little-endian value v < m, store x < m with x*2^256 == v*R2 (mod m) and zero otherwise; with R2 == 2^512 mod m (declared for make_r2) the two compose to the identity in both directions (lemma_encode_decode, lemma_decode_encode, by cancelling 2^256 modulo the odd m). The Montgomery reduction and multiplication contracts used are discharged in the same run. GF255<MQ>: set_normalized proved by Verus (result limbs == value mod q); encode32, strict decoding (in-place, on an arbitrary previous value) for every 32-byte string and every wrong length 0..=40, and encode-after-decode, proved by Kani on the full input domain. Other field/scalar types and decode_reduce: stand-in only.",
        level_note="u64::from_le_bytes/to_le_bytes cannot be given a Verus spec in this toolchain (const-expression array length): the GF255 byte codecs are decided by Kani, the ModInt256 ones by Verus through the documented `lebytes` renaming to declared twins (std semantics assumed) and the declared <&[u8; 8]>::try_from. decode_reduce (any length) is stand-in only.",
        assumptions=["ModInt256::R2 == 2^512 mod m (make_r2, compile-time; declared) and M0I (proved for make_m0i in unit modint_m0i)",
                     "set_mul is used under its general contract; the units modint_mul_p1/p2/p3 prove it under three path conditions whose disjunction is true"],
        not_reached=["GF255 set_decode_reduce for lengths other than 32 (stand-in only)", "ModInt256 set_decode_reduce / decode_reduce (any length), set_decode_ct for ENC_LEN != 32", "codecs of GF448, gfgen, binary fields; GFsecp256k1 set_decode_reduce"],
    ),
    "C06": dict(
        title="Group-element encodings are canonical, injective and strictly decoded",
        verus=[("p256_decode", None, "quick"), ("secp256k1_decode", 100, "quick"), ("ed448_decode", 100, "quick"), ("ed25519_decode", 100, "quick"), ("ed448_law", None, "quick"), ("jq255e_codec", None, "quick"), ("jq255s_codec", None, "quick"), ("jq255e_law", None, "quick"), ("jq255s_law", None, "quick")], kani=[],
        cases=_c(["decode_strict", "encode_equals", "subgroup_flags", "neutral_consistency"]),
        level_text="secp256k1 Point::set_decode: the same SEC 1 statement as for P-256 below (y^2 = x^3 + 7), with bswap32 and the w64be / w64le constructors proved. edwards25519 and edwards448 Point::set_decode: proved equal to the RFC 8032 5.1.3 / 5.2.3 decoding procedure for every byte string (length, sign bit, y < p canonical, candidate root x = u v^3 (u v^7)^((p-5)/8) resp. u^3 v (u^5 v^3)^((p-3)/4) - the addition chains of the code are proved to compute these powers - the v x^2 == +-u tests with the sqrt(-1) fix-up, rejection of x = 0 with sign 1, parity selection, T = x*y, neutral on failure), plus the lemma that an accepted string yields a canonical y, a point on the curve and the requested parity. edwards448 equals / isneutral as cross-multiplied comparisons. P-256 Point::set_decode is proved by Verus, for every byte string of every length, to return the SEC 1 section 2.3.4 result: status all-ones exactly for 0x00 (neutral), 0x02/0x03 || X with X < p big-endian and X^3 - 3X + b a square (Y = the root of the requested parity), 0x04 || X || Y with X, Y < p on the curve; every other string (wrong length, wrong prefix, non-canonical coordinate, off-curve) gives status 0 and the neutral point; the stored coordinates are the decoded ones with Z = 1. Field operations are declared value-level contracts (decode32, +, -, *, square, sqrt, equals, select, set_cond, encode). jq255e / jq255s: set_decode / decode accept exactly the 32-byte strings whose little-endian value u is below q with bp*u^4 + ap*u^2 + 1 a square, store (E, 1, u, u^2) with E the non-negative root, and the neutral (-1:1:0:0) on rejection; encode returns U/Z negated when E/Z is negative (extra/jq255-formulas.txt, Decoding / Encoding); isneutral is U == 0 and equals is U1*E2 == U2*E1 (same document).",
        level_note="Declared dependencies: ModInt256 value-level operation contracts (spec/modint_value_ops.vrs; the Montgomery-level statements are proved in the modint_* units, the division by 2^256 between the two is by reading), bswap32 (byte reversal), constants written w64be(..) denote those integers. In the (impossible on a prime-order curve, not provable here) case X^3-3X+b == 0 the parity clause is waived. Other curves and encoders: stand-in only until their units are registered.",
        assumptions=["ModInt256 value-level contracts (decode32 strict with value, ring operations mod m, sqrt: status iff square and even root, equals/select/set_cond, encode32 little-endian canonical): declared",
                     "p256::bswap32 reverses 32 bytes: declared",
                     "Point::B / Point::THREE (compile-time Montgomery conversion of the literal limbs) represent the integers written in the source: declared axiom over the literals extracted from the source on every run",
                     "sval(x) in 0..m-1 for every ModInt256 value, ZERO/ONE represent 0/1: declared axioms",
                     "the RFC 8032 claim that no square root exists when the candidate root fails both tests is not proved (acceptance is exact relative to the RFC procedure, sound relative to the curve equation); the SQRT_M1 literal is only shown to square to -1",
                     "GFsecp256k1 / GF448 value-level operation contracts (decode, encode, ring operations, sqrt for secp256k1, equals / iszero / select / set_cond): declared",
                     "GF255 decode32 / encode (proved by Kani for the three instantiated moduli), sqrt (status iff square, non-negative root) and field division: declared contracts; GF255::MINUS_ONE represents -1: declared axiom"],
        not_reached=["encoders, equals/isneutral of P-256", "gls254, ristretto255, decaf448, the P-256 / secp256k1 / Edwards encoders", "that the accepted strings are exactly the group elements (number theory of the Jacobi quartic) and injectivity of the encoding"],
    ),
    "C07": dict(
        title="Ed25519/Ed448 verification equals the strict cofactored RFC 8032 predicate",
        verus=[("ed25519_verify", None, "quick"), ("ed25519_sign", None, "quick"), ("ed448_verify", None, "quick"), ("ed448_sign", None, "quick")], kani=[],
        cases=["ed25519_sign", "ed25519_verify", "ed448_sign", "ed448_verify"],
        level_text="Ed25519 PublicKey::verify_inner and verify_raw / verify_ctx / verify_ph are proved by Verus, for every key, signature string, context and message, to return exactly the RFC 8032 5.1.7 predicate: length 64, R = first 32 bytes strictly decodable, S = little-endian last 32 bytes below L, k = SHA-512(dom2(F, C) || R || A || M) mod L with dom2 empty for the pure variant and 'SigEd25519 no Ed25519 collisions' || F || len(C) || C otherwise (F = 0 ctx, 1 ph), and the cofactored equation on (A, R, S, k). Ed448 verify_inner / verify_raw / verify_ctx / verify_ph likewise against RFC 8032 5.2.7 (length 114, 57-byte R and S, last byte of S zero and S < L, SHAKE256 with dom4, 114-byte challenge). Signing (both curves): PrivateKey::from_seed (hash, pruning of the scalar half, prefix half, public key = ENC([s]B)), sign_inner and sign_raw / sign_ctx / sign_ph return exactly the deterministic RFC 8032 5.1.6 / 5.2.6 signature ENC([r]B) || LE((r + k*s) mod L) with r and k derived from the prescribed hash inputs in the prescribed order; PublicKey::decode / from_point keep point and encoding consistent; and (specification-level lemma over two declared group facts) every signature so produced satisfies the verification predicate for the key built from the same seed. These are glue-level statements: SHA-512 / SHAKE256, the strict point decoder, the scalar decoders and the cofactored-equation helper are declared dependencies (assumed contracts over uninterpreted functions).",
        level_note="Declared (assumed) dependencies: Sha512 new/update/finalize (update's append property is proved on the real struct in unit sha2_update, C17), Point::decode == RFC 8032 5.1.3 strict decoding, Scalar::decode32 / decode_reduce, Point::verify_helper_vartime == [8]([S]B - R - [k]A) = neutral. ",
        assumptions=["Sha512::new/update/finalize compute SHA-512 of the concatenation of the update arguments (declared; `impl AsRef<[u8]>` restated as trait ByteSrc for &[u8] and &[u8; N])",
                     "ed25519 Point::decode(buf) is the strict RFC 8032 5.1.3 decoder (uninterpreted pt_dec); property C06 covers it at stand-in level",
                     "ModInt256::decode32: status all-ones iff 32 bytes and little-endian value < modulus, value preserved; decode_reduce: value == LE(buf) mod modulus (declared; C05 stand-in for ModInt256)",
                     "Point::verify_helper_vartime(A; R, s, k) returns whether [8]([s]B - R - [k]A) is the neutral (declared, uninterpreted cof_eq; C10 stand-in covers it against a reference)",
                     "Point::mulgen / Point::encode compute ENC([x]B) (uninterpreted mulgen_enc, pt_enc); scalar +, *, encode, decode_reduce are the ring operations mod L on the represented integer (declared); SHAKE256 new / inject / flip_extract_reset and Sha512::finalize_reset (declared; the sponge and SHA-2 streaming behaviour is proved in units sha3_sponge / sha2_update / sha2_digest, C17)",
                     "declared group facts used by the 'own signatures verify' lemma only: B has order L (mulgen_enc(x) == mulgen_enc(x mod L)), ENC([x]B) is canonical and decodes to a point with that encoding, and the cofactored equation holds for A = [s]B, R = [r]B, S = (r + k*s) mod L",
                     "ed448 Scalar (macro define_gfgen!) struct, ENC_LEN = 56 and its +, * impls are restated by hand (the macro text names $typename)"],
        not_reached=["verify_helper_vartime internals (Lagrange split, half-width combination), Point::mulgen, point codecs", "PrivateKey::decode"],
    ),
    "C08": dict(
        title="ECDSA (P-256, secp256k1): standard verification, documented nonce derivation",
        verus=[("p256_verify", None, "quick"), ("secp256k1_verify", None, "quick")], kani=[],
        cases=["ecdsa_sign", "ecdsa_verify", "ecdsa_verify_highx"],
        level_text="PublicKey::verify_hash of P-256 and of secp256k1 is proved by Verus, for every public key, signature string of every length and hash string of every length, to return exactly the property's predicate: even length, r and s the big-endian integers of the two halves (surplus leading bytes zero is shown equivalent to the integer being below 2^256), both in [1, n-1], h the big-endian integer of the first 32 hash bytes (all of a shorter hash) reduced mod n, and the x-coordinate of [h/s]G + [r/s]Q exists and reduced mod n equals r. bswap32 (byte reversal) is proved as well. Glue level: scalar arithmetic and decoders, the two-scalar point combination and the compressed point encoder are declared dependencies over uninterpreted functions.",
        level_note="Signing (RFC 6979 DRBG for P-256, SHA-512 based nonce for secp256k1): stand-in only.",
        assumptions=["ModInt256 value-level contracts: decode32, decode_reduce, equals, iszero, +, *, / (x/y == x * y^-1 mod n for y != 0), ONE represents 1: declared (spec/ecdsa_scalar_decl.vrs)",
                     "Point::mul_add_mulgen_vartime(self, u, v) has the x-coordinate of [v]G + [u]self (None at infinity): declared, uninterpreted ecdsa_x / pt_x (C10 stand-in compares it with the plain operations)",
                     "Point::encode_compressed carries the big-endian x-coordinate in bytes 1..33 (0 for infinity): declared"],
        not_reached=["sign_hash (nonce derivation, s = (h + x*r)/k)", "mul_add_mulgen_vartime internals"],
    ),
    "C09": dict(
        title="jq255e/jq255s/GLS254 Schnorr signatures and ECDH behave as specified",
        verus=[("jq255e_schnorr", None, "quick"), ("jq255s_schnorr", None, "quick"), ("gls254_schnorr", None, "quick")], kani=[],
        cases=["jq255e_sign", "jq255e_verify", "jq255e_ecdh", "jq255s_sign", "jq255s_verify", "jq255s_ecdh", "gls254_sign", "gls254_verify", "gls254_ecdh"],
        level_text="For jq255e, jq255s and GLS254, PublicKey::verify, make_challenge, PrivateKey::sign_seeded / sign / sign_randomized, PrivateKey::ECDH and Scalar::encode are proved by Verus against the scheme's specification: verification is true exactly when the signature has 48 bytes, s = LE(sig[16..48]) is below the order and the first 16 bytes of BLAKE2s(ENC([s]B - [c']Q) || pk || domain || data) equal c, with c' the 128-bit integer of c (jq255e/s) or c0 + c1*mu from its two 64-bit halves (GLS254); the domain is 0x52 for raw data and 0x48 || name || 0x00 for a named hash; signing derives the nonce from BLAKE2s(LE32(d) || pk || LE8(len(seed)) || seed || domain || data) mod n and outputs c || LE32(k + d*c'); ECDH orders the two encoded keys, hashes them with tag 0x53 and ENC([d]Q) on success and with tag 0x46 and the secret scalar on an undecodable or neutral peer (status 0). Specification-level lemmas over the declared group axioms: every signature produced is accepted, and two well-formed key pairs derive the same key with a success status.",
        level_note="Glue level: BLAKE2s-256, the scalar ring operations and codecs, point decoding / encoding / neutral test / generator multiplication / the combined multiplication fast paths are declared dependencies over an abstract prime-order group with its axioms (spec/group_decl.vrs). BLAKE2s streaming itself is proved in unit blake2s_stream (C17).",
        assumptions=["Blake2s256 new / update / finalize compute BLAKE2s-256 of the concatenated updates; digest length 32 (declared)",
                     "ModInt256 value-level contracts (decode32, decode_reduce, encode32, from_u64, from_u128, +, *; GLS254: MU represents its literal): declared",
                     "Point set_decode / isneutral / encode / mulgen / Neg / Scalar*Point / mul128_add_mulgen_vartime / mul64mu_add_mulgen_vartime: declared over the abstract group; the group axioms (commutative group, scalar action, order n, injective canonical encoding) are declared",
                     "std: from_le_bytes / to_le_bytes twins (lebytes), <&[T; N]>::try_from, u32::wrapping_neg, RngCore::fill_bytes keeps the buffer length, str::len is the byte length (precondition str_ok)"],
        not_reached=["the point arithmetic behind the declared group operations (C03/C04/C10)", "PrivateKey / PublicKey decode and encode"],
    ),
    "C10": dict(
        title="Variable-time fast paths agree with the constant-time reference",
        verus=[("recode_naf", None, "quick")],
        kani=[],
        cases=["*_recode_u128_naf", "p256_recode_u129_naf", "*_recode_scalar_naf", "ed448_recode_halfwidth_naf", "*_mul_add_mulgen_vartime", "*_mul128_add_mulgen_vartime", "*_verify_helper_vartime"],
        level_text="The 5-bit wNAF recoding of 128-bit integers (jq255e, jq255s, ed25519, secp256k1 copies) is proved by Verus for every u128 by loop induction: digits odd in -15..15 or zero and sum sd[i]*2^i == n (the last ten iterations closed by exhaustive evaluation of the 528 possible residual values). The interleaved multi-scalar loops and verify helpers are stand-in only.",
        level_note="Interleaved loops (set_mul_add_mulgen_vartime etc.) and verify_helper_vartime are not under contract; scalar-fed NAF recoders stand-in only.",
        not_reached=["set_mul_add_mulgen_vartime / set_mul128_add_mulgen_vartime / set_mul64mu_add_mulgen_vartime", "verify_helper_vartime", "recode_scalar_NAF, recode_u129_NAF, recode_halfwidth_NAF (stand-in only)"],
    ),
    "C11": dict(
        title="Scalar splitting functions meet their contracts and always terminate",
        verus=[("zz_ops", 60, "quick"), ("jq255e_split", 30, "quick"), ("gls254_split", 20, "quick")],
        kani=[("zz::k_zz_linear", "quick", "full-domain"), ("zz::k_zz256", "quick", "full-domain"), ("zz::k_zz384", "quick", "full-domain")],
        cases=["modint_split", "gfgen_split", "gls254_zeta_split", "jq255e_split_mu", "secp256k1_split_theta"],
        level_text="Splitting along the curve endomorphism is proved by Verus for jq255e and GLS254, for every scalar: mul_divr_rounded returns exactly round(k*e/r) = floor((k*e + (r-1)/2)/r) on its documented domain (k < r, e < 2^127 - 2) using the special form of r (2^254 - r0 resp. 2^253 + r0); split_mu (jq255e), split_mu_inner / split_mu / split_mu_odd (GLS254) return (|k0|, sgn, |k1|, sgn) with k0 + k1*mu = k modulo r, sign words 0 / 0xFFFFFFFF, |k0|, |k1| < floor(((r-1)/2)*(u+v)/r) + 1 (below 2^127 for jq255e, about 2^126 for GLS254; the odd variant: odd values below twice that). The lattice argument (r = u^2 + v^2, mu = u/v, mu^2 = -1 mod r, rounding error at most (r-1)/2) is a lemma written out on the literal constants and checked by computation, so it is linear integer arithmetic. The fixed-width integers underneath (src/backend/w64/zz.rs) are proved by Verus from their bodies: Zu128 mul128x128, mul128x128trunc, abs, double_inc_abs, set_sub, set_sub_u32; Zu256 trunc128, mul256x128, add_rsh224, borrow; Zu384 set_add (the two wide multiplications are the ones CBMC could not finish); and by Kani on the full domain: the same linear operations plus Zu384::trunc_and_rsh_cc for every shift 225..255. split_vartime (Lagrange reduction, all scalar fields, termination) and secp256k1 split_theta (32-bit limb helpers nested in the function): stand-in only (hang detection by watchdog, unbalanced fractions, recombination and size checks).",
        level_note="The split units use the zz.rs contracts as declared dependencies with exactly the texts unit zz_ops proves (paired by the driver); Zu384::trunc_and_rsh_cc is declared there for the one shift count used (Kani proves every shift); Scalar::encode / half / Sub, Zu256::decode are declared. Extraction options: destruct (destructuring assignment), localconst (const items inside a body).",
        assumptions=["Zu384::trunc_and_rsh_cc: declared in the Verus units for n = 254 / 253; discharged by Kani (zz::k_zz384, every shift 225..255) - link by reading",
                     "Scalar::encode (canonical 32-byte little-endian value below r), Scalar::half, &Scalar - Scalar, Zu256::decode: declared value-level contracts",
                     "sval(Scalar::MU_PLUS_ONE) == mu + 1 (GLS254): declared (the constant is opaque in the unit)"],
        not_reached=["lagrange*_vartime, ModInt256::split_vartime, gfgen split_vartime (macro with metavariables)", "secp256k1 split_theta / mul_divr_rounded (nested helper fns sub160, mul128_t160, abs128 cannot carry contracts)"],
    ),
    "C12": dict(
        title="Field division, inversion, square root and Legendre symbol are correct",
        verus=[("modint_legendre_iters", 100, "quick")], kani=[],
        cases=_f(["div", "batch_invert", "legendre", "sqrt", "sqrt_ext", "trace", "halftrace", "qsolve", "lin"]),
        level_text="ModInt256::legendre and GF255::legendre: a structural contract is proved by Verus on the real code for every input - the binary-GCD performs at least 2*len - 2 iterations (510 for the 256-bit ModInt256 moduli, 508 for the 255-bit GF255 moduli: the number the algorithm's convergence bound asks for), every non-wrapping operation is in range (shift counts, the subtraction on the leading-zero count), and the result is one of 0, 1, -1. The symbol's value itself, division, inversion, square roots and the binary-field solvers: stand-in only (executable postconditions against Euler's criterion / defining equations, with operands that include the slowest-converging binary-GCD patterns c*2^k).",
        level_note="The convergence theorem of the optimised binary GCD (2*len - 2 iterations suffice) is assumed, not proved; the contract states that the code performs that many. lindiv31abs, lzcnt, iszero, set_normalized are declared (trivial contracts: only their termination and types matter here).",
        assumptions=["binary GCD convergence bound (Pornin, eprint 2020/972): at most 2*len - 2 iterations for an odd modulus of len bits: assumed",
                     "lindiv31abs / lzcnt (r <= 64, r == 64 iff x == 0) / iszero / set_normalized: declared"],
        not_reached=["the value of the Legendre symbol, set_div / invert / batch_invert, sqrt, binary-field trace / half-trace: stand-in only"],
    ),
    "C13": dict(
        title="Truncated-signature verification is sound and complete",
        verus=[("p256_prepare_truncate", 100, "quick")], kani=[],
        cases=["ed25519_trunc", "p256_trunc", "p256_prepare_truncate", "p256_prepare_truncate_short"],
        level_text="The documented preparation step of the P-256 scheme, PrivateKey::prepare_truncate, is proved by Verus for every byte string: it returns a value exactly when the length is even, non-zero and at most 64 and the big-endian halves satisfy p-n <= r < n and 0 < s < n; the output then carries r (big-endian, left-padded) and the little-endian encoding of s, replaced by n - s when s >= 2^255 (two-limb subtraction with borrow proved exact). The defect D7 repaired earlier fails this proof when re-introduced. Truncated verification itself (verify_trunc_*: baby-step/giant-step search, UX_COMP table, x-only arithmetic) for Ed25519 and P-256: stand-in only (round trips through truncation for every rm in 8..=32 incl. boundary indices, forged (key, message, signature) triples with chosen s).",
        level_note="std byte-order conversions through the documented `lebytes` twins; <&[u8; 16]>::try_from declared.",
        assumptions=["u128::from_be_bytes / to_le_bytes twins and <&[T; N]>::try_from: std semantics declared"],
        not_reached=["verify_trunc_inner (Ed25519), verify_trunc_hash (P-256), x_sequence_vartime, the UX_COMP table"],
    ),
    "C15": dict(
        title="FROST: any qualifying signer set signs validly; bad shares are rejected",
        verus=[(u, 60, "quick") for u in ("frost_lists", "frost_coord", "frost_sign", "frost_cmp", "frost_cmp56", "frost_helpers", "frost_vss", "frost_lagrange",
                                          "frost_vshare", "frost_binding", "frost_split", "frost_complete", "frost_wire_p256", "frost_wire_ed25519", "frost_wire_ed448")],
        kani=[],
        cases=["frost_*_protocol", "frost_*_corrupt", "frost_*_wire", "frost_*_decode_total"],
        level_text="Proved by Verus on the text of macro define_frost_core (metavariable-free, shared verbatim by the five ciphersuites; Point, Scalar, the encoded lengths, the per-suite codecs and hashes are opaque, so each proof holds for every suite), for all inputs: (wire formats) encode / decode of the eight message and key types are inverse and decode accepts exactly the well-formed strings (zero identifiers / neutral points rejected as documented), encode_list / decode_list of commitments and VSS elements (at least two entries, all decodable, identifiers strictly increasing); the encoded lengths are instantiated for 32/33, 32/32 and 57/57 bytes. (Dealer) KeySplitter::trusted_split returns max_signers shares and min_signers VSS elements such that every share satisfies the Feldman equation pk_i = sum_j i^j C_j - i.e. passes verify_split - and all shares lie on one polynomial whose constant term is the group secret (Horner loop against the power-sum definition); verify_split and derive_group_info compute exactly that equation. (Coordinator) new accepts exactly thresholds >= 2; choose returns exactly min_signers commitments, identifiers strictly increasing, each the first one in arrival order with its identifier, and returns None exactly when fewer than min_signers distinct identifiers are present. (Signer) sign returns a share exactly when the list has >= 2 entries, is strictly sorted, and contains the signer's identifier with exactly the caller's hiding and binding commitments; the share is hiding_nonce + binding_nonce*rho_i + lambda_i*sk_i*c of RFC 9591 section 5.2, with the binding factors (compute_binding_factors: section 4.4 hash inputs), group commitment, Lagrange coefficient (derive_interpolating_value: product formula; its three assert! are unreachable under its documented preconditions) and challenge proved against their definitions; scalar_cmp_vartime is the integer order on canonical values (32- and 56-byte encodings). (Verification) verify_signature_share / inner_verify_signature_share compute the share relation z_i*G = D_i + rho_i*E_i + c*lambda_i*PK_i; GroupPublicKey::verify / verify_esig the Schnorr equation; lemma: a share produced by sign() satisfies the relation checked by verify_signature_share (over declared module axioms of the group). Stand-in only: Coordinator::assemble_signature (closure patterns unsupported by this Verus), the aggregate signature verifying under the group key (needs the Lagrange interpolation identity), agreement with the plain RFC 8032 verifiers, rejection of every single-field corruption (sweep over (t, n), subsets, arrival orders, corruptions, all five suites).",
        level_note="Scalar / group arithmetic, hashes H1..H5, per-suite codecs and Point::verify_helper_vartime are declared contracts over uninterpreted functions (integers modulo an uninterpreted prime order; a module over them with nine declared axioms); Ordering's derived PartialEq is assumed structural.",
        assumptions=["scalar field and group: declared operator contracts over uninterpreted ord(), g_add, g_mul with the module axioms listed in spec/frost_vss_spec.vrs and frost_complete.vrs",
                     "per-suite point_decode/point_encode/scalar_decode/scalar_encode round trips, H1..H5, mulgen, verify_helper_vartime (Schnorr equation): declared",
                     "Commitment identifiers non-zero (data-type invariant established by every decoder) as a precondition of sign(); vsscomm.len() >= 1 for verify_split, >= 2 for derive_group_info (documented: a VSS commitment has min_signers >= 2 elements)",
                     "verify_signature_share requires a strictly sorted commitment list (it is the coordinator's own list from choose(); derive_interpolating_value asserts it)"],
        not_reached=["Coordinator::assemble_signature, SignerPrivateKeyShare::commit / nonce_generate, GroupPrivateKey::sign / sign_seeded"],
    ),
    "C14": dict(
        title="X25519 and X448 compute the RFC 7748 functions on all inputs",
        verus=[("x25519", None, "quick"), ("x448", None, "quick"), ("gf255_m64_ops", None, "quick"), ("gf255_m64_lin", None, "quick"),
               ("gf255_m64_shift", None, "quick"), ("gf255_m64_mul", 120, "quick", ARITH6, 300, PORTFOLIO)],
        kani=[("gf255::gf25519::k_decode_reduce32", "quick", "full-domain"), ("gf255::gf25519::k_normalized_encode", "quick", "full-domain")],
        cases=["x25519_ladder", "x25519_base", "x448_ladder", "x448_base"],
        level_text="x25519() and x448() are proved by Verus, for every point string and every scalar string, to return the byte string whose little-endian value is the RFC 7748 section 5 function: scalar clamping, masking of the top bit of u (X25519), reduction of non-canonical u, the ladder loop (inductive invariant: the five state variables equal the RFC pseudo-code's state after the same iterations, a24 = 121665 / 39081), the final conditional swap and x2/z2 with x/0 = 0. For X25519 the field operations used (+, -, *, square, mul_small, cswap) are the GF255 contracts discharged in the same run, decode_reduce and encode are proved by Kani for every 32-byte string / every element (MQ = 19); the field division is an assumed contract (C12). For X448 every GF448 operation is an assumed contract. x25519_base / x448_base (Edwards generator multiplication and birational map): stand-in only.",
        level_note="The loop `for t in (0..N).rev()` is rewritten mechanically to an equivalent `while` (documented extraction transformation, checked by the erasure check).",
        assumptions=["GF255 Div: fe(x/y) is the field quotient, x/0 == 0 (assumed contract; property C12, stand-in there)",
                     "GF255::decode_reduce / encode contracts are used by the Verus unit as assumed contracts and proved separately by the Kani harnesses k_decode_reduce32 / k_normalized_encode for GF25519 on the full input domain (the link between the two statements - LE value of 32 bytes - is by reading, not mechanical)",
                     "every GF448 operation used by x448() (add, sub, mul, square, mul_small, cswap, decode_reduce, encode, div): assumed contracts, GF448 is not under contract",
                     "RFC 7748 states the final step as x_2 * z_2^(p-2); the specification uses the field quotient with x/0 = 0, equal to it by Fermat's little theorem (not machine-checked)",
                     "k_t of the RFC ((k >> t) & 1 of the little-endian integer) is specified at byte level as bit (t mod 8) of byte (t div 8)"],
        not_reached=["x25519_base, x448_base, Point::to_montgomery_u"],
    ),
    "C16": dict(
        title="LMS never reuses a one-time key and accepts exactly its own signatures",
        verus=[],
        kani=[("lms::sha256_m32::k_sign_state_machine", "quick", "full-domain"), ("lms::sha256_m32::k_verify_total", "quick", "full-domain")]
             + [("lms::%s::%s" % (ps, hn), "thorough", "full-domain") for ps in ("sha256_m24", "shake_m24", "shake_m32") for hn in ("k_sign_state_machine", "k_verify_total")],
        cases=["lms_key_life", "lms_sig_corrupt"],
        explanation="One call of sign() is proved against its contract for every key state (all 2^32 counter values, symbolic I/SEED/tree): below 2^h it returns a signature carrying the old index and the right authentication path and leaves counter = old+1 with I, SEED and the tree unchanged; at or above 2^h it returns None and changes nothing. The whole-history statement (strictly increasing indices, each at most once, exhaustion) is the induction over calls on that contract. verify(): false for every wrong length, out-of-range index, and no panic. The one-time signature (ots_sign/ots_verify) and the hash functions are havoc stubs in these harnesses.",
        assumptions=["ots_sign / ots_verify / Hm replaced by havoc stubs (kani::stub): the Winternitz chain arithmetic and 'own signatures verify' are not decided by the deductive check (see stand-in sweep cases lms_*)",
                     "'rejects any other message' is a collision-resistance statement about the hash, not a theorem of the code: not claimed"],
        level_text="sign(): one-call contract proved by Kani for every key state; the history property is its induction. verify(): length / index / type rejection and absence of panics for every string. Completeness (own signatures verify) and the Winternitz arithmetic: stand-in only.",
        level_note="ots_sign, ots_verify and the hash functions are havoc stubs in the Kani harnesses.",
    ),
    "C17": dict(
        title="Hash functions match their standards for every input and call pattern",
        verus=[("sha2_update", None, "quick"), ("sha2_digest", 100, "quick"), ("sha3_sponge", None, "quick"), ("blake2s_stream", None, "quick")],
        kani=[],
        cases=["hash_chunked", "hash_script", "shake_chunked", "shake_script", "blake2s_chunked", "blake2s_script", "blake2s_keyed_chunked", "blake2s_keyed_reset"],
        explanation="SHA-2 family: update() of both block sizes is proved (Verus, loop invariant, any number of calls, any chunk lengths) to extend the absorbed byte string: view(final) == view(old) ++ src, where view relates (h, buf, ctr) to the message through an abstract compression function. Padding/finalisation (to_be_bytes has no Verus spec in this toolchain), the compression functions, SHA-3 and BLAKE2s are covered only by the labelled stand-in sweep against from-the-standard reference implementations.",
        assumptions=["process() (the compression function) is used through an assumed contract: final.h == compress(old.h, old.buf), buf and ctr unchanged",
                     "Blake2s::process_block(h, block, ctr, last) is the RFC 7693 compression function F (declared, abstract f2s)",
                     "KeccakState::process() is the Keccak-f[1600] permutation on the 25 lanes (declared, abstract keccak_f)",
                     "SHA3Core::RATE / SHAKE::RATE equal their initialiser 200 - (SZ >> 2) as a mathematical integer (declared axiom generated from the source text; the instantiation check is the compiler's)",
                     "usize is 64 bits (global size_of usize == 8)"],
        level_text="SHA-224/256/384/512 streaming: update() proved by Verus to be concatenation on the abstract message view for every chunking; digest_to() (finalisation, both block sizes) proved to run the compression chain over msg || 0x80 || 0^k || BE(8*len) with k minimal (FIPS 180-4 5.1), one or two final blocks, and to write the state words big-endian (including the 4-byte half word of SHA-512/224). SHA-3 / SHAKE sponge at byte level (FIPS 202): SHA3Core::update == absorb(message) for every chunking (lemma: absorb(a ++ b) == absorb after absorb), SHA3Core::digest_to == permute after 0x06 .. 0x80 padding then the first SZ/8 state bytes, SHAKE::flip == 0x1F .. 0x80 padding, SHAKE::extract == squeeze(n) with lazy permutation (lemma: squeeze(a + b) == squeeze(a) then squeeze(b), i.e. the output stream does not depend on how extract calls are chunked). BLAKE2s (RFC 7693 3.3): Blake2s::new/reset (parameter block), update for every chunking (the last block, even a full one, stays buffered; counters are the running byte count), inner_finalize (zero padding, counter = total length, last-block flag, little-endian output words), KeyedBlake2s::new/reset/update (key block first; the reset defect D5 fails this proof when re-introduced). The  compression functions, SHAKE::inject (impl AsRef parameter: no specification can be attached to AsRef in this Verus; its loop is textually SHA3Core::update's), Keccak-f, SHA-2 compression, BLAKE2s: stand-in only (reference implementations written from the standards).",
        level_note="Compression function abstract (process() is an assumed contract). to_be_bytes is reached through the documented `lebytes` renaming to declared twins. The macro-generated public wrappers (Sha256::finalize etc.) are not under contract. Message lengths are limited to < 2^61 (2^125) bytes by the contract, as in FIPS 180-4.",
    ),
    "C19": dict(
        title="Decoding and verification are total: no panic, hang or out-of-bounds",
        verus=[("recode_naf", None, "quick"), ("p256_decode", None, "quick"), ("secp256k1_decode", 100, "quick"), ("ed25519_decode", 100, "quick"), ("ed448_decode", 100, "quick"), ("jq255e_codec", None, "quick"), ("jq255s_codec", None, "quick"), ("frost_lists", 60, "quick"), ("frost_vshare", 60, "quick"), ("frost_cmp", 60, "quick"), ("frost_wire_p256", 60, "quick"), ("frost_wire_ed25519", 60, "quick"), ("frost_wire_ed448", 60, "quick"), ("frost_coord", 60, "quick"), ("gfsecp256k1_codec", 100, "quick"), ("modint_codec", 60, "quick"), ("ed25519_verify", None, "quick"), ("ed448_verify", None, "quick"), ("p256_verify", None, "quick"), ("secp256k1_verify", None, "quick"), ("jq255e_schnorr", None, "quick"), ("jq255s_schnorr", None, "quick"), ("gls254_schnorr", None, "quick")],
        kani=[("lms::sha256_m32::k_verify_total", "quick", "full-domain")] + _gf255_k(["k_decode_ct_badlen"]),
        cases=["*_decode_strict", "*_decode_ct", "*_decode_opt", "*_decode_reduce", "*_verify", "ecdsa_verify", "*_ecdh", "lms_sig_corrupt", "modint_split", "gfgen_split",
               "hash_script", "x25519_ladder", "x448_ladder", "frost_*_decode_total", "frost_*_corrupt", "*_verify_helper_vartime", "p256_prepare_truncate_short", "ed25519_trunc", "p256_trunc"],
        level_text="Absence of panics / out-of-bounds is part of every Verus obligation set and every Kani harness listed (index, slice, overflow and unwrap checks are built-in obligations): GF255, ModInt256 and GFsecp256k1 strict decoding for every length, point decoding of P-256, secp256k1, edwards25519, edwards448, jq255e, jq255s for every string of every length, Ed25519 / Ed448 verification (contexts up to 255 bytes: the documented precondition of the assert! in verify_inner), ECDSA verify_hash and the Schnorr verify / ECDH functions for every signature / peer string, LMS verify for every string, wNAF recoding. All other entry points: the stand-in sweep catches panics (catch_unwind) on boundary-biased inputs of all lengths.",
        level_note="Most decode/verify entry points are not under contract; status-word exactness is proved only for GF255 (C20).",
    ),
    "C20": dict(
        title="Masked selection primitives select exactly as their control word says",
        verus=[("gf255_m64_lin", None, "quick"), ("gf255_m64_lookup", None, "quick"), ("modint_lin", 60, "quick"),
               ("ed25519_law", None, "quick"), ("gf255_m64_ops", None, "quick"), ("cond_ops_other", None, "quick"), ("gfsecp256k1_lin", 100, "quick"), ("jq255e_law", None, "quick"), ("jq255s_law", None, "quick")],
        kani=_gf255_k(["k_iszero_equals", "k_cond_select_cswap"]) + _gf255_k(["k_lookup16", "k_lookup16_x4"], quick_fields=()),
        cases=_f(["cond", "select", "cswap", "equals", "iszero", "lookup16_x3", "lookup16_x4", "lookup"]),
        level_text="GFsecp256k1 iszero / equals (all-ones exactly when the values are equal mod q, for both representations of zero). GF448 and GFsecp256k1: set_cond, select, cswap proved by Verus at limb level (unchanged for ctl 0, full copy / exchange for 0xFFFFFFFF). jq255e / jq255s points: set_cond, select, set_condneg. GF255<MQ>: set_cond, select, cswap (exact copies/swaps for ctl in {0,0xFFFFFFFF}, whole-struct frames), iszero and equals (0xFFFFFFFF iff values equal mod q, for all three representations of zero), lookup16_x3/x4 (exact entry for j<16, zeros for every other u32) proved by Verus; the same by Kani on the full domain. Other field types and point-level selection/lookups: stand-in only.",
        level_note="AVX2 lookup arms not reached (intrinsics).",
        not_reached=["point-level operations of ed448, p256, secp256k1, gls254", "iszero / equals of GF448, GFsecp256k1, gfgen, binary fields", "AVX2 lookup paths"],
    ),
}

NOT_APPLICABLE = {
    "C02": "Constant-time behaviour of the optimized machine code (branch and address traces) is not a property of values computed by the source program; no Verus/Kani contract can state it and neither tool sees the emitted code.",
    "C18": "Not decided: a relational claim over build configurations. It would follow as a corollary if every backend discharged the same contract text, but only the default 64-bit backend of GF255 is under contract; the other backends (w32, gf255_m51, zz32, clmul, AVX2/SSE2) are not reached, so no claim is made.",
}
