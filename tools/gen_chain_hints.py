"""One-off generator of proof hints for schoolbook carry-chain code
(GF255::set_mul / set_square style). It walks the `let` statements of the
extracted function, recognises

    let (lo, hi) = umull(x, y);
    let (d, cc)  = addcarry_u64(d, addend, 0 | cc);
    let (d, _)   = addcarry_u64(d, addend, cc);

and emits, as weaver hints anchored on `let <name> <k>`:
  * ghost captures of every umull result (they get shadowed),
  * at the start of each carry chain a ghost snapshot of the 8 limbs,
  * after every addcarry a *prefix equation*
        sum(limbs touched so far) + cc*W(next) == sum(snapshots) + sum(addends)
    which follows from the previous one and one addcarry postcondition,
  * at the end of each chain the whole-value equation and carry-out == 0.
The output is static text that is pasted into a contract template; it is
never used at check time.
"""
import re, sys
sys.path.insert(0, '/verif')
from tools import rsx, unitgen

W = {0: "1", 1: "p64()", 2: "p128()", 3: "p192()", 4: "p256()", 5: "p320()", 6: "p384()", 7: "p448()", 8: "p512()"}


def lets_of(file, impl, fn):
    src = open('/repo/' + file).read()
    blk = rsx.find_impl_blocks(src, impl)[0]
    s, t = rsx.find_fn(src, fn, 0, within=blk)
    txt, _ = rsx.normalise_fn(src[s:t], unitgen.get_cfg('portable'))
    toks = rsx.tokenize(txt)
    d = 0
    for i, tk in enumerate(toks):
        if tk.text == '{' and d == 0:
            bo = i
            break
    bc = rsx.match_close(toks, bo)
    lets, _ = rsx._stmt_positions(toks, bo, bc)
    out = []
    cnt = {}
    for (i, j, names) in lets:
        stmt = " ".join(txt[toks[i].start:toks[j].end].split())
        occ = {}
        for n in names:
            cnt[n] = cnt.get(n, -1) + 1
            occ[n] = cnt[n]
        out.append((stmt, names, occ))
    return out


def limb_index(name):
    m = re.match(r'^e(\d)$', name)
    return int(m.group(1)) if m else None


if __name__ == "__main__":
    pass


def gen_product_phase(lets, limbs=8):
    """Emit hints for the schoolbook product phase up to (not including) the
    first umull whose second argument is not a plain identifier (reduction)."""
    out = []
    umk = -1
    cur_lo = None      # (name of ghost lo, ghost hi, x, y)
    chain = None
    gidx = 0
    prods_total = []   # terms of current g
    def emit(anchor, text):
        out.append("//@@at let %s %d\n%s" % (anchor[0], anchor[1], text))
    for idx, (stmt, names, occ) in enumerate(lets):
        m = re.match(r'^let \((\w+), (\w+)\) = umull\((\w+), (\w+)\);$', stmt)
        if m:
            lo, hi, x, y = m.groups()
            if not re.match(r'^[ab]\d$', y) or not re.match(r'^[ab]\d$', x):
                break
            if limb_index(lo) is not None:
                continue  # direct products into limbs (handled by caller)
            umk += 1
            cur_lo = ("lo_%d" % umk, "hi_%d" % umk, x, y, lo, hi)
            txt = "let ghost (lo_%d, hi_%d) = (%s, %s);" % (umk, umk, lo, hi)
            # look ahead: does a new chain start right after this umull?
            nxt = lets[idx + 1][0] if idx + 1 < len(lets) else ""
            if re.match(r'^let \(e\d, \w+\) = addcarry_u64\(.*, 0\);$', nxt):
                g = gidx + 1
                txt += "\nlet ghost (%s) = (%s);\nlet ghost g%d_old = v8(e0, e1, e2, e3, e4, e5, e6, e7);" % (
                    ", ".join("sn%d_%d" % (g, j) for j in range(8)), ", ".join("e%d" % j for j in range(8)), g)
            emit((hi, occ[hi]), txt)
            continue
        m = re.match(r'^let \((\w+), (\w+)\) = addcarry_u64\((\w+), (.+), (0|cc)\);$', stmt)
        if not m:
            continue
        dst, cout, srcl, addend, cin = m.groups()
        i = limb_index(dst)
        if i is None:
            return out, stmt  # special chain: caller continues by hand
        if cin == '0':
            gidx += 1
            chain = dict(touched=[], terms=[], pend=None, g=gidx, first=True)
        c = chain
        c['touched'].append(i)
        if addend == cur_lo[4] if cur_lo else False:
            c['pend'] = (cur_lo, i)
            c['terms'].append("%s as int * %s" % (cur_lo[0], W[i]))
        elif cur_lo and addend == cur_lo[5]:
            # hi of the same product: fold lo+hi into pr
            c['terms'].pop()
            c['terms'].append("pr(%s, %s) * %s" % (cur_lo[2], cur_lo[3], W[i - 1]))
        elif addend == '0':
            pass
        else:
            c['terms'].append("(%s) as int * %s" % (addend, W[i]))
        snap = "sn%d" % c['g']
        lhs = " + ".join("%s as int * %s" % ("e%d" % j, W[j]) for j in c['touched'])
        rhs = " + ".join("%s_%d as int * %s" % (snap, j, W[j]) for j in c['touched'])
        terms = " + ".join(c['terms']) if c['terms'] else "0"
        c['first'] = False
        if cout != '_':
            emit((dst, occ[dst]), "proof { assert(%s + %s as int * %s == %s + %s); }" % (lhs, cout, W[i + 1], rhs, terms))
        else:
            prods = " + ".join(t for t in c['terms'])
            emit((dst, occ[dst]),
                 "proof {\n    assert(g%d_old + %s < p512());\n    assert(v8(e0, e1, e2, e3, e4, e5, e6, e7) == g%d_old + %s);\n}" % (c['g'], prods, c['g'], prods))
    return out, None


if __name__ == "__main__":
    lets = lets_of("src/backend/w64/gf255_m64.rs", "impl<const MQ: u64> GF255<MQ>", "set_mul")
    out, stop = gen_product_phase(lets)
    print("\n".join(out))
    print("// STOPPED AT:", stop)
