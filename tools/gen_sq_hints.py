"""One-off generator of proof hints for the Montgomery-reduction half of
ModInt256::set_square (two code paths). Output is pasted into
contracts/spec/monty_sq_hints.vrs; never used at check time. All arithmetic is
delegated to isolated lemmas of contracts/spec/lem_monty.vrs; the hints only
capture values and call lemmas."""
import re, sys
sys.path.insert(0, '/verif')
from tools.gen_chain_hints import lets_of

IMPL = "impl<const M0: u64, const M1: u64, const M2: u64, const M3: u64> ModInt256<M0, M1, M2, M3>"
MARGS = "M0 as int, M1 as int, M2 as int, M3 as int"
POS = ["1int", "p64()", "p128()", "p192()", "p256()", "p320()", "p384()", "p448()", "p512()"]
LW = "lem_monty::"


def limbs_expr(lo, hi8):
    """positional value of the current exec limbs e<lo>..e7 (and e8 when hi8)"""
    t = ["(e%d as int) * %s" % (i, POS[i]) for i in range(lo, 8)]
    if hi8:
        t.append("(e8 as int) * p512()")
    return " + ".join(t)


def gen_path(L, start, path):
    out = []

    def at(name, occ, text):
        out.append("//@@at let %s %d\n%s" % (name, occ, text))

    P = "q%d" % path
    i = start
    for k in range(4):
        R = "%sr%d" % (P, k)
        sf, nf, of = L[i]
        assert sf.startswith("let f = e%d.wrapping_mul" % k), sf
        has8 = (path == 2 and k > 0)
        # snapshot: x = e_k..e_{k+3}; u = positions k+4..k+7
        upos = list(range(k + 4, k + 8))
        uexpr = []
        for p in upos:
            if p <= 7:
                uexpr.append("e%d as int" % p)
            elif p == 8 and has8:
                uexpr.append("e8 as int")
            else:
                uexpr.append("0int")
        snap = "let ghost (%s_x0, %s_x1, %s_x2, %s_x3) = (e%d as int, e%d as int, e%d as int, e%d as int);\n" % (R, R, R, R, k, k + 1, k + 2, k + 3)
        snap += "let ghost (%s_u0, %s_u1, %s_u2, %s_u3) = (%s);\n" % (R, R, R, R, ", ".join(uexpr))
        snap += "let ghost %s_f = f as int;\nproof {\n    %slemma_wrap_mul(e%d, Self::M0I);\n    %slemma_monty_f(%s_x0, M0 as int, Self::M0I as int, %s_f);\n}" % (R, LW, k, LW, R, R)
        at("f", of["f"], snap)
        i += 1
        s0, n0, o0 = L[i]
        at("hi", o0["hi"], "let ghost %s_g0 = hi as int;\nproof { %slemma_low_zero(%s_f * (M0 as int) + %s_x0, %s_g0, %s_f * (M0 as int) + %s_x0 - %s_g0 * %sw()); }" % (R, LW, R, R, R, R, R, R, LW))
        i += 1
        for t in range(3):
            s, n, o = L[i]
            en = n[0]
            at(en, o[en], "let ghost (%s_y%d, %s_g%d) = (%s as int, hi as int);" % (R, t, R, t + 1, en))
            i += 1
        # carry propagation over positions k+4 .. 7 (.. 8)
        v = []      # (value expr, carry expr) per chain position
        lastanchor = None
        p = k + 4
        while True:
            s, n, o = L[i]
            m = re.match(r'^let \((\w+), (\w+)\) = addcarry_u64\((.*)\);$', s)
            mw = re.match(r'^let (e7) = e7\.wrapping_add\(hi\);$', s)
            if mw:
                # path 1, last round: no carry out tracked; the dropped wrap is a ghost
                at("e7", o["e7"], "let ghost %s_v%d = e7 as int;\nlet ghost %s_drop = if %s_v%d == %s_u0 + %s_g3 { 0int } else { 1int };\nproof { assert(%s_v%d + %s_drop * %sw() == %s_u0 + %s_g3); }" % (R, 0, R, R, 0, R, R, R, 0, R, LW, R, R))
                v.append(("%s_v0" % R, "%s_drop" % R))
                lastanchor = ("e7", o["e7"])
                i += 1
                break
            if not m:
                break
            res, car, args = m.group(1), m.group(2), m.group(3)
            idx = p - (k + 4)
            if not re.match(r'^e[4-8]$', res):
                break
            if car == '_':
                prevc = v[-1][1] if v else "%s_g3" % R
                at(res, o[res], "let ghost %s_v%d = %s as int;\nlet ghost %s_drop = if %s_v%d == %s_u%d + %s { 0int } else { 1int };\nproof { assert(%s_v%d + %s_drop * %sw() == %s_u%d + %s); }" % (
                    R, idx, res, R, R, idx, R, idx, prevc, R, idx, R, LW, R, idx, prevc))
                v.append(("%s_v%d" % (R, idx), "%s_drop" % R))
            else:
                at(res, o[res], "let ghost (%s_v%d, %s_c%d) = (%s as int, %s as int);" % (R, idx, R, idx, res, car))
                v.append(("%s_v%d" % (R, idx), "%s_c%d" % (R, idx)))
            lastanchor = (res, o[res])
            i += 1
            p += 1
        # pad the chain to four positions
        drop_handled = False
        while len(v) < 4:
            prevc = v[-1][1]
            # the next position holds the previous carry (as a limb), no further carry
            v.append((prevc, "0int"))
        vv = [a for a, _ in v]
        cc = [b for _, b in v]
        # summary
        body = []
        znew = "zs_%s%d" % (P, k + 1)
        zprev = "zs_%s%d" % (P, k)
        fnew = "fs_%s%d" % (P, k + 1)
        fprev = "fs_%s%d" % (P, k)
        body.append("let ghost %s = %s + %s_f * %s;" % (fnew, fprev, R, POS[k]))
        ylow = "(%s_y0 + %s_y1 * %sw() + %s_y2 * %sw2())" % (R, R, LW, R, LW)
        vval = "(%sval4(%s) + (%s) * %sw4())" % (LW, ", ".join(vv), cc[3], LW)
        uval = "%sval4(%s_u0, %s_u1, %s_u2, %s_u3)" % (LW, R, R, R, R)
        xval = "%sval4(%s_x0, %s_x1, %s_x2, %s_x3)" % (LW, R, R, R, R)
        body.append("let ghost %s = %s * (%s * %sw() + %sw4() * %s);" % (znew, POS[k], ylow, LW, LW, vval))
        cur = limbs_expr(k + 1, path == 2)
        summ = "%s == prod + %s * mm && 0 <= %s < %s && %s == %s" % (znew, fnew, fnew, POS[k + 1], znew, cur)
        body.append("proof {")
        body.append("  assert(%s) by {" % summ)
        body.append("    %slemma_mred(%s_x0, %s_x1, %s_x2, %s_x3, %s_f, %s, %s_g0, %s_y0, %s_g1, %s_y1, %s_g2, %s_y2, %s_g3);" % ((LW,) + (R,) * 5 + (MARGS,) + (R,) * 7))
        body.append("    %slemma_dist4(%s_f, %s);" % (LW, R, MARGS))
        body.append("    %slemma_prop4(%s_u0, %s_u1, %s_u2, %s_u3, %s_g3, %s, %s, %s, %s, %s, %s, %s, %s);" % (
            (LW,) + (R,) * 5 + (vv[0], cc[0], vv[1], cc[1], vv[2], cc[2], vv[3], cc[3])))
        body.append("    assert(%s == %s * (%s + %sw4() * %s));" % (zprev, POS[k], xval, LW, uval))
        body.append("    %slemma_sqround(%s, %s, %s, %s, %s_g3, %s, %s_f, mm, %s, %s, prod, %s);" % (LW, POS[k], xval, uval, ylow, R, vval, R, zprev, znew, fprev))
        # dropped carries are zero
        if path == 1:
            body.append("    %slemma_sqbound1(aa, mm, %s);" % (LW, fnew))
            body.append("    assert(%s_drop == 0);" % R)
        else:
            if k > 0:
                body.append("    assert(%s_drop == 0);" % R)
        body.append("  }")
        body.append("}")
        at(lastanchor[0], lastanchor[1], "\n".join(body))
    return "\n".join(out), i


def gen_final(L, i, path):
    """L[i] is the first `let (_, cc) = subborrow_u64(e4, M0, 0);` of the path"""
    P = "q%d" % path
    F = "%sf" % P
    out = []
    s, n, o = L[i]
    assert s.startswith("let (_, cc) = subborrow_u64(e4, M0, 0)"), s
    out.append("//@@at before_line \"let (_, cc) = subborrow_u64(e4, M0, 0);\" %d\n" % (path - 1) +
               "let ghost (%s_t0, %s_t1, %s_t2, %s_t3) = (e4 as int, e5 as int, e6 as int, e7 as int);\n" % ((F,) * 4) +
               "let ghost %s_t4 = %s;\n" % (F, "0int" if path == 1 else "e8 as int") +
               "let ghost dv_%s = lem_monty::val4(%s_t0, %s_t1, %s_t2, %s_t3) + %s_t4 * lem_monty::w4();\n" % (P, F, F, F, F, F) +
               "proof {\n    assert(zs_%s4 == dv_%s * p256());\n    lem_monty::lemma_sqbound2(aa, mm, fs_%s4, dv_%s);\n    assert(0 <= %s_t4 <= 1) by { assert(dv_%s < 2 * mm); }\n}" % (P, P, P, P, F, P))
    prev = "0int"
    for k in range(4):
        s, n, o = L[i + k]
        out.append("//@@at let cc %d\nlet ghost %s_c%d = cc as int;\nproof { assert(%s_c%d == (if %s_t%d - (M%d as int) - %s < 0 { 1int } else { 0int })); }" % (o["cc"], F, k, F, k, F, k, k, prev))
        prev = "%s_c%d" % (F, k)
    i += 4
    if path == 2:
        s, n, o = L[i]
        out.append("//@@at let cc %d\nlet ghost %s_c4 = cc as int;\nproof { assert(%s_c4 == (if %s_t4 - %s_c3 < 0 { 1int } else { 0int })); }" % (o["cc"], F, F, F, F))
        i += 1
    sel = {1: "%s_c3 == 0" % F, 2: "%s_c4 == 0" % F}[path]
    wproof = "lem_monty::lemma_borrow4(%s_t0, %s_t1, %s_t2, %s_t3, %s, %s_c0, %s_c1, %s_c2, %s_c3);\n" % ((F,) * 4 + (MARGS,) + (F,) * 4)
    wproof += "    let low = lem_monty::val4(%s_t0, %s_t1, %s_t2, %s_t3);\n" % ((F,) * 4)
    if path == 1:
        wproof += "    assert(mm < lem_monty::w4());\n    assert((%s) == (low + %s_t4 * lem_monty::w4() >= mm));\n" % (sel, F)
    else:
        wproof += "    lem_monty::lemma_sel3(low, %s_t4, mm, %s_c3, %s_c4);\n" % (F, F, F)
    wproof += "    assert(w == (if %s { 0xFFFF_FFFF_FFFF_FFFFu64 } else { 0u64 }));" % sel
    s, n, o = L[i]
    assert s.startswith("let w ="), s
    out.append("//@@at let w %d\nlet ghost %s_sel: bool = %s;\nproof {\n    %s\n}" % (o["w"], F, sel, wproof))
    i += 1
    for k in range(3):
        s, n, o = L[i + k]
        out.append("//@@at let d%d %d\nlet ghost (%s_z%d, %s_b%d) = (d%d as int, cc as int);" % (k, o["d%d" % k], F, k, F, k, k))
    out.append("//@@at line \"self.0[3] = d3;\" %d\n" % (path - 1) +
               "proof {\n"
               "    let z3 = d3 as int;\n"
               "    let s0 = if %s_sel { M0 as int } else { 0int }; let s1 = if %s_sel { M1 as int } else { 0int }; let s2 = if %s_sel { M2 as int } else { 0int }; let s3 = if %s_sel { M3 as int } else { 0int };\n" % ((F,) * 4) +
               "    let b3 = if z3 == %s_t3 - s3 - %s_b2 { 0int } else { 1int };\n" % (F, F) +
               "    lem_monty::lemma_sub4(%s_t0, %s_t1, %s_t2, %s_t3, s0, s1, s2, s3, %s_z0, %s_z1, %s_z2, z3, %s_b0, %s_b1, %s_b2, b3);\n" % ((F,) * 10) +
               "    let low = lem_monty::val4(%s_t0, %s_t1, %s_t2, %s_t3);\n" % ((F,) * 4) +
               "    assert(lem_monty::val4(s0, s1, s2, s3) == (if %s_sel { mm } else { 0int }));\n" % F +
               "    lem_monty::lemma_csub(low, %s_t4, mm, %s_sel, %s_z0, %s_z1, %s_z2, z3, b3);\n" % ((F,) * 5) +
               "    let x = l4(self.0);\n"
               "    assert(x == lem_monty::val4(%s_z0, %s_z1, %s_z2, z3));\n" % ((F,) * 3) +
               "    let dv = dv_%s;\n" % P +
               "    let k = if %s_sel { 1int } else { 0int };\n" % F +
               "    assert(dv * p256() == prod + fs_%s4 * mm);\n" % P +
               "    assert(x * p256() == prod + (fs_%s4 - k * p256()) * mm) by(nonlinear_arith)\n" % P +
               "        requires dv * p256() == prod + fs_%s4 * mm, x == dv - k * mm;\n" % P +
               "    lem_monty::lemma_mfinal(x, p256(), prod, fs_%s4, k, mm);\n" % P +
               "}")
    return "\n".join(out) + "\n"


if __name__ == "__main__":
    L = lets_of("src/backend/w64/modint.rs", IMPL, "set_square")
    idx = [i for i, (s, n, o) in enumerate(L) if s.startswith("let f = e0.wrapping_mul")]
    res = []
    for path, st in enumerate(idx, 1):
        txt, nxt = gen_path(L, st, path)
        fin = gen_final(L, nxt, path)
        init = ("//@@at before_line \"let f = e0.wrapping_mul(Self::M0I);\" %d\n" % (path - 1) +
                "let ghost (zs_q%d0, fs_q%d0) = (v8(e0, e1, e2, e3, e4, e5, e6, e7), 0int);\n" % (path, path) +
                ("let ghost e8 = 0u64;\n" if False else "") +
                "proof { assert(zs_q%d0 == prod + fs_q%d0 * mm) by(nonlinear_arith) requires zs_q%d0 == prod, fs_q%d0 == 0; }" % ((path,) * 4))
        res.append("//@@template SQ_P%d\n%s\n%s\n%s//@@endtemplate\n" % (path, init, txt, fin))
    sys.stdout.write("\n".join(res))
