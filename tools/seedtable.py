"""Print the markdown table of DESIGN.md section 9 from seeded/*/meta.json and patch.diff (written by tools/seedrun.py)."""
import os, json, re
ROOT = os.path.dirname(os.path.dirname(os.path.abspath(__file__)))
rows = []
for d in sorted(os.listdir(os.path.join(ROOT, "seeded")), key=lambda x: (int(re.sub(r"\D", "", x.split("-")[0]) or 0), x)):
    sd = os.path.join(ROOT, "seeded", d)
    mp = os.path.join(sd, "meta.json")
    if not os.path.exists(mp):
        continue
    m = json.load(open(mp))
    patch = open(os.path.join(sd, "patch.diff")).read()
    files = sorted(set(re.findall(r'^\+\+\+ b/(\S+)', patch, re.M)))
    fns = re.findall(r'^@@.*@@.*?fn (\w+)', patch, re.M)
    by = []
    for x in m.get("detail", []):
        b = x.get("backend") or ""
        if b.startswith("verus"):
            by.append("Verus obligation `%s`%s" % (x.get("obligation"), "" if x.get("input") else " (no input)"))
        elif b.startswith("kani"):
            by.append("Kani `%s`" % x.get("obligation"))
        else:
            by.append("sweep `%s`" % x.get("case"))
    seen = []
    for b in by:
        if b not in seen:
            seen.append(b)
    und = "; verifier undecided: " + m["undecided"][0][:80] if m.get("undecided") else ""
    rows.append("| %s | %s | %s | %s%s |" % (d.split("-")[0], m.get("breaks_property"), ", ".join(f.replace("src/", "") for f in files),
                                             "; ".join(seen[:3]) or ("MISSED" if not m.get("detected") else "?"), und))
print("| seed | property | file | detected by (first three) |")
print("|---|---|---|---|")
print("\n".join(rows))
print()
print("detected: %d / %d" % (sum(1 for d in os.listdir(os.path.join(ROOT, 'seeded')) if os.path.exists(os.path.join(ROOT, 'seeded', d, 'meta.json')) and json.load(open(os.path.join(ROOT, 'seeded', d, 'meta.json'))).get('detected')), len(rows)))
