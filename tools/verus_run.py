"""Run Verus on a generated unit and collect per-function results."""
import os, json, subprocess, time, hashlib, re
from . import unitgen, rsx

ROOT = os.path.dirname(os.path.dirname(os.path.abspath(__file__)))
BUILD = os.path.join(ROOT, ".build")
VERUS_TIMEOUT = int(os.environ.get("VERIF_VERUS_TIMEOUT", "900"))


# process groups of running verifier processes: killed when this process is told to terminate (e.g. by `timeout`),
# otherwise z3 children survive as orphans and keep a core busy
_LIVE_PGIDS = set()


def _kill_live(signum=None, frame=None):
    for pg in list(_LIVE_PGIDS):
        try:
            os.killpg(pg, 9)
        except Exception:
            pass
    if signum is not None:
        os._exit(143)


try:
    import signal, atexit
    signal.signal(signal.SIGTERM, _kill_live)
    signal.signal(signal.SIGINT, _kill_live)
    atexit.register(_kill_live)
except Exception:
    pass


class VerusResult:
    def __init__(self):
        self.unit = None
        self.ok = False
        self.undecided = None      # reason string when not decidable
        self.fn_results = {}       # fn short name -> dict(success, time_ms, rlimit, mode)
        self.errors = []           # list of dict(message, gen_line, fn_key, label, src)
        self.verified = 0
        self.n_errors = 0
        self.wall_s = 0.0
        self.smt_ms = 0
        self.cmd = ""
        self.cached = False
        self.raw_stderr = ""
        self.canary_ok = False
        self.assumption_scan = []
        self.seed_used = None


CANARY = "\nverus! {\nproof fn vc_canary_must_fail() ensures false {} " + rsx.MARK + "\n}\n"


def scan_assumptions(text):
    """Mechanical scan for anything that is assumed rather than proved."""
    found = []
    pats = ["assume(", "admit(", "external_body", "assume_specification",
            "exec_allows_no_decreases_clause", "external_fn_specification", "#[verifier::external"]
    lines = text.split('\n')
    for n, ln in enumerate(lines, 1):
        code = ln.split('//')[0]
        for p in pats:
            if p in code:
                desc = code.strip()
                if desc.replace(rsx.MARK, "").strip().startswith("#[") and desc.replace(rsx.MARK, "").strip().endswith("]"):
                    # attribute on its own line: name the item it is attached to
                    k = n
                    while k < len(lines) and not lines[k].strip():
                        k += 1
                    if k < len(lines):
                        desc += " " + lines[k].split('//')[0].strip()
                found.append("%s @gen:%d: %s" % (p, n, desc.replace(rsx.MARK, "").strip()[:200]))
                break
    return found


def run_unit(name, rlimit=None, extra_args=(), expanded_src=None, use_cache=True, timeout=None, portfolio=None):
    r = _run_unit_once(name, rlimit, extra_args, expanded_src, use_cache, timeout, portfolio)
    if r.undecided and "produced no JSON" in r.undecided:
        # another check working on the same unit file at the same moment: run again
        time.sleep(2)
        r = _run_unit_once(name, rlimit, extra_args, expanded_src, use_cache, timeout, portfolio)
    return r


def _run_unit_once(name, rlimit=None, extra_args=(), expanded_src=None, use_cache=True, timeout=None, portfolio=None):
    u = unitgen.generate(name, expanded_src=expanded_src)
    r = VerusResult()
    r.unit = u
    os.makedirs(os.path.join(BUILD, "units"), exist_ok=True)
    path = os.path.join(BUILD, "units", name + ".rs")
    text = u.text + CANARY
    with open(path + ".tmp%d" % os.getpid(), "w") as f:
        f.write(text)
    os.replace(path + ".tmp%d" % os.getpid(), path)     # atomic: a concurrent check never reads a half-written unit
    r.assumption_scan = scan_assumptions(u.text)
    if u.errors:
        r.undecided = "extraction: " + "; ".join(u.errors)
        return r
    args = ["verus", path, "--output-json", "--time", "--error-format=json",
            "--num-threads", os.environ.get("VERIF_VERUS_THREADS", "8")]
    if rlimit:
        args += ["--rlimit", str(rlimit)]
    args += list(extra_args)
    r.cmd = " ".join(args)
    key = hashlib.sha256((text + "\0" + " ".join(args[2:])).encode()).hexdigest()
    cdir = os.path.join(BUILD, "cache")
    os.makedirs(cdir, exist_ok=True)
    cpath = os.path.join(cdir, key + ".json")
    t0 = time.time()
    cached = None
    if use_cache and os.path.exists(cpath) and not os.environ.get("VERIF_NO_CACHE"):
        try:
            with open(cpath) as f:
                cached = json.load(f)
            if "verification-results" not in cached.get("out", ""):
                cached = None      # an interrupted or unreadable run was stored: do not trust it
        except Exception:
            cached = None
    if cached is not None:
        d = cached
        out, err, rc = d["out"], d["err"], d["rc"]
        r.cached = True
        r.wall_s = d.get("wall_s", 0.0)
    else:
        seeds = list(portfolio) if portfolio else [None]
        procs = []
        tmpd = os.path.join(BUILD, "run")
        os.makedirs(tmpd, exist_ok=True)
        for sd in seeds:
            a2 = list(args)
            if sd is not None:
                a2 += ["--smt-option", "smt.random_seed=%d" % sd, "--smt-option", "sat.random_seed=%d" % sd]
            # output goes to files: a pipe that nobody drains while polling blocks verus once it is full
            base = os.path.join(tmpd, "%s.%s.%d" % (name, sd, os.getpid()))
            fo, fe = open(base + ".out", "w+"), open(base + ".err", "w+")
            # large unrolled bodies (BLAKE2s) overflow the default thread stack of rust_verify
            env2 = dict(os.environ, RUST_MIN_STACK=os.environ.get("RUST_MIN_STACK", "67108864"))
            pr0 = subprocess.Popen(a2, stdout=fo, stderr=fe, text=True, start_new_session=True, cwd=os.path.join(BUILD, "units"), env=env2)
            _LIVE_PGIDS.add(pr0.pid)
            procs.append((sd, pr0, fo, fe, base))
        deadline = t0 + (timeout or VERUS_TIMEOUT)
        finished = {}
        winner = None

        def _collect(pr, fo, fe):
            fo.flush(); fe.flush()
            fo.seek(0); fe.seek(0)
            return fo.read(), fe.read(), pr.returncode

        while time.time() < deadline and len(finished) < len(procs) and winner is None:
            for sd, pr, fo, fe, base in procs:
                if sd in finished:
                    continue
                if pr.poll() is not None:
                    o, e, c = _collect(pr, fo, fe)
                    finished[sd] = (o, e, c)
                    # success = exactly one error (the canary) and nothing else
                    try:
                        jo = json.loads(o[o.index('{'):])
                        vr0 = jo.get("verification-results", {})
                        if vr0.get("errors") == 1 and not vr0.get("encountered-vir-error") and "vc_canary_must_fail" in e:
                            nerr = sum(1 for ln in e.split('\n') if ln.startswith('{') and '"level":"error"' in ln and 'aborting due to' not in ln)
                            if nerr == 1:
                                winner = sd
                                break
                    except Exception:
                        pass
            if winner is None:
                time.sleep(0.2)
        for sd, pr, fo, fe, base in procs:
            if pr.poll() is None:
                # verus starts z3 children: kill the whole process group, not just verus
                try:
                    os.killpg(pr.pid, 9)
                except Exception:
                    pr.kill()
                try:
                    pr.wait(timeout=5)
                except Exception:
                    pass
            _LIVE_PGIDS.discard(pr.pid)
            fo.close(); fe.close()
            for ext in (".out", ".err"):
                try:
                    os.remove(base + ext)
                except OSError:
                    pass
        r.wall_s = time.time() - t0
        if winner is not None:
            out, err, rc = finished[winner]
            r.seed_used = winner
        elif finished:
            # no success: prefer a run that produced definite failed obligations
            pick = None
            for sd, (o, e, c) in finished.items():
                if '"level":"error"' in e and ("not satisfied" in e or "assertion failed" in e or "possible arithmetic" in e):
                    pick = sd
                    break
            if pick is None:
                pick = list(finished.keys())[0]
            out, err, rc = finished[pick]
            r.seed_used = pick
        else:
            r.undecided = "verus timeout after %ds (the unit verifies in a fraction of that on the unchanged tree: a proof that no longer goes through)" % (timeout or VERUS_TIMEOUT)
            return r
        if "verification-results" in out:
            with open(cpath + ".tmp%d" % os.getpid(), "w") as f:
                json.dump({"out": out, "err": err, "rc": rc, "wall_s": r.wall_s}, f)
            os.replace(cpath + ".tmp%d" % os.getpid(), cpath)
    r.raw_stderr = err
    try:
        o = json.loads(out[out.index('{'):])
    except Exception:
        r.undecided = "verus produced no JSON: " + (err[-400:] if err else out[-400:])
        return r
    vr = o.get("verification-results", {})
    r.verified = vr.get("verified", 0)
    r.n_errors = vr.get("errors", 0)
    smt = o.get("times-ms", {}).get("smt", {})
    r.smt_ms = smt.get("smt-run", 0)
    for mod in smt.get("smt-run-module-times", []):
        for fb in mod.get("function-breakdown", []):
            r.fn_results[fb["function"]] = dict(success=fb.get("success"), time_ms=fb.get("time"),
                                                rlimit=fb.get("rlimit"), mode=fb.get("mode:"))
    # parse diagnostics
    hard = []
    for ln in err.split('\n'):
        ln = ln.strip()
        if not ln.startswith('{'):
            continue
        try:
            d = json.loads(ln)
        except Exception:
            continue
        if d.get("level") != "error":
            continue
        msg = d.get("message", "")
        if msg.startswith("aborting due to"):
            continue
        spans = d.get("spans", [])
        prim = None
        for s in spans:
            if s.get("is_primary"):
                prim = s
        if prim is None and spans:
            prim = spans[0]
        gl = prim["line_start"] if prim else None
        # function: use any span falling inside a woven fn
        e = None
        for s in spans:
            e = unitgen.fn_at_line(u, s["line_start"])
            if e:
                break
        rec = dict(message=msg, gen_line=gl, fn_key=e.key if e else None,
                   fn_name=e.name if e else None,
                   label=(prim or {}).get("label"),
                   text=((prim or {}).get("text") or [{}])[0].get("text", "").strip() if prim else "",
                   props=e.props if e else [], cases=e.cases if e else [],
                   src="%s:%s" % (e.file, e.src_line) if e else None)
        if e is None and gl is not None:
            mm = re.search(r'/\*@props ([A-Z0-9,]+) ([^*]*)\*/', text.split('\n')[gl - 1])
            if mm:
                rec["props"] = mm.group(1).split(',')
                rec["fn_name"] = mm.group(2).strip()
                rec["fn_key"] = "tagged:" + mm.group(2).strip()
        if gl is not None and "vc_canary_must_fail" in text.split('\n')[gl - 1]:
            r.canary_ok = True
            continue
        r.errors.append(rec)
    # classify
    kinds_undecided = ("not supported", "rlimit", "Resource limit", "unsupported", "cannot find", "mismatched types",
                       "expected", "unresolved", "timed out", "is not supported")
    real = []
    for e in r.errors:
        m = e["message"]
        if any(k in m for k in ("postcondition not satisfied", "precondition not satisfied", "assertion failed",
                                "invariant not satisfied", "possible arithmetic underflow/overflow",
                                "possible bit shift underflow/overflow", "possible division by zero",
                                "decreases not satisfied", "index out of bounds", "may panic", "loop invariant",
                                "unreachable", "out of range", "possible", "which evaluates to false")):
            e["kind"] = "failed-obligation"
            real.append(e)
        elif "rlimit" in m.lower() or "resource limit" in m.lower():
            e["kind"] = "rlimit"
        else:
            e["kind"] = "tool"
    if not r.canary_ok and not any(e["kind"] == "tool" for e in r.errors):
        # canary did not fire although verification ran: runner is swallowing errors
        if vr.get("verified") is not None and not vr.get("encountered-vir-error"):
            r.undecided = "canary did not fail (runner cannot see failures)"
            return r
    tool = [e for e in r.errors if e["kind"] in ("tool", "rlimit")]
    if tool and not real:
        r.undecided = "; ".join("%s (%s)" % (e["message"][:200], e.get("fn_name")) for e in tool[:5])
        return r
    r.ok = (len(r.errors) == 0)
    return r


if __name__ == "__main__":
    import sys
    name = sys.argv[1]
    rl = int(sys.argv[2]) if len(sys.argv) > 2 else None
    import shlex
    xa = tuple(shlex.split(os.environ.get("VERUS_EXTRA", "")))   # e.g. VERUS_EXTRA='--smt-option smt.arith.solver=6'
    r = run_unit(name, rlimit=rl, extra_args=xa, use_cache=False)
    print("unit", name, "ok=", r.ok, "undecided=", r.undecided, "verified=", r.verified, "errors=", r.n_errors,
          "wall=%.1fs smt=%dms" % (r.wall_s, r.smt_ms), "canary_ok=", r.canary_ok)
    for k, v in sorted(r.fn_results.items()):
        if 'canary' in k: continue
        print("   %-50s %s %5dms rlimit=%s" % (k, "ok  " if v["success"] else "FAIL", v["time_ms"], v["rlimit"]))
    for e in r.errors:
        print("  ERR [%s] %s | fn=%s gen:%s | %s | %s" % (e["kind"], e["message"][:300], e["fn_name"], e["gen_line"], e["label"], e["text"][:120]))
