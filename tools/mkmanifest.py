"""Write MANIFEST.json from tools/registry.py (single source of truth)."""
import json, os, subprocess
from . import registry
ROOT = os.path.dirname(os.path.dirname(os.path.abspath(__file__)))

def main():
    hooks = subprocess.run(["git", "-C", "/repo", "log", "--format=%H %s"], capture_output=True, text=True).stdout.strip().split("\n")
    hook_commits = [l.split()[0] for l in hooks if " verif hooks" in l or "verif hook" in l]
    checks = []
    for pid, sp in sorted(registry.PROPS.items()):
        checks.append(dict(
            property_id=pid,
            quick_cmd="./check %s --tier quick" % pid,
            thorough_cmd="./check %s --tier thorough" % pid,
            evidence_file="/verif/evidence/%s.json" % pid,
            replay_cmd_template="./check --replay {path}",
            engine="contracts",
            level_claimed=dict(category=sp.get("level", "proof"),
                               text=sp.get("level_text", "No contract of this framework reaches the functions this property depends on yet. The check is the labelled stand-in only: executable postconditions (independent big-integer / from-the-standard oracles) evaluated on boundary-biased inputs against the real code. It can find violations; it proves nothing."),
                               design_ref=sp.get("design_ref", "DESIGN.md section 7")),
            level_note=sp.get("level_note", "stand-in sweep only; nothing discharged by a verifier for this property"),
            technique=sp.get("technique", "contract-based deductive verification (Verus on extracted real functions; Kani/CBMC full-domain harnesses)" if sp.get("level", "proof") == "proof" else "executable postconditions, directed search (stand-in for contracts not yet written; not deductive)"),
        ))
    na = [dict(property_id=k, reason=v) for k, v in sorted(registry.NOT_APPLICABLE.items())]
    allp = [json.loads(l)["id"] for l in open(os.path.join(ROOT, "properties.jsonl")) if l.strip()]
    for pid in allp:
        if pid not in registry.PROPS and pid not in registry.NOT_APPLICABLE:
            na.append(dict(property_id=pid, reason="not claimed yet: no unit of this framework reaches the functions this property depends on at this commit (see DESIGN.md section 7 for the plan)"))
    m = dict(
        version=1,
        setup_cmd="./check --setup",
        hooks=dict(guard="pornin_crrl_verif",
                   enable="RUSTFLAGS='--cfg pornin_crrl_verif' (set by harness/.cargo/config.toml and by tools/kani_run.py)",
                   baseline_off_cmd="cd /repo && cargo test --workspace --no-fail-fast --offline",
                   source_commits=hook_commits, add_only=True),
        engines=[dict(name="contracts", path="/verif/check", serves_properties=sorted(registry.PROPS.keys()),
                      kind_free_text="Verus contracts woven onto functions extracted from /repo on every run (erasure-checked), Kani/CBMC harnesses on the real crate, executable-postcondition replay")],
        checks=checks,
        notes="See DESIGN.md. exit 0 held / 1 VIOLATION / 2 undecided (tool limit, lost anchor) - never an alarm.",
        not_applicable=na,
    )
    with open(os.path.join(ROOT, "MANIFEST.json"), "w") as f:
        json.dump(m, f, indent=1)
    print("MANIFEST.json written:", len(checks), "checks,", len(m["not_applicable"]), "not applicable")

if __name__ == "__main__":
    main()
