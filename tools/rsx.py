"""rsx: comment/string-aware slicing of Rust source, cfg resolution, contract
weaving and the erasure check.

Everything here is purely textual and deterministic; it never rewrites an
executable token of a function body except for the transformations listed in
TRANSFORMS (each of which the erasure check undoes or accounts for).
"""
import re, hashlib

TRANSFORMS = [
    "comments (line, block, doc) dropped",
    "outer attributes on the extracted item dropped (#[inline], #[inline(always)], #[allow(..)], #[cfg(..)] after it was evaluated)",
    "items/blocks/statements under a #[cfg(..)] that evaluates to false for the stated configuration dropped; a block under a true #[cfg] keeps its braces",
    "visibility (pub / pub(crate) / private) normalised to `pub` (no qualifier inside trait impls)",
    "`const fn` -> `fn` (Verus const fn support is partial)",
    "return type `-> T` rewritten to `-> (name: T)` when the contract names the result",
    "function renamed only when the template asks for it with `as <name>` (used to place two cfg arms side by side)",
    "`debug_assert!(e);` and `assert!(e);` -> `assert(e);` (Verus spelling: the run-time check becomes the proof obligation that the panic is unreachable under the contract's precondition)",
    "items (struct/const/type): attributes dropped except that `#[derive(.. Clone, Copy ..)]` is re-emitted as `#[derive(Clone, Copy)]`, visibility normalised to `pub`; with option `pubfields` private struct fields are declared `pub` (a datatype with private fields is opaque to Verus specifications); with option `w64args` a const initialised by `T::w64be(..)`/`w64le(..)` with four literal limbs is emitted as an opaque constant (compile-time Montgomery conversion) together with a generated spec function `<NAME>_w64()` holding the integer those literals denote; with option `specinit` an associated const with an arithmetic initialiser is emitted opaque together with `<NAME>_init()` = the initialiser text as a spec function over mathematical integers and the declared axiom that the const equals it when in range (the initialiser's overflow check belongs to the compiler: a bad instantiation does not compile); with option `limbs`, a const initialised by `T::w64be(l3,l2,l1,l0)` / `T::w64le(l0,l1,l2,l3)` with four literal limbs is rewritten to the tuple-struct literal `GF255([l0,l1,l2,l3])` (w64be/w64le are proved in the same unit to build exactly that array)",
    "anonymous loop pattern: `for _ in <range>` -> `for vloop<k> in <range>` (k-th such loop of the function) so that a loop invariant can name the counter",
    "only with option `nested`: the impl block is looked up inside the body of a metavariable-free `macro_rules!` definition (define_frost_core, define_lms_core: plain Rust text that every instantiating module expands verbatim); the names it takes from the instantiating module are declared in the unit",
    "only with option `destruct` (this Verus does not support destructuring assignment): a statement `(p0, p1, ..) = e;` -> `let (vdaK_0, vdaK_1, ..) = e; p0 = vdaK_0; p1 = vdaK_1; ..` (K = ordinal of the statement; a `_` place stays `_` in the pattern and gets no assignment). This is the desugaring the Rust reference gives for destructuring assignment: the right-hand side is evaluated first, then the places are assigned left to right",
    "only with option `localconst` (a const item inside a function body whose initialiser calls a const fn cannot be evaluated in specifications by this Verus): `const NAME: T = e;` at statement position inside the body -> `let NAME: T = e;` (same value, computed when the statement is reached instead of at compile time)",
    "only with option `nestedret=<r>`: for every fn item nested inside the extracted function body, `-> T` -> `-> (<r>: T)` so that the contract woven at anchor `nested <fn>` can name its result (nested fn items are otherwise kept in place, verbatim)",
    "only with option `nodecreases`: the marked attribute line `#[verifier::exec_allows_no_decreases_clause]` is put before the function: Verus then does not ask for a termination measure on its loops, i.e. termination is NOT proved for that function (used for retry loops that end with probability 1 only); nothing in the body changes",
    "only with option `fwdloops=T` (this Verus rejects `continue` inside `for` loops): `for v in a..b {` (a, b identifiers, literals or parenthesised expressions) -> `let mut vforK: T = a; while vforK < b { let v = vforK; vforK = vforK + 1;` (same iteration sequence; the counter is advanced before the body so that `continue` reaches the next value; the body is untouched). Applied after `revloops`, so `.rev()` loops keep their own rewriting",
    "only with option `macroinst=<macro>@<file>[#k]` (functions and items that live in the body of a `macro_rules!` arm WITH metavariables, e.g. define_gfgen): before slicing, every `$name` of the arm is replaced by the corresponding argument tokens of the k-th invocation `<macro>!(..)` found in <file>, and `$crate` by `crate` - the substitution rustc performs for `ident` / `expr` fragments; parameter names and arguments are both read from the sources; arms with repetitions are refused. Slicing, the other transformations and the erasure check then work on the substituted text",
    "only with option `lebytes` (this Verus cannot attach a specification to the std byte-order conversions, whose signatures use the const expression `[u8; size_of::<T>()]`): `<int>::from_le_bytes(` -> `<int>_from_le_bytes(`, `<int>::from_be_bytes(` -> `<int>_from_be_bytes(` (int in u16/u32/u64/u128), and the method calls `.to_le_bytes()` / `.to_be_bytes()` -> `.vto_le_bytes()` / `.vto_be_bytes()`; the twins are declared in contracts/spec/lebytes_decl.vrs with the std semantics as ASSUMED contracts (trusted: std)",
    "only with option `revloops=<T>` (this Verus has no specification for Rev<Range>): `for v in (a..b).rev() {` -> `let mut vrev<k>: T = b; while vrev<k> > a { vrev<k> = vrev<k> - 1; let v = vrev<k>;` (k-th such loop; a, b are the literal or identifier bounds as written; the loop body is unchanged; same iteration sequence b-1, b-2, .., a)",
]

# ---------------------------------------------------------------- tokenizer

_tok_re = re.compile(r'''
    (?P<ws>\s+)
  | (?P<lc>//[^\n]*)
  | (?P<bc>/\*)
  | (?P<rstr>b?r(?P<h>\#*)")
  | (?P<str>b?")
  | (?P<chr>b?'(?:\\(?:x[0-9a-fA-F]{2}|u\{[0-9a-fA-F_]+\}|.)|[^\\'])')
  | (?P<life>'[A-Za-z_][A-Za-z0-9_]*)
  | (?P<num>[0-9][0-9a-zA-Z_]*(?:\.[0-9][0-9a-zA-Z_]*)?)
  | (?P<id>[A-Za-z_][A-Za-z0-9_]*!?)
  | (?P<op>::|->|=>|==|!=|<=|>=|&&|\|\||<<=|>>=|<<|>>|\+=|-=|\*=|/=|%=|\^=|&=|\|=|\.\.=|\.\.\.|\.\.|.)
''', re.X | re.S)


class Tok:
    __slots__ = ("kind", "text", "start", "end")

    def __init__(self, kind, text, start, end):
        self.kind, self.text, self.start, self.end = kind, text, start, end

    def __repr__(self):
        return "Tok(%s,%r,%d)" % (self.kind, self.text, self.start)


def tokenize(src, keep_trivia=False):
    """Return list of Tok. Trivia (ws, comments) dropped unless keep_trivia."""
    out = []
    i, n = 0, len(src)
    while i < n:
        m = _tok_re.match(src, i)
        if not m:
            raise ValueError("tokenize: stuck at %d: %r" % (i, src[i:i + 20]))
        k = m.lastgroup
        if k == 'h':
            k = 'rstr'
        j = m.end()
        if k == 'bc':
            depth = 1
            while depth and j < n:
                if src.startswith('/*', j):
                    depth += 1; j += 2
                elif src.startswith('*/', j):
                    depth -= 1; j += 2
                else:
                    j += 1
            k = 'bc'
        elif k == 'rstr':
            hashes = m.group('h') or ''
            endm = '"' + hashes
            e = src.find(endm, j)
            j = e + len(endm)
            k = 'str'
        elif k == 'str':
            while j < n and src[j] != '"':
                j += 2 if src[j] == '\\' else 1
            j += 1
        elif k == 'id' and src[i:j].endswith('!'):
            # `x!=` is not a macro bang
            if j < n and src[j] == '=':
                j -= 1
        if k in ('ws', 'lc', 'bc'):
            if keep_trivia:
                out.append(Tok(k, src[i:j], i, j))
        else:
            out.append(Tok(k, src[i:j], i, j))
        i = j
    return out


OPEN = {'(': ')', '[': ']', '{': '}'}
CLOSE = {')', ']', '}'}


def match_close(toks, i):
    """toks[i] is an opener; return index of its matching closer."""
    depth = 0
    for j in range(i, len(toks)):
        t = toks[j].text
        if toks[j].kind == 'op':
            if t in OPEN:
                depth += 1
            elif t in CLOSE:
                depth -= 1
                if depth == 0:
                    return j
    raise ValueError("unbalanced from token %d (%r)" % (i, toks[i]))


def norm(s):
    """Normalised token string of a source fragment (for header matching)."""
    return ' '.join(t.text for t in tokenize(s))


# ---------------------------------------------------------------- cfg eval

DEFAULT_FEATURES = {
    "std", "alloc", "omnes", "decaf448", "ed25519", "ed448", "frost", "jq255e",
    "jq255s", "lms", "p256", "ristretto255", "secp256k1", "gls254", "x25519",
    "x448", "modint256", "gf255", "gfgen", "gf255e", "gf255s", "gf25519",
    "gfp256", "gfsecp256k1", "gf448", "gfb254", "blake2s",
}


class Cfg:
    """A build configuration against which #[cfg(..)] is evaluated."""

    def __init__(self, name="default", features=None, target_arch="x86_64",
                 pointer_width="64", target_features=("sse", "sse2", "fxsr"),
                 flags=("pornin_crrl_verif",), portable=False):
        self.name = name
        self.features = set(DEFAULT_FEATURES if features is None else features)
        # portable=True selects the non-x86_64 arms of the carry primitives
        # (the only arms a verifier can see into); recorded as an assumption.
        self.target_arch = "portable" if portable else target_arch
        self.pointer_width = pointer_width
        self.target_features = set(target_features)
        self.flags = set(flags)

    def eval(self, toks):
        """toks: token list of the predicate inside cfg( ... )."""
        pos = [0]

        def peek():
            return toks[pos[0]].text if pos[0] < len(toks) else None

        def nxt():
            pos[0] += 1
            return toks[pos[0] - 1].text

        def pred():
            name = nxt()
            if name in ('any', 'all', 'not'):
                assert nxt() == '('
                vals = []
                while peek() != ')':
                    vals.append(pred())
                    if peek() == ',':
                        nxt()
                nxt()
                if name == 'any':
                    return any(vals)
                if name == 'all':
                    return all(vals)
                return not vals[0]
            if peek() == '=':
                nxt()
                v = nxt().strip('"')
                if name == 'feature':
                    return v in self.features
                if name == 'target_arch':
                    return v == self.target_arch
                if name == 'target_pointer_width':
                    return v == self.pointer_width
                if name == 'target_feature':
                    return v in self.target_features
                if name == 'target_os':
                    return v == 'linux'
                raise ValueError("cfg key %s" % name)
            if name == 'test':
                return False
            if name == 'debug_assertions':
                return True
            return name in self.flags

        return pred()


def _attr_span(toks, i):
    """toks[i] is '#'; returns (end_index_exclusive, is_cfg, pred_tokens)."""
    j = i + 1
    if toks[j].text == '!':
        j += 1
    assert toks[j].text == '[', toks[j]
    e = match_close(toks, j)
    inner = toks[j + 1:e]
    if inner and inner[0].text == 'cfg' and inner[1].text == '(':
        return e + 1, True, inner[2:-1]
    return e + 1, False, None


def _item_end(toks, i):
    """Index (exclusive) of the end of the item/statement/block starting at
    toks[i] (after attributes): up to matching `}` of first `{` at depth 0 or
    first `;` at depth 0, whichever comes first."""
    depth = 0
    j = i
    while j < len(toks):
        t = toks[j]
        if t.kind == 'op':
            if t.text in OPEN:
                if t.text == '{' and depth == 0:
                    e = match_close(toks, j)
                    # `unsafe { .. }` / `{ .. }` / fn body; swallow a trailing ';'? no
                    return e + 1
                depth += 1
            elif t.text in CLOSE:
                depth -= 1
            elif t.text == ';' and depth == 0:
                return j + 1
            elif t.text == ',' and depth == 0:
                return j + 1
        j += 1
    return j


def resolve_cfg(src, cfg, drop_attrs=True):
    """Return src with false-cfg items removed and all outer attributes removed
    (if drop_attrs) and comments removed.  Layout (newlines) otherwise kept."""
    toks = tokenize(src, keep_trivia=True)
    sig = [k for k, t in enumerate(toks) if t.kind not in ('ws', 'lc', 'bc')]
    stoks = [toks[k] for k in sig]
    kill = [False] * len(stoks)
    i = 0
    while i < len(stoks):
        t = stoks[i]
        if t.text == '#' and i + 1 < len(stoks) and stoks[i + 1].text in ('[', '!'):
            e, is_cfg, pred = _attr_span(stoks, i)
            if is_cfg and not cfg.eval(pred):
                # skip following attributes too
                k = e
                while stoks[k].text == '#':
                    k, _, _ = _attr_span(stoks, k)
                k = _item_end(stoks, k)
                for x in range(i, k):
                    kill[x] = True
                i = k
                continue
            if drop_attrs:
                for x in range(i, e):
                    kill[x] = True
            i = e
            continue
        i += 1
    out = []
    killset = set(sig[k] for k in range(len(stoks)) if kill[k])
    for k, t in enumerate(toks):
        if t.kind in ('lc', 'bc'):
            continue
        if k in killset:
            continue
        out.append(t.text)
    s = ''.join(out)
    # collapse blank-line runs
    s = re.sub(r'[ \t]+\n', '\n', s)
    s = re.sub(r'\n{3,}', '\n\n', s)
    return s


# ---------------------------------------------------------------- slicing

class SliceError(Exception):
    pass


def find_impl_blocks(src, header, anydepth=False):
    """Yield (body_start, body_end) char offsets of every `impl` block whose
    header (text between `impl` and `{`) normalises to `header`. With anydepth the block may sit inside other
    braces (the body of a metavariable-free `macro_rules!` such as define_frost_core / define_lms_core)."""
    toks = tokenize(src)
    want = norm(header)
    res = []
    depth = 0
    for i, t in enumerate(toks):
        if t.kind == 'op' and t.text in OPEN:
            depth += 1
        elif t.kind == 'op' and t.text in CLOSE:
            depth -= 1
        elif t.kind == 'id' and t.text == 'impl' and (depth == 0 or anydepth):
            j = i
            while not (toks[j].kind == 'op' and toks[j].text == '{'):
                j += 1
            hdr = ' '.join(x.text for x in toks[i:j])
            if hdr == want:
                e = match_close(toks, j)
                res.append((toks[j].end, toks[e].start))
    return res


def find_fn(src, name, nth=0, within=None):
    """Return (start, end) char offsets of the nth `fn name` item in src
    (or within the (start,end) region), including leading attributes and
    qualifiers (pub, const, unsafe, extern)."""
    toks = tokenize(src)
    lo, hi = within if within else (0, len(src))
    hits = []
    for i, t in enumerate(toks):
        if t.start < lo or t.end > hi:
            continue
        if t.kind == 'id' and t.text == 'fn' and i + 1 < len(toks) and toks[i + 1].text == name:
            hits.append(i)
    if nth >= len(hits):
        raise SliceError("fn %s #%d not found" % (name, nth))
    i = hits[nth]
    # body end
    j = i
    depth = 0
    while True:
        t = toks[j]
        if t.kind == 'op' and t.text in ('(', '['):
            depth += 1
        elif t.kind == 'op' and t.text in (')', ']'):
            depth -= 1
        elif t.kind == 'op' and t.text == '{' and depth == 0:
            break
        elif t.kind == 'op' and t.text == ';' and depth == 0:
            raise SliceError("fn %s has no body" % name)
        j += 1
    e = match_close(toks, j)
    # walk back over qualifiers and attributes
    s = i
    while s > 0:
        p = toks[s - 1]
        if p.kind == 'id' and p.text in ('pub', 'const', 'unsafe', 'extern', 'async'):
            s -= 1
            continue
        if p.kind == 'op' and p.text == ')' :
            # pub(crate)
            k = s - 1
            d = 0
            while True:
                if toks[k].text == ')':
                    d += 1
                elif toks[k].text == '(':
                    d -= 1
                    if d == 0:
                        break
                k -= 1
            if k > 0 and toks[k - 1].text == 'pub':
                s = k - 1
                continue
            break
        if p.kind == 'op' and p.text == ']':
            k = s - 1
            d = 0
            while True:
                if toks[k].text == ']':
                    d += 1
                elif toks[k].text == '[':
                    d -= 1
                    if d == 0:
                        break
                k -= 1
            if k > 0 and toks[k - 1].text == '#':
                s = k - 1
                continue
            break
        if p.kind == 'str':  # extern "C"
            s -= 1
            continue
        break
    return toks[s].start, toks[e].end


def find_item(src, kind, name, within=None, nth=0):
    """Locate the nth `struct|enum|const|static|type name` item (source order); returns (start,end)."""
    toks = tokenize(src)
    lo, hi = within if within else (0, len(src))
    seen = 0
    for i, t in enumerate(toks):
        if t.start < lo or t.end > hi:
            continue
        if t.kind == 'id' and t.text == kind and toks[i + 1].text == name:
            seen += 1
            if seen <= nth:
                continue
            s = i
            while s > 0 and (toks[s - 1].text in ('pub', 'crate') or toks[s-1].text in ('(', ')')):
                s -= 1
            while s > 1 and toks[s - 1].text == ']':
                k = s - 1
                d = 0
                while True:
                    if toks[k].text == ']':
                        d += 1
                    elif toks[k].text == '[':
                        d -= 1
                        if d == 0:
                            break
                    k -= 1
                if toks[k - 1].text == '#':
                    s = k - 1
                else:
                    break
            if kind in ('const', 'static', 'type'):
                # ends at the first ';' at depth 0 (initialisers may contain braces)
                d = 0
                e = i
                while e < len(toks):
                    x = toks[e]
                    if x.kind == 'op' and x.text in OPEN:
                        d += 1
                    elif x.kind == 'op' and x.text in CLOSE:
                        d -= 1
                    elif x.kind == 'op' and x.text == ';' and d == 0:
                        break
                    e += 1
                e += 1
            else:
                e = _item_end(toks, i)
            return toks[s].start, toks[e - 1].end
    raise SliceError("%s %s not found" % (kind, name))


# ---------------------------------------------------------------- weaving

MARK = "/*@vc*/"


def _mark_lines(text, indent="    "):
    out = []
    for ln in text.rstrip('\n').split('\n'):
        out.append((indent + ln.rstrip()).ljust(1) + " " + MARK)
    return '\n'.join(out) + '\n'


class Woven:
    def __init__(self, text, src_tokens, name):
        self.text = text
        self.src_tokens = src_tokens
        self.name = name


def normalise_fn(fn_src, cfg, rename=None, ret_name=None, debug_assert_verus=True, vis="pub ", revloops=None, lebytes=False, destruct=False, localconst=False, nestedret=None, fwdloops=None):
    """Apply the TRANSFORMS to a raw fn slice; returns (text, undo) where undo
    is info the erasure check needs."""
    s = resolve_cfg(fn_src, cfg)
    toks = tokenize(s)
    # locate `fn`
    fi = next(i for i, t in enumerate(toks) if t.kind == 'id' and t.text == 'fn')
    orig_name = toks[fi + 1].text
    # header = tokens before fn
    head_end = toks[fi].start
    s = vis + s[head_end:]
    if rename:
        s = re.sub(r'^' + re.escape(vis) + r'fn ' + re.escape(orig_name) + r'\b', vis + 'fn ' + rename, s, count=1)
    if ret_name:
        toks = tokenize(s)
        # find `->` at paren depth 0 before body `{`
        depth = 0
        arrow = None
        for i, t in enumerate(toks):
            if t.kind == 'op' and t.text in ('(', '['):
                depth += 1
            elif t.kind == 'op' and t.text in (')', ']'):
                depth -= 1
            elif t.kind == 'op' and t.text == '->' and depth == 0:
                arrow = i
            elif t.kind == 'op' and t.text == '{' and depth == 0:
                body = i
                break
        if arrow is None:
            raise SliceError("ret_name given but fn %s returns ()" % orig_name)
        # return type ends at `where` or body
        k = arrow + 1
        d = 0
        while k < body:
            if toks[k].kind == 'id' and toks[k].text == 'where' and d == 0:
                break
            k += 1
        ty_s, ty_e = toks[arrow + 1].start, toks[k - 1].end
        s = s[:ty_s] + "(" + ret_name + ": " + s[ty_s:ty_e] + ")" + s[ty_e:]
    if debug_assert_verus:
        s = re.sub(r'\bdebug_assert!\(', 'assert(', s)
        s = re.sub(r'\bassert!\(', 'assert(', s)
    cnt = [0]
    def _nm(m):
        cnt[0] += 1
        return "for vloop%d in" % (cnt[0] - 1)
    s = re.sub(r'\bfor\s+_\s+in\b', _nm, s)
    if lebytes:
        s = re.sub(r'\b(u16|u32|u64|u128)\s*::\s*from_(le|be)_bytes\s*\(', r'\1_from_\2_bytes(', s)
        s = re.sub(r'\.\s*to_(le|be)_bytes\s*\(', r'.vto_\1_bytes(', s)
    if revloops:
        rc = [0]
        def _rv(m):
            k = rc[0]
            rc[0] += 1
            return "let mut vrev%d: %s = %s; while vrev%d > %s { vrev%d = vrev%d - 1; let %s = vrev%d;" % (
                k, revloops, m.group(3), k, m.group(2), k, k, m.group(1), k)
        s = re.sub(r'\bfor\s+(\w+)\s+in\s+\(\s*(\w+|\([^()]*\))\s*\.\.\s*(\w+|\([^()]*\))\s*\)\s*\.\s*rev\s*\(\s*\)\s*\{', _rv, s)
    if fwdloops:
        fc = [0]
        def _fw(m):
            k = fc[0]
            fc[0] += 1
            return "let mut vfor%d: %s = %s; while vfor%d < %s { let %s = vfor%d; vfor%d = vfor%d + 1;" % (
                k, fwdloops, m.group(2), k, m.group(3), m.group(1), k, k, k)
        s = re.sub(r'\bfor\s+(\w+)\s+in\s+(\w+|\([^()]*\))\s*\.\.\s*(\w+|\([^()]*\))\s*\{', _fw, s)
    if destruct:
        s = _destruct_text(s)
    if localconst:
        toks = tokenize(s)
        body = next(i for i, t in enumerate(toks) if t.kind == 'op' and t.text == '{')
        for i in range(len(toks) - 1, body, -1):
            t = toks[i]
            if t.kind == 'id' and t.text == 'const' and toks[i - 1].kind == 'op' and toks[i - 1].text in (';', '{', '}') \
                    and toks[i + 1].kind == 'id' and toks[i + 2].kind == 'op' and toks[i + 2].text == ':':
                s = s[:t.start] + 'let' + s[t.end:]
    if nestedret:
        toks = tokenize(s)
        first = True
        edits = []
        for i, t in enumerate(toks):
            if t.kind == 'id' and t.text == 'fn':
                if first:
                    first = False
                    continue
                d = 0
                arrow = None
                j = i
                while True:
                    x = toks[j]
                    if x.kind == 'op' and x.text in ('(', '['):
                        d += 1
                    elif x.kind == 'op' and x.text in (')', ']'):
                        d -= 1
                    elif x.kind == 'op' and x.text == '->' and d == 0:
                        arrow = j
                    elif x.kind == 'op' and x.text == '{' and d == 0:
                        break
                    j += 1
                if arrow is not None:
                    edits.append((toks[arrow + 1].start, toks[j - 1].end))
        for a, b in reversed(edits):
            s = s[:a] + "(" + nestedret + ": " + s[a:b] + ")" + s[b:]
    return s, orig_name


def _destruct_text(s):
    """`(p0, p1, ..) = e;` at statement position -> `let (vdaK_0, vdaK_1, ..) = e; p0 = vdaK_0; p1 = vdaK_1; ..`
    (`_` places stay `_` and get no assignment). Text surgery by token positions, last statement first."""
    toks = tokenize(s)
    found = []
    for i, t in enumerate(toks):
        if not (t.kind == 'op' and t.text == '(' and i > 0 and toks[i - 1].kind == 'op' and toks[i - 1].text in (';', '{', '}')):
            continue
        d = 0
        j = i
        while j < len(toks):
            if toks[j].kind == 'op' and toks[j].text in OPEN:
                d += 1
            elif toks[j].kind == 'op' and toks[j].text in CLOSE:
                d -= 1
                if d == 0:
                    break
            j += 1
        if j + 1 >= len(toks) or not (toks[j + 1].kind == 'op' and toks[j + 1].text == '='):
            continue
        # places: split at depth-1 commas
        places = []
        d = 0
        cur = i + 1
        for k in range(i, j + 1):
            x = toks[k]
            if x.kind == 'op' and x.text in OPEN:
                d += 1
            elif x.kind == 'op' and x.text in CLOSE:
                d -= 1
            if (x.kind == 'op' and x.text == ',' and d == 1) or k == j:
                if k > cur:
                    places.append(s[toks[cur].start:toks[k - 1].end])
                cur = k + 1
        # end of statement
        d = 0
        e = j + 2
        while e < len(toks):
            x = toks[e]
            if x.kind == 'op' and x.text in OPEN:
                d += 1
            elif x.kind == 'op' and x.text in CLOSE:
                d -= 1
            elif x.kind == 'op' and x.text == ';' and d == 0:
                break
            e += 1
        found.append((i, j, e, places))
    for n, (i, j, e, places) in reversed(list(enumerate(found))):
        names = ['_' if pl.strip() == '_' else 'vda%d_%d' % (n, q) for q, pl in enumerate(places)]
        head = 'let (' + ', '.join(names) + ')'
        tail = ''.join(' %s = %s;' % (pl, nm) for pl, nm in zip(places, names) if nm != '_')
        s = s[:toks[i].start] + head + s[toks[j].end:toks[e].end] + tail + s[toks[e].end:]
    return s


def erase_tokens(fn_text):
    """Tokens of a woven fn after deleting marked lines."""
    lines = [ln for ln in fn_text.split('\n') if MARK not in ln]
    return [t.text for t in tokenize('\n'.join(lines))]


def source_tokens(fn_src, cfg, rename=None, ret_name=None, debug_assert_verus=True, vis="pub ", revloops=None, lebytes=False, destruct=False, localconst=False, nestedret=None, fwdloops=None):
    """Tokens the erasure check expects: the raw slice with the documented
    transformations applied mechanically *on tokens* (independent code path
    from normalise_fn's text surgery)."""
    s = resolve_cfg(fn_src, cfg)
    toks = [t.text for t in tokenize(s)]
    fi = toks.index('fn')
    toks = (['pub'] if vis.strip() else []) + toks[fi:]
    if rename:
        toks[2 if vis.strip() else 1] = rename
    if ret_name:
        depth = 0
        arrow = None
        body = None
        for i, t in enumerate(toks):
            if t in ('(', '['):
                depth += 1
            elif t in (')', ']'):
                depth -= 1
            elif t == '->' and depth == 0:
                arrow = i
            elif t == '{' and depth == 0:
                body = i
                break
        k = arrow + 1
        while k < body and toks[k] != 'where':
            k += 1
        toks = toks[:arrow + 1] + ['(', ret_name, ':'] + toks[arrow + 1:k] + [')'] + toks[k:]
    if debug_assert_verus:
        toks = ['assert' if t in ('debug_assert!', 'assert!') else t for t in toks]
    k = 0
    for i in range(len(toks) - 2):
        if toks[i] == 'for' and toks[i + 1] == '_' and toks[i + 2] == 'in':
            toks[i + 1] = 'vloop%d' % k
            k += 1
    if lebytes:
        out = []
        i = 0
        while i < len(toks):
            if (toks[i] in ('u16', 'u32', 'u64', 'u128') and i + 2 < len(toks) and toks[i + 1] == '::'
                    and toks[i + 2] in ('from_le_bytes', 'from_be_bytes')):
                out.append(toks[i] + '_' + toks[i + 2])
                i += 3
            elif toks[i] == '.' and i + 1 < len(toks) and toks[i + 1] in ('to_le_bytes', 'to_be_bytes'):
                out += ['.', 'v' + toks[i + 1]]
                i += 2
            else:
                out.append(toks[i])
                i += 1
        toks = out
    if revloops:
        def _bound(j):
            # a bound is one token, or a parenthesised group without nested parentheses
            if toks[j] == '(':
                e = j + 1
                while toks[e] != ')':
                    if toks[e] == '(':
                        return None, None
                    e += 1
                return toks[j:e + 1], e + 1
            return [toks[j]], j + 1
        out = []
        i = 0
        k = 0
        while i < len(toks):
            done = False
            if toks[i] == 'for' and i + 4 < len(toks) and toks[i + 2] == 'in' and toks[i + 3] == '(':
                a, j = _bound(i + 4)
                if a is not None and toks[j] == '..':
                    b, j2 = _bound(j + 1)
                    if b is not None and toks[j2:j2 + 6] == [')', '.', 'rev', '(', ')', '{']:
                        v = toks[i + 1]
                        n = 'vrev%d' % k
                        k += 1
                        out += ['let', 'mut', n, ':', revloops, '='] + b + [';', 'while', n, '>'] + a + ['{', n, '=', n, '-', '1', ';',
                                'let', v, '=', n, ';']
                        i = j2 + 6
                        done = True
            if not done:
                out.append(toks[i])
                i += 1
        toks = out
    if fwdloops:
        def _fb(j):
            if toks[j] == '(':
                e = j + 1
                while toks[e] != ')':
                    if toks[e] == '(':
                        return None, None
                    e += 1
                return toks[j:e + 1], e + 1
            if re.match(r'^\w+$', toks[j]):
                return [toks[j]], j + 1
            return None, None
        out = []
        i = 0
        k = 0
        while i < len(toks):
            done = False
            if toks[i] == 'for' and i + 3 < len(toks) and toks[i + 2] == 'in' and re.match(r'^\w+$', toks[i + 1]):
                a, j = _fb(i + 3)
                if a is not None and j < len(toks) and toks[j] == '..':
                    b, j2 = _fb(j + 1)
                    if b is not None and toks[j2] == '{':
                        v = toks[i + 1]
                        n = 'vfor%d' % k
                        k += 1
                        out += ['let', 'mut', n, ':', fwdloops, '='] + a + [';', 'while', n, '<'] + b + ['{', 'let', v, '=', n, ';', n, '=', n, '+', '1', ';']
                        i = j2 + 1
                        done = True
            if not done:
                out.append(toks[i])
                i += 1
        toks = out
    if destruct:
        out = []
        i = 0
        n = 0
        while i < len(toks):
            if toks[i] == '(' and out and out[-1] in (';', '{', '}'):
                d = 0
                j = i
                while True:
                    if toks[j] in ('(', '[', '{'):
                        d += 1
                    elif toks[j] in (')', ']', '}'):
                        d -= 1
                        if d == 0:
                            break
                    j += 1
                if toks[j + 1] == '=':
                    places = [[]]
                    d = 0
                    for t in toks[i + 1:j]:
                        if t in ('(', '[', '{'):
                            d += 1
                        elif t in (')', ']', '}'):
                            d -= 1
                        if t == ',' and d == 0:
                            places.append([])
                        else:
                            places[-1].append(t)
                    places = [pl for pl in places if pl]
                    names = ['_' if pl == ['_'] else 'vda%d_%d' % (n, q) for q, pl in enumerate(places)]
                    n += 1
                    out += ['let', '(']
                    for q, nm in enumerate(names):
                        if q:
                            out.append(',')
                        out.append(nm)
                    out.append(')')
                    e = j + 1
                    d = 0
                    while not (toks[e] == ';' and d == 0):
                        if toks[e] in ('(', '[', '{'):
                            d += 1
                        elif toks[e] in (')', ']', '}'):
                            d -= 1
                        e += 1
                    out += toks[j + 1:e + 1]
                    for pl, nm in zip(places, names):
                        if nm != '_':
                            out += pl + ['=', nm, ';']
                    i = e + 1
                    continue
            out.append(toks[i])
            i += 1
        toks = out
    if localconst:
        b0 = toks.index('{')
        for i in range(b0 + 1, len(toks) - 2):
            if toks[i] == 'const' and toks[i - 1] in (';', '{', '}') and toks[i + 2] == ':' and re.match(r'^[A-Za-z_]\w*$', toks[i + 1]):
                toks[i] = 'let'
    if nestedret:
        out = []
        i = 0
        seen = 0
        while i < len(toks):
            if toks[i] == 'fn':
                seen += 1
                if seen > 1:
                    d = 0
                    j = i
                    arrow = None
                    while True:
                        if toks[j] in ('(', '['):
                            d += 1
                        elif toks[j] in (')', ']'):
                            d -= 1
                        elif toks[j] == '->' and d == 0:
                            arrow = j
                        elif toks[j] == '{' and d == 0:
                            break
                        j += 1
                    if arrow is not None:
                        out += toks[i:arrow + 1] + ['(', nestedret, ':'] + toks[arrow + 1:j] + [')']
                        i = j
                        continue
            out.append(toks[i])
            i += 1
        toks = out
    return toks


def _stmt_positions(toks, body_open, body_close):
    """Yield (stmt_first_tok_index, stmt_end_tok_index_inclusive) for every
    `let` statement anywhere in the body, plus loops."""
    lets = []
    loops = []
    i = body_open + 1
    n = body_close
    while i < n:
        t = toks[i]
        if t.kind == 'id' and t.text == 'let':
            # find terminating ';' at relative depth 0
            d = 0
            j = i
            while j < n:
                x = toks[j]
                if x.kind == 'op' and x.text in OPEN:
                    d += 1
                elif x.kind == 'op' and x.text in CLOSE:
                    d -= 1
                elif x.kind == 'op' and x.text == ';' and d == 0:
                    break
                j += 1
            # pattern idents: between let and first '=' (or ':' ) at depth 0
            d = 0
            k = i + 1
            names = []
            while k < j:
                x = toks[k]
                if x.kind == 'op' and x.text in OPEN:
                    d += 1
                elif x.kind == 'op' and x.text in CLOSE:
                    d -= 1
                elif x.kind == 'op' and x.text in ('=', ':') and d == 0:
                    break
                elif x.kind == 'id' and x.text not in ('mut', 'ref', '_'):
                    names.append(x.text)
                k += 1
            lets.append((i, j, names))
            i += 1
            continue
        if t.kind == 'id' and t.text in ('for', 'while', 'loop'):
            # header up to `{` at depth 0
            d = 0
            j = i + 1
            while j < n:
                x = toks[j]
                if x.kind == 'op' and x.text in ('(', '['):
                    d += 1
                elif x.kind == 'op' and x.text in (')', ']'):
                    d -= 1
                elif x.kind == 'op' and x.text == '{' and d == 0:
                    break
                j += 1
            loops.append((i, j))
        i += 1
    return lets, loops


def weave(fn_text, spec=None, hints=()):
    """fn_text: normalised fn.  spec: text inserted between signature and body.
    hints: list of (anchor, text). Anchors:
       ('start',) ('end',) ('let', name, k) ('loop', k) ('line', substr, k)
       ('before_line', substr, k)
    Insertions are whole marked lines."""
    toks = tokenize(fn_text)
    depth = 0
    body_open = None
    for i, t in enumerate(toks):
        if t.kind == 'op' and t.text in ('(', '['):
            depth += 1
        elif t.kind == 'op' and t.text in (')', ']'):
            depth -= 1
        elif t.kind == 'op' and t.text == '{' and depth == 0:
            body_open = i
            break
    body_close = match_close(toks, body_open)
    lets, loops = _stmt_positions(toks, body_open, body_close)
    inserts = []  # (char_pos, text, newline_before)

    def after_line_end(pos):
        e = fn_text.find('\n', pos)
        return len(fn_text) if e < 0 else e + 1

    def line_start(pos):
        return fn_text.rfind('\n', 0, pos) + 1

    if spec:
        # put the `{` on its own line after the spec
        p = toks[body_open].start
        inserts.append((p, '\n' + _mark_lines(spec, "    "), 'spec'))
    for anchor, text in hints:
        kind = anchor[0]
        if kind == 'start':
            p = after_line_end(toks[body_open].end)
            if fn_text[toks[body_open].end:p].strip():
                raise SliceError("start anchor: code on the line of the opening brace")
            inserts.append((p, _mark_lines(text, "        "), 'h'))
        elif kind == 'end':
            # after the last top-level statement, i.e. before the tail expression (if any)
            d = 0
            last = None
            for j in range(body_open + 1, body_close):
                x = toks[j]
                if x.kind == 'op' and x.text in OPEN:
                    d += 1
                elif x.kind == 'op' and x.text in CLOSE:
                    d -= 1
                    if d == 0 and x.text == '}':
                        nx = toks[j + 1].text if j + 1 < body_close else None
                        if nx is None:
                            # block is the tail of the body: is it a statement (for/while/loop) or a value?
                            pass
                        elif nx not in (';', '.', '?', 'else', ')', ',', '+', '-', '*', '/', '&', '|', '^', '==', '!=', '<', '>', '<=', '>=', '&&', '||', 'as'):
                            last = j
                elif x.kind == 'op' and x.text == ';' and d == 0:
                    last = j
            if last is None:
                p = after_line_end(toks[body_open].end)
            else:
                p = after_line_end(toks[last].end)
            tail = fn_text[p:toks[body_close].start].strip()
            if tail and re.match(r'^(for|while|loop)\b', tail) and tail.endswith('}'):
                # body ends with a loop statement and no tail expression
                p = line_start(toks[body_close].start)
            inserts.append((p, _mark_lines(text, "        "), 'h'))
        elif kind == 'let':
            name, k = anchor[1], anchor[2]
            cands = [(i, j) for (i, j, names) in lets if name in names]
            if k >= len(cands):
                raise SliceError("lost anchor: let %s #%d" % (name, k))
            j = cands[k][1]
            p = after_line_end(toks[j].end)
            if fn_text[toks[j].end:p].strip():
                raise SliceError("anchor let %s #%d: statement does not end its line" % (name, k))
            inserts.append((p, _mark_lines(text, "        "), 'h'))
        elif kind == 'loop':
            k = anchor[1]
            if k >= len(loops):
                raise SliceError("lost anchor: loop #%d" % k)
            j = loops[k][1]
            p = toks[j].start
            inserts.append((p, '\n' + _mark_lines(text, "            ") + "        ", 'loop'))
        elif kind in ('line', 'before_line'):
            sub, k = anchor[1], anchor[2]
            pos = -1
            for _ in range(k + 1):
                pos = fn_text.find(sub, pos + 1)
                if pos < 0:
                    raise SliceError("lost anchor: line %r #%d" % (sub, k))
            p = after_line_end(pos) if kind == 'line' else line_start(pos)
            inserts.append((p, _mark_lines(text, "        "), 'h'))
        elif kind == 'nested':
            name = anchor[1]
            q = None
            for j in range(body_open + 1, body_close - 1):
                if toks[j].kind == 'id' and toks[j].text == 'fn' and toks[j + 1].text == name:
                    d = 0
                    q = j
                    while not (toks[q].kind == 'op' and toks[q].text == '{' and d == 0):
                        if toks[q].kind == 'op' and toks[q].text in ('(', '['):
                            d += 1
                        elif toks[q].kind == 'op' and toks[q].text in (')', ']'):
                            d -= 1
                        q += 1
                    break
            if q is None:
                raise SliceError("lost anchor: nested fn %s" % name)
            inserts.append((toks[q].start, '\n' + _mark_lines(text, "            ") + "        ", 'spec'))
        else:
            raise SliceError("unknown anchor %r" % (anchor,))
    out = fn_text
    # equal positions: keep template order (later hints are inserted first so they end up after)
    for _idx, (p, text, _k) in sorted(enumerate(inserts), key=lambda x: (-x[1][0], -x[0])):
        out = out[:p] + text + out[p:]
    return out


def sha(s):
    return hashlib.sha256(s.encode()).hexdigest()[:16]
