"""One-off generator of proof hints for ModInt256::set_mul (three code paths of
Montgomery multiplication). Output is pasted into contracts/modint_monty.vrs;
never used at check time. All arithmetic is delegated to the isolated lemmas of
contracts/spec/lem_monty.vrs; the hints only capture values and call lemmas."""
import re, sys
sys.path.insert(0, '/verif')
from tools.gen_chain_hints import lets_of

IMPL = "impl<const M0: u64, const M1: u64, const M2: u64, const M3: u64> ModInt256<M0, M1, M2, M3>"
MARGS = "M0 as int, M1 as int, M2 as int, M3 as int"
WJ = ["1int", "lem_monty::w()", "lem_monty::w2()", "lem_monty::w3()"]


def gen_path(L, start, path):
    """L: let-list; start: index of the first statement of the path (`let (d0, hi) = umull(a0, b0);`).
    Returns (hints text, index after the path's rounds)."""
    out = []
    def at(name, occ, text):
        out.append("//@@at let %s %d\n%s" % (name, occ, text))
    i = start
    P = "p%d" % path
    for j in range(4):
        R = "%sr%d" % (P, j)
        # ---- A phase: four multiply-accumulate statements
        A = L[i:i + 4]
        pre = "let ghost (%s_o0, %s_o1, %s_o2, %s_o3) = (%s);" % (R, R, R, R,
              "0int, 0int, 0int, 0int" if j == 0 else "d0 as int, d1 as int, d2 as int, d3 as int")
        if j == 0:
            # snapshot right after the b-limbs are bound
            at("b3", 0 if path == 1 else 0, "") if False else None
        names = []
        for k, (stmt, nm, occ) in enumerate(A):
            m = re.match(r'^let \((\w+), (\w+)\) = (umull|umull_add|umull_add2)\((.*)\);$', stmt)
            lo, hi = m.group(1), m.group(2)
            names.append((lo, hi, occ))
        # top of old d (paths 2/3): carry word(s)
        if j > 0:
            snap_stmt = L[i - 1]  # statement ending previous round
        # emit snapshot of old d before the A phase: anchor = the statement just before A[0]
        prev_stmt, prev_names, prev_occ = L[i - 1]
        an = prev_names[-1] if prev_names[-1] != '_' else prev_names[0]
        old4 = {1: "0int", 2: "d4 as int", 3: "d4 as int"}[path] if j > 0 else "0int"
        if j == 0:
            out.append("//@@at before_line \"let (d0, hi) = umull(a0, b0);\" %d\n" % (path - 1) +
                       "let ghost (dv_%s0, as_%s0, fs_%s0) = (0int, 0int, 0int);\n" % (P, P, P) +
                       "proof { assert(dv_%s0 * 1 == as_%s0 * bb + fs_%s0 * mm) by(nonlinear_arith) requires dv_%s0 == 0, as_%s0 == 0, fs_%s0 == 0; }\n" % ((P,) * 6) +
                       pre + ("\nlet ghost %s_o4 = 0int;" % R))
        else:
            at(an, prev_occ[an], pre + ("\nlet ghost %s_o4 = %s;" % (R, old4 if not (path == 1) else "0int")))
        caps = []
        for k, (lo, hi, occ) in enumerate(names):
            at(hi if hi != '_' else lo, occ[hi if hi != '_' else lo],
               "let ghost (%s_x%d, %s_h%d) = (%s as int, %s as int);" % (R, k, R, k, lo, hi))
        i += 4
        stmt = L[i][0]
        xtop = "%s_h3" % R   # value of word 4 after the A phase (before carries)
        extra = ""
        if path in (2, 3) and j > 0:
            # let (d4, _|d5) = addcarry_u64(hi, 0|d4, d4|0);
            s5, n5, o5 = L[i]
            cn = n5[0]
            if path == 2:
                extra = "let ghost %s_x4 = %s as int;" % (R, cn)
            else:
                extra = "let ghost (%s_x4, %s_x5) = (%s as int, %s as int);" % (R, R, n5[0], n5[1])
            at(cn, o5[cn], extra)
            i += 1
        # ---- f
        sf, nf, of = L[i]
        assert sf.startswith("let f ="), sf
        i += 1
        # ---- B phase
        s0, n0, o0 = L[i]          # let (_, hi) = umull_add(f, M0, d0);
        s1, n1, o1 = L[i + 1]
        s2, n2, o2 = L[i + 2]
        s3, n3, o3 = L[i + 3]
        i += 4
        at("f", of["f"],
           "let ghost %s_f = f as int;\nproof {\n    lem_monty::lemma_wrap_mul(d0, Self::M0I);\n    lem_monty::lemma_monty_f(%s_x0, M0 as int, Self::M0I as int, %s_f);\n}" % (R, R, R))
        at("hi", o0["hi"],
           "let ghost %s_g0 = hi as int;\nproof { lem_monty::lemma_low_zero(%s_f * (M0 as int) + %s_x0, %s_g0, %s_f * (M0 as int) + %s_x0 - %s_g0 * lem_monty::w()); }" % (R, R, R, R, R, R, R))
        at("d0", o1["d0"], "let ghost (%s_y0, %s_g1) = (d0 as int, hi as int);" % (R, R))
        at("d1", o2["d1"], "let ghost (%s_y1, %s_g2) = (d1 as int, hi as int);" % (R, R))
        at("d2", o3["d2"], "let ghost (%s_y2, %s_g3) = (d2 as int, hi as int);" % (R, R))
        # ---- top of the round
        tops = []
        if path == 1:
            st, nt, ot = L[i]   # let d3 = d4.wrapping_add(hi);
            i += 1
            topanchor = ("d3", ot["d3"])
        elif path == 2:
            st, nt, ot = L[i]   # let (d3, d4) = addcarry_u64(d4, hi, 0);
            i += 1
            topanchor = ("d3", ot["d3"])
        else:
            if j == 0:
                st, nt, ot = L[i]
                i += 1
                topanchor = ("d3", ot["d3"])
            else:
                st, nt, ot = L[i]       # let (d3, cc) = addcarry_u64(d4, hi, 0);
                st2, nt2, ot2 = L[i + 1]  # let (d4, _) = addcarry_u64(d5 as u64, 0, cc);
                i += 2
                topanchor = ("d4", ot2["d4"])
        x4 = "%s_h3" % R if (path == 1 or j == 0) else "%s_x4" % R
        x5 = "0int" if not (path == 3 and j > 0) else "%s_x5" % R
        dold = "(lem_monty::val4(%s_o0, %s_o1, %s_o2, %s_o3) + %s_o4 * lem_monty::w4())" % (R, R, R, R, R)
        body = []
        body.append("let ghost %s_dnew = lem_monty::val4(%s_y0, %s_y1, %s_y2, %s_g3 + %s) + (%s) * lem_monty::w4();" % (R, R, R, R, R, x4, x5))
        body.append("let ghost dv_%s%d = %s_dnew;" % (P, j + 1, R))
        body.append("let ghost as_%s%d = as_%s%d + (a%d as int) * %s;" % (P, j + 1, P, j, j, WJ[j]))
        body.append("let ghost fs_%s%d = fs_%s%d + %s_f * %s;" % (P, j + 1, P, j, R, WJ[j]))
        wjn = WJ[j + 1] if j < 3 else "lem_monty::w4()"
        summ = ("0 <= dv_%s%d < 2 * mm && dv_%s%d * %s == as_%s%d * bb + fs_%s%d * mm" % (P, j + 1, P, j + 1, wjn, P, j + 1, P, j + 1))
        if path == 1:
            summ += " && d3 as int == %s_g3 + %s && dv_%s%d == lem_monty::val4(d0 as int, d1 as int, d2 as int, d3 as int)" % (R, x4, P, j + 1)
        else:
            summ += " && dv_%s%d == lem_monty::val4(d0 as int, d1 as int, d2 as int, d3 as int) + (d4 as int) * lem_monty::w4()" % (P, j + 1)
        body.append("proof {")
        body.append("  assert(%s) by {" % summ)
        body.append("    lem_monty::lemma_madd(%s_o0, %s_o1, %s_o2, %s_o3, a%d as int, b0 as int, b1 as int, b2 as int, b3 as int, %s_x0, %s_h0, %s_x1, %s_h1, %s_x2, %s_h2, %s_x3, %s_h3);" % ((R,) * 4 + (j,) + (R,) * 8))
        body.append("    lem_monty::lemma_mred(%s_x0, %s_x1, %s_x2, %s_x3, %s_f, %s, %s_g0, %s_y0, %s_g1, %s_y1, %s_g2, %s_y2, %s_g3);" % ((R,) * 5 + (MARGS,) + (R,) * 7))
        body.append("    lem_monty::lemma_dist4(a%d as int, b0 as int, b1 as int, b2 as int, b3 as int);" % j)
        body.append("    lem_monty::lemma_dist4(%s_f, %s);" % (R, MARGS))
        body.append("    assert(dv_%s%d == %s);" % (P, j, dold))
        if path == 2 and j > 0:
            body.append("    lem_monty::lemma_abound(dv_%s%d, a%d as int, bb, mm, lem_monty::val4(%s_x0, %s_x1, %s_x2, %s_x3), %s_h3 + %s_o4);" % (P, j, j, R, R, R, R, R, R))
            body.append("    assert(%s == %s_h3 + %s_o4);" % (x4, R, R))
        if path == 3 and j > 0:
            body.append("    assert(%s + (%s) * lem_monty::w() == %s_h3 + %s_o4);" % (x4, x5, R, R))
        body.append("    assert(%s_dnew * lem_monty::w() == dv_%s%d + (a%d as int) * bb + %s_f * mm);" % (R, P, j, j, R))
        body.append("    lem_monty::lemma_mbound(dv_%s%d, a%d as int, bb, %s_f, mm, %s_dnew);" % (P, j, j, R, R))
        body.append("    lem_monty::lemma_macc(dv_%s%d, %s_dnew, a%d as int, %s_f, as_%s%d, fs_%s%d, bb, mm, %s);" % (P, j, R, j, R, P, j, P, j, WJ[j]))
        body.append("    assert(%s * lem_monty::w() == %s);" % (WJ[j], wjn))
        if path == 1:
            body.append("    lem_monty::lemma_wrap_add(d4, hi);")
        else:
            body.append("    assert(d3 as int + (d4 as int) * lem_monty::w() == %s_g3 + %s + (%s) * lem_monty::w());" % (R, x4, x5))
        body.append("  }")
        body.append("}")
        post = []
        at(topanchor[0], topanchor[1], "\n".join(body + post))
    return "\n".join(out), i


def gen_final(path, cc0, wocc, docc, asg_occ):
    """cc0: occurrence index of the first `let (_, cc)` borrow; wocc: occurrence of `let w`;
    docc: occurrence index of the result `let (d0, cc)`; asg_occ: occurrence of `self.0[3] = d3;`"""
    P = "p%d" % path
    F = "%sf" % P
    out = []
    out.append("//@@at before_line \"let (_, cc) = subborrow_u64(d0, M0, 0);\" %d\n" % (path - 1) +
               "let ghost (%s_t0, %s_t1, %s_t2, %s_t3) = (d0 as int, d1 as int, d2 as int, d3 as int);\n" % ((F,) * 4) +
               "let ghost %s_t4 = %s;\n" % (F, "0int" if path == 1 else "d4 as int") +
               "proof { assert(dv_%s4 == lem_monty::val4(%s_t0, %s_t1, %s_t2, %s_t3) + %s_t4 * lem_monty::w4()); assert(0 <= %s_t4 <= 1) by { assert(dv_%s4 < 2 * mm); } }" % (P, F, F, F, F, F, F, P))
    prev = "0int"
    for k in range(4):
        out.append("//@@at let cc %d\nlet ghost %s_c%d = cc as int;\nproof { assert(%s_c%d == (if %s_t%d - (M%d as int) - %s < 0 { 1int } else { 0int })); }" % (cc0 + k, F, k, F, k, F, k, k, prev))
        prev = "%s_c%d" % (F, k)
    nb = 4
    if path == 3:
        out.append("//@@at let cc %d\nlet ghost %s_c4 = cc as int;\nproof { assert(%s_c4 == (if %s_t4 - %s_c3 < 0 { 1int } else { 0int })); }" % (cc0 + 4, F, F, F, F))
        nb = 5
    sel = {1: "%s_c3 == 0" % F, 2: "%s_t4 == %s_c3" % (F, F), 3: "%s_c4 == 0" % F}[path]
    wproof = "lem_monty::lemma_borrow4(%s_t0, %s_t1, %s_t2, %s_t3, %s, %s_c0, %s_c1, %s_c2, %s_c3);\n" % ((F,) * 4 + (MARGS,) + (F,) * 4)
    wproof += "    let low = lem_monty::val4(%s_t0, %s_t1, %s_t2, %s_t3);\n" % ((F,) * 4)
    if path == 1:
        wproof += "    assert(mm < lem_monty::w4());\n    assert((%s) == (low + %s_t4 * lem_monty::w4() >= mm));\n" % (sel, F)
    elif path == 2:
        wproof += "    lem_monty::lemma_xor_mask_u8(d4, cc);\n    lem_monty::lemma_sel2(low, %s_t4, mm, %s_c3);\n" % (F, F)
    else:
        wproof += "    lem_monty::lemma_sel3(low, %s_t4, mm, %s_c3, %s_c4);\n" % (F, F, F)
    wproof += "    assert(w == (if %s { 0xFFFF_FFFF_FFFF_FFFFu64 } else { 0u64 }));" % sel
    out.append("//@@at let w %d\nlet ghost %s_sel: bool = %s;\nproof {\n    %s\n}" % (wocc, F, sel, wproof))
    for k in range(3):
        out.append("//@@at let d%d %d\nlet ghost (%s_z%d, %s_b%d) = (d%d as int, cc as int);" % (k, docc, F, k, F, k, k))
    out.append("//@@at line \"self.0[3] = d3;\" %d\n" % asg_occ +
               "proof {\n"
               "    let z3 = d3 as int;\n"
               "    let s0 = if %s_sel { M0 as int } else { 0int }; let s1 = if %s_sel { M1 as int } else { 0int }; let s2 = if %s_sel { M2 as int } else { 0int }; let s3 = if %s_sel { M3 as int } else { 0int };\n" % ((F,) * 4) +
               "    let b3 = if z3 == %s_t3 - s3 - %s_b2 { 0int } else { 1int };\n" % (F, F) +
               "    lem_monty::lemma_sub4(%s_t0, %s_t1, %s_t2, %s_t3, s0, s1, s2, s3, %s_z0, %s_z1, %s_z2, z3, %s_b0, %s_b1, %s_b2, b3);\n" % ((F,) * 10) +
               "    let low = lem_monty::val4(%s_t0, %s_t1, %s_t2, %s_t3);\n" % ((F,) * 4) +
               "    assert(lem_monty::val4(s0, s1, s2, s3) == (if %s_sel { mm } else { 0int }));\n" % F +
               "    lem_monty::lemma_csub(low, %s_t4, mm, %s_sel, %s_z0, %s_z1, %s_z2, z3, b3);\n" % ((F,) * 5) +
               "    let x = l4(self.0);\n"
               "    assert(x == lem_monty::val4(%s_z0, %s_z1, %s_z2, z3));\n" % ((F,) * 3) +
               "    let dv = dv_%s4;\n" % P +
               "    let k = if %s_sel { 1int } else { 0int };\n" % F +
               "    assert(as_%s4 == aa);\n" % P +
               "    assert(lem_monty::w3() * lem_monty::w() == p256());\n"
               "    assert(dv * p256() == aa * bb + fs_%s4 * mm);\n" % P +
               "    assert(x * p256() == aa * bb + (fs_%s4 - k * p256()) * mm) by(nonlinear_arith)\n" % P +
               "        requires dv * p256() == aa * bb + fs_%s4 * mm, x == dv - k * mm;\n" % P +
               "    lem_monty::lemma_mfinal(x, p256(), aa * bb, fs_%s4, k, mm);\n" % P +
               "}")
    return "\n".join(out) + "\n"


if __name__ == "__main__":
    L = lets_of("src/backend/w64/modint.rs", IMPL, "set_mul")
    txt, nxt = gen_path(L, 2, 1)
    print(txt)
    print("// NEXT", nxt, L[nxt][0])
