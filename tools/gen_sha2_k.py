"""gen_sha2_k: prints the spec functions kt32 / kt64 (FIPS 180-4 sections 4.2.2 / 4.2.3 round constants) appended to
contracts/spec/sha2_fips.vrs, computed from their definition (fractional parts of cube roots of the first primes)."""
# K constants of FIPS 180-4 sections 4.2.2 / 4.2.3 computed from their definition: first 32 (64) bits of the
# fractional parts of the cube roots of the first 64 (80) primes.  Independent of the crrl source.
def primes(n):
    out=[];k=2
    while len(out)<n:
        if all(k%p for p in out): out.append(k)
        k+=1
    return out
def icbrt(n):
    lo,hi=0,1
    while hi**3<=n: hi*=2
    while lo<hi-1:
        m=(lo+hi)//2
        if m**3<=n: lo=m
        else: hi=m
    return lo
def K(n,bits):
    return [icbrt(p<<(3*bits)) & ((1<<bits)-1) for p in primes(n)]
def isqrt(n):
    import math; return math.isqrt(n)

def chain(name, ty, vals, fmt):
    s="#[verifier::opaque]\npub open spec fn %s(t: int) -> %s {\n" % (name, ty)
    for i,v in enumerate(vals):
        s+="    %sif t == %d { %s }\n" % ("" if i==0 else "else ", i, fmt%v)
    s+="    else { 0 }\n}\n"
    return s
if __name__=="__main__":
    print(chain("kt32","u32",K(64,32),"0x%08Xu32")+chain("kt64","u64",K(80,64),"0x%016Xu64"),end="")
