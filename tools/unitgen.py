"""unitgen: turn a contract template (contracts/*.vrs) plus the current /repo
sources into one self-contained Verus file, and run the erasure check.

Template directives (each on its own line, starting at column 0 or indented):

  //@@include <relative path>          textual include of another template file
  //@@fn <file> | <impl header or -> | <fn name> [| opt ...]
        opts:  as=<newname>  ret=<name>  nth=<k>  trusted  cfg=<cfgname>
               props=C01,C05  case=<case id>[,<case id>..]  spec=<key>
               src=expanded   (slice from the macro-expanded crate instead)
               extraction transformations (documented in rsx.TRANSFORMS): keepconst  revloops=<T>  fwdloops=<T>
               lebytes  destruct  localconst  nestedret=<r>  nodecreases  nested  macroinst=<macro>@<file>[#k]
  //@@spec                              lines until next //@@ directive: contract header
  //@@at start|end|let <name> <k>|loop <k>|line "<text>" <k>|before_line "<text>" <k>|nested <fn>
        (nested <fn>: contract header of the fn item <fn> nested in the body; with opt nestedret=<r> its
         result is named <r>)
                                        lines until next directive: woven hint
  //@@endfn
  //@@item <file> | <kind> | <name> [| pubfields | limbs | w64args | opaque | specinit | nested | nth=<k> | macroinst=..]
                                        verbatim struct/const/static/type slice

`trusted` emits the function with #[verifier::external_body] and the same
contract text: this is a *use* of a contract; the driver pairs it with the unit
that proves it (same fn key, same spec sha) or lists it as an assumption.
"""
import os, re, json, sys
from . import rsx

REPO = os.environ.get("VERIF_REPO", "/repo")
ROOT = os.path.dirname(os.path.dirname(os.path.abspath(__file__)))

CFGS = {
    # x86_64 host, default features, carry primitives taken from their portable arms
    "portable": dict(portable=True),
    "host": dict(),
    "m51": dict(portable=True, features=rsx.DEFAULT_FEATURES | {"gf255_m51"}),
}


def get_cfg(name):
    return rsx.Cfg(name=name, **CFGS[name])


_src_cache = {}


def read_src(path):
    full = os.path.join(REPO, path) if not os.path.isabs(path) else path
    if full not in _src_cache:
        with open(full) as f:
            _src_cache[full] = f.read()
    return _src_cache[full]


def macro_instance(src, spec):
    """`macroinst=<macro>@<file>[#k]`: return the text of `src` (the file that defines macro_rules! <macro>) with the
    metavariables of the macro's single arm replaced by the argument tokens of the k-th invocation `<macro>!(..)` found in
    <file> - what rustc's macro expansion does for `$name:ident` / `$name:expr` fragments. Both the parameter names and
    the arguments are read from the sources, not from the template. Only arms without repetitions are supported."""
    m = re.match(r'^(\w+)@([^#]+)(?:#(\d+))?$', spec)
    if not m:
        raise rsx.SliceError("bad macroinst %r" % spec)
    name, ifile, k = m.group(1), m.group(2), int(m.group(3) or 0)
    hm = re.search(r'macro_rules!\s*' + re.escape(name) + r'\s*\{\s*\(([^)]*)\)\s*=>', src)
    if not hm:
        raise rsx.SliceError("macro_rules! %s not found" % name)
    params = re.findall(r'\$(\w+)\s*:\s*\w+', hm.group(1))
    if '$(' in hm.group(1):
        raise rsx.SliceError("macro %s uses repetitions: not supported" % name)
    isrc = read_src(ifile)
    calls = [c for c in re.finditer(r'(?<![\w!])' + re.escape(name) + r'!\s*[\(\{\[]', isrc)]
    calls = [c for c in calls if not re.search(r'macro_rules!\s*$', isrc[:c.start()])]
    if k >= len(calls):
        raise rsx.SliceError("invocation #%d of %s! not found in %s" % (k, name, ifile))
    st = calls[k].end()
    depth, i, args, cur = 1, st, [], ""
    while depth > 0:
        ch = isrc[i]
        if ch in '([{':
            depth += 1
        elif ch in ')]}':
            depth -= 1
            if depth == 0:
                break
        if ch == ',' and depth == 1:
            args.append(cur.strip()); cur = ""
        else:
            cur += ch
        i += 1
    if cur.strip():
        args.append(cur.strip())
    if len(args) != len(params):
        raise rsx.SliceError("%s!: %d arguments for %d parameters" % (name, len(args), len(params)))
    out = src
    for pn, av in sorted(zip(params, args), key=lambda x: -len(x[0])):
        out = re.sub(r'\$' + re.escape(pn) + r'\b', av, out)
    out = re.sub(r'\$crate\b', 'crate', out)
    return out


class FnEntry:
    def __init__(self):
        self.key = None          # file|impl|name
        self.file = None
        self.impl = None
        self.name = None
        self.emit_name = None
        self.trusted = False
        self.props = []
        self.cases = []
        self.spec = ""
        self.hints = []
        self.opts = {}
        self.src_line = None
        self.gen_lines = None    # (first, last) 1-based in generated file
        self.slice_sha = None
        self.spec_sha = None


def _parse_anchor(rest):
    rest = rest.strip()
    m = re.match(r'^(start|end)$', rest)
    if m:
        return (m.group(1),)
    m = re.match(r'^let\s+(\w+)(?:\s+(\d+))?$', rest)
    if m:
        return ('let', m.group(1), int(m.group(2) or 0))
    m = re.match(r'^loop\s+(\d+)$', rest)
    if m:
        return ('loop', int(m.group(1)))
    m = re.match(r'^(line|before_line)\s+"(.*)"(?:\s+(\d+))?$', rest)
    if m:
        return (m.group(1), m.group(2), int(m.group(3) or 0))
    m = re.match(r'^nested\s+(\w+)$', rest)
    if m:
        return ('nested', m.group(1))
    raise ValueError("bad anchor: %r" % rest)


def _expand_macros(lines):
    """//@@template NAME ... //@@endtemplate defines a block; //@@use NAME a=b c=d
    instantiates it with $a / $c replaced (in a value, `~` stands for a blank)."""
    tpl = {}
    out = []
    cur = None
    for ln in lines:
        m = re.match(r'^\s*//@@template\s+(\w+)', ln)
        if m:
            cur = m.group(1)
            tpl[cur] = []
            continue
        if re.match(r'^\s*//@@endtemplate', ln):
            cur = None
            continue
        if cur is not None:
            tpl[cur].append(ln)
            continue
        out.append(ln)
    # expand uses repeatedly (templates may use other templates)
    for _round in range(8):
        changed = False
        nxt = []
        for ln in out:
            m = re.match(r'^\s*//@@use\s+(\w+)\s*(.*)$', ln)
            if m and m.group(1) in tpl:
                # values cannot contain blanks: `~` stands for one
                args = dict((kv.split('=', 1)[0], kv.split('=', 1)[1].replace('~', ' ')) for kv in m.group(2).split())
                for t in tpl[m.group(1)]:
                    for k in sorted(args, key=len, reverse=True):
                        t = t.replace('$' + k, args[k])
                    nxt.append(t)
                changed = True
            else:
                nxt.append(ln)
        out = nxt
        if not changed:
            break
    return out


def _load_template(path, seen=None):
    top = seen is None
    r = _load_template0(path, seen)
    return _expand_macros(r) if top else r


def _load_template0(path, seen=None):
    seen = seen or set()
    out = []
    with open(path) as f:
        for ln in f.read().split('\n'):
            m = re.match(r'^\s*//@@include\s+(\S+)', ln)
            if m:
                inc = os.path.join(ROOT, "contracts", m.group(1))
                if inc in seen:
                    continue
                seen.add(inc)
                out.extend(_load_template0(inc, seen))
            else:
                out.append(ln)
    return out


class Unit:
    def __init__(self, name):
        self.name = name
        self.text = ""
        self.fns = []
        self.errors = []     # extraction/weaving problems (=> undecided)
        self.erasure_ok = True
        self.template = None


def generate(name, expanded_src=None):
    """Generate unit `name` from contracts/<name>.vrs. Returns Unit."""
    u = Unit(name)
    tpath = os.path.join(ROOT, "contracts", name + ".vrs")
    u.template = tpath
    lines = _load_template(tpath)
    out = []          # list of text chunks (each ends with \n)
    default_cfg = "portable"
    i = 0
    cur = None
    mode = None       # None | 'spec' | ('at', anchor)
    buf = []

    def flush():
        nonlocal buf, mode
        if cur is None:
            buf = []
            return
        text = '\n'.join(buf)
        if mode == 'spec':
            cur.spec += text + '\n'
        elif isinstance(mode, tuple):
            cur.hints.append((mode[1], text))
        buf = []
        mode = None

    def lineno():
        return sum(c.count('\n') for c in out) + 1

    while i < len(lines):
        ln = lines[i]
        m = re.match(r'^\s*//@@(\w+)\s*(.*)$', ln)
        if not m:
            if cur is not None and mode is not None:
                buf.append(ln)
            elif cur is not None:
                if ln.strip():
                    raise ValueError("%s: stray text inside //@@fn block: %r" % (tpath, ln))
            else:
                out.append(ln + '\n')
            i += 1
            continue
        d, rest = m.group(1), m.group(2)
        if d == 'cfg':
            default_cfg = rest.strip()
        elif d == 'fn':
            flush()
            parts = [p.strip() for p in rest.split('|')]
            cur = FnEntry()
            cur.file, cur.impl, cur.name = parts[0], parts[1], parts[2]
            for o in parts[3:]:
                if '=' in o:
                    k, v = o.split('=', 1)
                    cur.opts[k.strip()] = v.strip()
                elif o:
                    cur.opts[o] = True
            cur.trusted = bool(cur.opts.get('trusted'))
            cur.props = [p for p in cur.opts.get('props', '').split(',') if p]
            cur.cases = [p for p in cur.opts.get('case', '').split(',') if p]
            cur.emit_name = cur.opts.get('as', cur.name)
            cur.key = "%s|%s|%s" % (cur.file, cur.impl, cur.name)
            if 'cfg' in cur.opts:
                cur.key += "|" + cur.opts['cfg']
        elif d == 'spec':
            flush()
            mode = 'spec'
        elif d == 'at':
            flush()
            mode = ('at', _parse_anchor(rest))
        elif d == 'endfn':
            flush()
            e = cur
            cur = None
            try:
                cfg = get_cfg(e.opts.get('cfg', default_cfg))
                if e.opts.get('src') == 'expanded':
                    src = expanded_src()
                    srcname = "<expanded>"
                else:
                    src = read_src(e.file)
                    srcname = e.file
                    if e.opts.get('macroinst'):
                        src = macro_instance(src, e.opts['macroinst'])
                within = None
                if e.impl not in ('-', ''):
                    blocks = rsx.find_impl_blocks(src, e.impl, anydepth=bool(e.opts.get('nested')))
                    if not blocks:
                        raise rsx.SliceError("impl block %r not found in %s" % (e.impl, srcname))
                    found = None
                    for b in blocks:
                        try:
                            found = rsx.find_fn(src, e.name, int(e.opts.get('nth', 0)), within=b)
                            break
                        except rsx.SliceError:
                            continue
                    if not found:
                        raise rsx.SliceError("fn %s not found in impl %r of %s" % (e.name, e.impl, srcname))
                    s, t = found
                else:
                    # free function: pick the nth whose cfg attributes hold
                    k = 0
                    want = int(e.opts.get('nth', 0))
                    sel = None
                    while True:
                        try:
                            s, t = rsx.find_fn(src, e.name, k)
                        except rsx.SliceError:
                            break
                        frag = src[s:t]
                        if rsx.resolve_cfg(frag, cfg).strip():
                            if want == 0:
                                sel = (s, t)
                                break
                            want -= 1
                        k += 1
                    if not sel:
                        raise rsx.SliceError("free fn %s (cfg %s) not found in %s" % (e.name, cfg.name, srcname))
                    s, t = sel
                raw = src[s:t]
                e.src_line = src.count('\n', 0, s) + 1
                e.slice_sha = rsx.sha(raw)
                e.spec_sha = rsx.sha(rsx.norm(e.spec))
                ret = e.opts.get('ret')
                rename = e.opts.get('as')
                vis = '' if ' for ' in (' ' + e.impl + ' ') and e.impl not in ('-', '') else 'pub '
                text, _ = rsx.normalise_fn(raw, cfg, rename=rename, ret_name=ret, vis=vis, revloops=e.opts.get('revloops'), lebytes=bool(e.opts.get('lebytes')), destruct=bool(e.opts.get('destruct')), localconst=bool(e.opts.get('localconst')), nestedret=e.opts.get('nestedret'), fwdloops=e.opts.get('fwdloops'))
                if e.trusted:
                    # signature + spec only; body replaced by unimplemented!()
                    toks = rsx.tokenize(text)
                    depth = 0
                    for k2, tk in enumerate(toks):
                        if tk.kind == 'op' and tk.text in ('(', '['):
                            depth += 1
                        elif tk.kind == 'op' and tk.text in (')', ']'):
                            depth -= 1
                        elif tk.kind == 'op' and tk.text == '{' and depth == 0:
                            sig = text[:tk.start]
                            break
                    woven = "#[verifier::external_body] " + rsx.MARK + "\n" + sig.rstrip() + "\n" + \
                        rsx._mark_lines(e.spec, "    ") + "{ unimplemented!() } " + rsx.MARK + "\n"
                else:
                    woven = rsx.weave(text, spec=e.spec if e.spec.strip() else None, hints=e.hints)
                    if e.opts.get('nodecreases'):
                        # termination of the function's loops is NOT proved (marked line: erased by the erasure check)
                        woven = "#[verifier::exec_allows_no_decreases_clause] " + rsx.MARK + "\n" + woven
                    # erasure check
                    got = rsx.erase_tokens(woven)
                    want_toks = rsx.source_tokens(raw, cfg, rename=rename, ret_name=ret, vis=vis, revloops=e.opts.get('revloops'), lebytes=bool(e.opts.get('lebytes')), destruct=bool(e.opts.get('destruct')), localconst=bool(e.opts.get('localconst')), nestedret=e.opts.get('nestedret'), fwdloops=e.opts.get('fwdloops'))
                    if got != want_toks:
                        u.erasure_ok = False
                        # find first difference
                        k3 = 0
                        while k3 < min(len(got), len(want_toks)) and got[k3] == want_toks[k3]:
                            k3 += 1
                        u.errors.append("erasure mismatch in %s at token %d: got %r want %r" % (
                            e.key, k3, got[k3:k3 + 6], want_toks[k3:k3 + 6]))
                first = lineno()
                # indent to 4 spaces for readability
                out.append(woven if woven.endswith('\n') else woven + '\n')
                e.gen_lines = (first, lineno() - 1)
                u.fns.append(e)
            except (rsx.SliceError, ValueError, StopIteration) as ex:
                u.errors.append("extract %s: %s" % (e.key, ex))
                u.fns.append(e)
        elif d == 'item':
            parts = [p.strip() for p in rest.split('|')]
            try:
                src = read_src(parts[0])
                for po in parts[3:]:
                    if po.startswith('macroinst='):
                        src = macro_instance(src, po[len('macroinst='):])
                nth_item = 0
                for po in parts[3:]:
                    if po.startswith('nth='):
                        nth_item = int(po[4:])
                s, t = rsx.find_item(src, parts[1], parts[2], nth=nth_item)
                cfg = get_cfg(default_cfg)
                txt = rsx.resolve_cfg(src[s:t], cfg)
                mder = re.search(r'#\[derive\(([^)]*)\)\]', src[s:t])
                if mder and 'Clone' in mder.group(1) and 'Copy' in mder.group(1):
                    txt = "#[derive(Clone, Copy)]\n" + txt.lstrip()
                # visibility normalised to `pub` (same transformation as for functions)
                txt = txt.replace("pub(crate)", "pub")
                txt = re.sub(r'^(\s*)const ', r'\1pub const ', txt)
                txt = re.sub(r'(?m)^(\s*)(struct|type|enum) ', r'\1pub \2 ', txt, count=1)
                if len(parts) > 3 and 'pubfields' in parts[3:]:
                    # private fields would make the datatype opaque to specifications: named fields and the
                    # single field of a tuple struct get `pub` (visibility only; types and order unchanged)
                    txt = re.sub(r'(?m)^(\s+)([A-Za-z_]\w*\s*:)', r'\1pub \2', txt)
                    txt = re.sub(r'(struct\s+\w+(?:<[^>]*>)?\s*\()\s*(?!pub)', r'\1pub ', txt)
                if len(parts) > 3 and 'w64args' in parts[3:]:
                    # const NAME: T = T::w64be(l3,l2,l1,l0) / w64le(l0,l1,l2,l3), T in Montgomery representation: the value is
                    # opaque to Verus (compile-time conversion); the literal limbs are exported as a spec function
                    # NAME_w64() == l0 + l1*2^64 + l2*2^128 + l3*2^192 so that contracts name the integer the source names
                    mm = re.search(r'\b\w+::(w64be|w64le)\(([^()]*)\)', txt)
                    if not mm:
                        raise rsx.SliceError("const %s: no w64be/w64le initialiser" % parts[2])
                    a = [x.strip() for x in mm.group(2).split(',') if x.strip()]
                    if len(a) != 4 or not all(re.match(r'^[0-9A-Fa-fxX_]+(u64)?$', x) for x in a):
                        raise rsx.SliceError("const %s: w64be/w64le arguments are not four literals" % parts[2])
                    if mm.group(1) == 'w64be':
                        a = a[::-1]
                    txt = "#[verifier::external_body] " + rsx.MARK + "\n" + txt.lstrip() + "\n" + \
                        "pub open spec fn %s_w64() -> int { v4(%s) } %s\n" % (parts[2], ", ".join(a), rsx.MARK)
                if len(parts) > 3 and 'specinit' in parts[3:]:
                    # associated const with an arithmetic initialiser over const generics (its overflow check is the compiler's:
                    # a bad instantiation does not compile): opaque constant + the initialiser text as a spec function over
                    # mathematical integers + the declared link between the two when the value is in range
                    mm = re.match(r'^\s*(?:pub\s+)?const\s+(\w+)\s*:\s*(\w+)\s*=\s*(.*?);\s*$', txt, re.S)
                    if not mm:
                        raise rsx.SliceError("const %s: cannot parse initialiser" % parts[2])
                    nm, ty, init = mm.group(1), mm.group(2), " ".join(mm.group(3).split())
                    txt = "#[verifier::external_body] " + rsx.MARK + "\n" + txt.lstrip() + "\n" + \
                        "pub open spec fn %s_init() -> int { %s } %s\n" % (nm, init, rsx.MARK) + \
                        "#[verifier::external_body] %s\npub proof fn axiom_%s() ensures 0 <= Self::%s_init() <= %s::MAX ==> Self::%s as int == Self::%s_init() {} %s\n" % (
                            rsx.MARK, nm, nm, ty, nm, nm, rsx.MARK)
                if len(parts) > 3 and 'opaque' in parts[3:]:
                    # the initialiser calls an exec fn (compile-time evaluation): keep the text, make the value opaque to Verus
                    txt = "#[verifier::external_body] " + rsx.MARK + "\n" + txt.lstrip()
                if len(parts) > 3 and 'limbs' in parts[3:]:
                    # const initialised by w64be/w64le with literal limbs -> tuple-struct literal
                    # (w64be/w64le are proved in the same unit to build exactly that array)
                    def _be(m):
                        a = [x.strip() for x in m.group(2).split(',') if x.strip()]
                        if len(a) != 4 or not all(re.match(r'^[0-9A-Fa-fxX_]+(u64)?$', x) for x in a):
                            raise rsx.SliceError("const %s: w64be/w64le arguments are not four literals" % parts[2])
                        if m.group(1) == 'w64be':
                            a = a[::-1]
                        return "GF255([%s])" % ", ".join(a)
                    txt = re.sub(r'\b\w+::(w64be|w64le)\(([^()]*)\)', _be, txt)
                out.append(txt + '\n')
            except rsx.SliceError as ex:
                u.errors.append("item %s: %s" % (rest, ex))
        else:
            raise ValueError("%s: unknown directive //@@%s" % (tpath, d))
        i += 1
    u.text = ''.join(out)
    return u


def fn_at_line(u, line):
    for e in u.fns:
        if e.gen_lines and e.gen_lines[0] <= line <= e.gen_lines[1]:
            return e
    return None


if __name__ == "__main__":
    u = generate(sys.argv[1])
    sys.stdout.write(u.text)
    for e in u.errors:
        sys.stderr.write("ERROR " + e + "\n")
