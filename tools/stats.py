"""Counts quoted in DESIGN.md section 1: registered Verus units, function instances under contract (proved from
their bodies, i.e. not `trusted`), distinct source functions."""
import sys, os
sys.path.insert(0, os.path.dirname(os.path.dirname(os.path.abspath(__file__))))
from tools import registry, unitgen
units = sorted({x[0] for p in registry.PROPS.values() for x in p.get("verus", [])})
inst, distinct, trusted = 0, set(), 0
for u in units:
    g = unitgen.generate(u)
    for e in g.fns:
        if e.trusted:
            trusted += 1
            continue
        inst += 1
        distinct.add((e.file, e.impl, e.name))
print("units", len(units), "function instances proved", inst, "distinct source functions", len(distinct), "declared (trusted) instances", trusted)
