# Generator of contracts/spec/gfgen_sq.vrs (explicit sums for the 7-limb squaring of define_gfgen, instance ed448::Scalar). Run: python3 tools/gen_gfgen_sq.py
# generates /verif/contracts/spec/gfgen_sq.vrs
def us(v):
    h='%X'%v; r=''
    while h: r='_'+h[-4:]+r; h=h[:-4]
    return '0x'+r[1:]+'int'
out=[]
w=out.append
w("// ---- GENERATED (tables of explicit sums; see the agent report): lemmas for Scalar::set_square (define_gfgen, special squaring path),")
w("// instance ed448::Scalar: N = 7, product on 14 limbs. Proved. Needs spec/gfgen_spec.vrs, spec/gfgen_small.vrs (kmul), spec/wide.vrs (pr, p512). ----")
for k in range(9,15):
    w("pub open spec fn p%d() -> int { %s }"%(64*k, us(1<<(64*k))))
names=['1','p64()','p128()','p192()','p256()','p320()','p384()','p448()','p512()']+['p%d()'%(64*k) for k in range(9,15)]
w("pub open spec fn pw14(k: int) -> int {\n    "+' else '.join("if k %s %d { %s }"%('<=' if k==0 else '==',k,names[k]) for k in range(14))+" else { %s }\n}"%names[14])
w("#[verifier::opaque]\npub open spec fn pre14(a: [u64; 14], k: int) -> int {\n    "+' + '.join("(if k > %d { (a[%d] as int) * %s } else { 0 })"%(j,j,names[j]) for j in range(14))+"\n}")
w("#[verifier::opaque]\npub open spec fn cw14(c: int, k: int) -> int { c * pw14(k) }")
w("pub open spec fn same_from14(s: [u64; 14], o: [u64; 14], k: int) -> bool { forall|j: int| k <= j < 14 ==> #[trigger] s[j] == o[j] }")
w("pub open spec fn upd_at14(s1: [u64; 14], s0: [u64; 14], k: int) -> bool { forall|j: int| 0 <= j < 14 && j != k ==> #[trigger] s1[j] == s0[j] }")
w("pub open spec fn zeros_from14(s: [u64; 14], k: int) -> bool { forall|j: int| k <= j < 14 ==> #[trigger] s[j] == 0 }")
w("""pub proof fn lemma_pw14_next(k: int)
    requires 0 <= k < 14,
    ensures pw14(k + 1) == p64() * pw14(k), pw14(k) > 0,
{
    assert("""+' && '.join("p64() * %s == %s"%(names[k],names[k+1]) for k in range(14))+""") by(compute_only);
}
pub proof fn lemma_pre14_bound(a: [u64; 14], k: int)
    requires 0 <= k <= 14,
    ensures 0 <= pre14(a, k) < pw14(k), pre14(a, 0) == 0,
{
    reveal(pre14);
}
pub proof fn lemma_cw14_ends(c: int)
    ensures cw14(c, 0) == c, cw14(c, 14) == c * p896(), cw14(c, 7) == c * p448(),
{
    reveal(cw14);
}
pub proof fn lemma_cw14_add(a: int, b: int, k: int)
    ensures cw14(a + b, k) == cw14(a, k) + cw14(b, k), cw14(0, k) == 0,
{
    reveal(cw14);
    let p = pw14(k);
    assert((a + b) * p == a * p + b * p) by(nonlinear_arith);
}
pub proof fn lemma_pre14_ext(x: [u64; 14], k: int)
    requires 0 <= k < 14,
    ensures pre14(x, k + 1) == pre14(x, k) + cw14(x[k] as int, k),
{
    reveal(pre14); reveal(cw14);
}
pub proof fn lemma_pre14_zeros(x: [u64; 14], k: int, k2: int)
    requires 0 <= k <= k2 <= 14, zeros_from14(x, k),
    ensures pre14(x, k2) == pre14(x, k),
{
    reveal(pre14);
}
pub proof fn lemma_pre14_same(x: [u64; 14], y: [u64; 14], k: int)
    requires 0 <= k <= 14, forall|j: int| 0 <= j < k ==> x[j] == y[j],
    ensures pre14(x, k) == pre14(y, k),
{
    reveal(pre14);
}
// one step of a limb loop on the 14-limb array: limb k <- lo, lo + hi * 2^64 == t + c0
pub proof fn lemma_step14(s0: [u64; 14], s1: [u64; 14], k: int, c0: int, lo: int, hi: int, t: int)
    requires 0 <= k < 14, lo + hi * p64() == t + c0, s1[k] as int == lo, upd_at14(s1, s0, k),
    ensures pre14(s1, k + 1) + cw14(hi, k + 1) == pre14(s0, k) + cw14(c0, k) + cw14(t, k),
            pre14(s1, k) == pre14(s0, k),
{
    reveal(pre14); reveal(cw14);
    let pw = pw14(k);
    lemma_pw14_next(k);
    assert(lo * pw + hi * (p64() * pw) == t * pw + c0 * pw) by(nonlinear_arith) requires lo + hi * p64() == t + c0;
    assert(pre14(s1, k) == pre14(s0, k));
    assert(pre14(s1, k + 1) == pre14(s1, k) + (s1[k] as int) * pw);
}""")
# crossp
pairs=[(i,l) for i in range(7) for l in range(i+1,7)]
w("// sum of the cross products a[i'] * a[l] * 2^(64 (i' + l)), i' < l, taken in the order of the loops: rows i' < i complete, row i up to column j (exclusive)")
w("#[verifier::opaque]\npub open spec fn crossp(a: [u64; 7], i: int, j: int) -> int {\n    "+'\n    + '.join("(if %d < i || (%d == i && %d < j) { pr(a[%d], a[%d]) * %s } else { 0 })"%(ip,ip,l,ip,l,names[ip+l]) for ip,l in pairs)+"\n}")
w("""pub proof fn lemma_crossp_step(a: [u64; 7], i: int, j: int)
    requires 0 <= i < j < 7,
    ensures crossp(a, i, j + 1) == crossp(a, i, j) + cw14(pr(a[i], a[j]), i + j),
{
    reveal(crossp); reveal(cw14);
}
pub proof fn lemma_crossp_row(a: [u64; 7], i: int)
    requires 0 <= i < 6,
    ensures crossp(a, i, 7) == crossp(a, i + 1, i + 2), crossp(a, 0, 1) == 0, crossp(a, 5, 7) == crossp(a, 6, 7),
{
    reveal(crossp);
}""")
w("// sum of the squares a[l]^2 * 2^(128 l), l < i")
w("#[verifier::opaque]\npub open spec fn sqp(a: [u64; 7], i: int) -> int {\n    "+' + '.join("(if %d < i { pr(a[%d], a[%d]) * %s } else { 0 })"%(l,l,l,names[2*l]) for l in range(7))+"\n}")
w("""pub proof fn lemma_sqp_step(a: [u64; 7], i: int)
    requires 0 <= i < 7,
    ensures sqp(a, i + 1) == sqp(a, i) + cw14(pr(a[i], a[i]), 2 * i), sqp(a, 0) == 0,
{
    reveal(sqp); reveal(cw14);
}""")
# square expansion
bs=['b%d'%i for i in range(7)]
w("pub proof fn lemma_sq_poly("+', '.join(b+': int' for b in bs)+")\n    ensures ("+' + '.join(bs)+") * ("+' + '.join(bs)+")\n        == "+' + '.join('%s * %s'%(b,b) for b in bs)+"\n        + 2 * ("+' + '.join('%s * %s'%(bs[i],bs[l]) for i,l in pairs)+"),\n{")
w("    let s = "+' + '.join(bs)+";")
w("    assert(s * s == "+' + '.join('%s * s'%b for b in bs)+") by(nonlinear_arith) requires s == "+' + '.join(bs)+";")
for b in bs:
    w("    assert(%s * s == "%b+' + '.join('%s * %s'%(b,c) for c in bs)+") by(nonlinear_arith) requires s == "+' + '.join(bs)+";")
for i,l in pairs:
    w("    assert(%s * %s == %s * %s) by(nonlinear_arith);"%(bs[l],bs[i],bs[i],bs[l]))
w("}")
w("pub proof fn lemma_prod_pw(x: int, y: int, p: int, q: int, pq: int)\n    requires pq == p * q,\n    ensures (x * p) * (y * q) == (x * y) * pq,\n{\n    assert((x * p) * (y * q) == (x * y) * (p * q)) by(nonlinear_arith);\n}")
w("// A^2 == 2 * (all cross products) + (all squares)")
w("pub proof fn lemma_square_expand(a: [u64; 7])\n    ensures l7(a) * l7(a) == 2 * crossp(a, 6, 7) + sqp(a, 7),\n{")
w("    reveal(l7); reveal(crossp); reveal(sqp);")
for i in range(7):
    w("    let b%d = (a[%d] as int) * %s;"%(i,i,names[i]))
w("    lemma_sq_poly("+', '.join(bs)+");")
w("    assert("+' && '.join("%s * %s == %s"%(names[i],names[l],names[i+l]) for i in range(7) for l in range(i,7))+") by(compute_only);")
for i in range(7):
    for l in range(i,7):
        w("    lemma_prod_pw(a[%d] as int, a[%d] as int, %s, %s, %s);"%(i,l,names[i],names[l],names[i+l]))
w("    assert(l7(a) == "+' + '.join(bs)+");")
w("}")
w("""pub proof fn lemma_modq_mul_l(a: int, b: int)
    ensures modq(modq(a) * b) == modq(a * b),
{
    reveal(modq);
    vstd::arithmetic::div_mod::lemma_mul_mod_noop_left(a, b, lq());
}
// the 14-limb array as low half + high half * 2^448
pub proof fn lemma_split14(t: [u64; 14], lo: [u64; 7], hi: [u64; 7])
    requires forall|j: int| 0 <= j < 7 ==> lo[j] == t[j] && hi[j] == t[7 + j],
    ensures pre14(t, 14) == l7(lo) + l7(hi) * p448(),
{
    reveal(pre14); reveal(l7);
    assert("""+' && '.join("p448() * %s == %s"%(names[k],names[k+7]) for k in range(7))+""") by(compute_only);
    let (h0, h1, h2, h3, h4, h5, h6) = (hi[0] as int, hi[1] as int, hi[2] as int, hi[3] as int, hi[4] as int, hi[5] as int, hi[6] as int);
    assert((h0 + h1 * p64() + h2 * p128() + h3 * p192() + h4 * p256() + h5 * p320() + h6 * p384()) * p448()
        == h0 * p448() + h1 * p512() + h2 * p576() + h3 * p640() + h4 * p704() + h5 * p768() + h6 * p832()) by(nonlinear_arith)
        requires """+', '.join("p448() * %s == %s"%(names[k],names[k+7]) for k in range(7))+""";
}
// doubling step: (w << 1) | c with the bit shifted out
pub proof fn lemma_dbl_bits(w: u64, c: u64)
    requires c <= 1,
    ensures ((w << 1) | c) as int + ((w >> 63) as int) * p64() == 2 * (w as int) + c as int, (w >> 63) <= 1,
{
    assert(c <= 1 ==> ((w << 1) | c) as u128 + ((w >> 63) as u128) * 0x1_0000_0000_0000_0000u128 == 2 * (w as u128) + c as u128) by(bit_vector);
    assert((w >> 63) <= 1) by(bit_vector);
}
pub proof fn lemma_cw14_split(lo: int, hi: int, v: int, k: int)
    requires 0 <= k < 14, lo + hi * p64() == v,
    ensures cw14(lo, k) + cw14(hi, k + 1) == cw14(v, k),
{
    reveal(cw14);
    lemma_pw14_next(k);
    let p = pw14(k);
    assert(lo * p + hi * (p64() * p) == v * p) by(nonlinear_arith) requires lo + hi * p64() == v;
}
// bounds: a < L  ==>  a^2 < 2^892 and the high half of the square is below L
pub proof fn lemma_sq_bound(a: int, lo: int, hi: int)
    requires 0 <= a < lq(), a * a == lo + hi * p448(), 0 <= lo < p448(), 0 <= hi,
    ensures hi < lq(),
{
    assert(a * a <= (lq() - 1) * (lq() - 1)) by(nonlinear_arith) requires 0 <= a <= lq() - 1;
}
pub proof fn lemma_sq_nocarry(a: int, v: int, c: int)
    requires 0 <= a < lq(), v + c * p896() == a * a, 0 <= v, c == 0 || c == 1,
    ensures c == 0,
{
    assert(a * a <= (lq() - 1) * (lq() - 1)) by(nonlinear_arith) requires 0 <= a <= lq() - 1;
}
// result: m * R == lo (mod L), r == m + hi (mod L)  ==>  r * R == lo + hi * R == a^2 (mod L)
pub proof fn lemma_sq_final(r: int, m: int, lo: int, hi: int, aa: int)
    requires modq(m * p448()) == modq(lo), r == modq(m + hi), aa == lo + hi * p448(),
    ensures modq(r * p448()) == modq(aa),
{
    lemma_modq_mul_l(m + hi, p448());
    assert((m + hi) * p448() == m * p448() + hi * p448()) by(nonlinear_arith);
    lemma_modq_add(m * p448(), hi * p448());
    lemma_modq_add(lo, hi * p448());
}""")
open('/verif/contracts/spec/gfgen_sq.vrs','w').write('\n'.join(out)+'\n')
