"""gen_keccak_hints: writes contracts/spec/keccak_fips.vrs (FIPS 202 section 3 at lane level; rho offsets and round
constants computed from their definitions in the standard), contracts/spec/keccak_hints.vrs (generated lemmas) and
contracts/keccak_f.vrs (the unit) for KeccakState::process in src/sha3.rs.

How the hints are obtained: the loop body of `process` (two rounds per iteration, lanes 1, 2, 8, 12, 17, 20 kept
complemented, in-place slot permutation) is executed symbolically, statement by statement, on lane symbols; the FIPS
round is expanded on the same symbols; the slot layout / complement pattern after each round is found by running both
on random numbers.  None of this is trusted: Verus re-proves (a) that the real body computes the code-shaped
expressions (preconditions of lemma_round1/2 at the call sites), (b) that they equal the expanded FIPS expressions
(per-lane by(bit_vector) lemmas), (c) that the expanded expressions are krnd() of the specification (lemma_krnd_lanes).
Run once when the unit is written:  python3 -m tools.gen_keccak_hints
"""
import re, random
M=(1<<64)-1
import os
REPO=os.environ.get('VERIF_REPO','/repo')
ROOT=os.path.dirname(os.path.dirname(os.path.abspath(__file__)))
src=open(os.path.join(REPO,'src/sha3.rs')).read()
# RC from the FIPS 202 LFSR definition (Algorithm 5 / 6)
def rc_bit(t):
    if t%255==0: return 1
    R=[1,0,0,0,0,0,0,0]
    for i in range(1,t%255+1):
        R=[0]+R
        R[0]^=R[8]; R[4]^=R[8]; R[5]^=R[8]; R[6]^=R[8]
        R=R[:8]
    return R[0]
def RCdef(ir):
    v=0
    for j in range(7):
        v|=rc_bit(j+7*ir)<<((1<<j)-1)
    return v
RC=[RCdef(i) for i in range(24)]
def rotl(v,n):
    n%=64
    return ((v<<n)|(v>>(64-n)))&M if n else v
# rho offsets from the definition (Algorithm 2)
def rho_offsets():
    off=[0]*25
    x,y=1,0
    for t in range(24):
        off[x+5*y]=((t+1)*(t+2)//2)%64
        x,y=y,(2*x+3*y)%5
    return off
OFF=rho_offsets()
def rnd(s,ir):
    C=[s[x]^s[x+5]^s[x+10]^s[x+15]^s[x+20] for x in range(5)]
    D=[C[(x-1)%5]^rotl(C[(x+1)%5],1) for x in range(5)]
    a=[s[i]^D[i%5] for i in range(25)]
    b=[rotl(a[i],OFF[i]) for i in range(25)]
    p=[0]*25
    for x in range(5):
        for y in range(5):
            p[x+5*y]=b[(x+3*y)%5+5*x]
    c=[p[x+5*y]^((~p[(x+1)%5+5*y])&M&p[(x+2)%5+5*y]) for y in range(5) for x in range(5)]
    c[0]^=RC[ir]
    return c
def keccak_f(s):
    for ir in range(24): s=rnd(s,ir)
    return s
# ---- the loop body of process(), as statements
body=src[src.index("for i in 0..12 {"):src.index("// Invert some words back")]
lines=[l.strip() for l in body.split('\n')[1:]]
stmts=[l for l in lines if l and not l.startswith('let') and not l.startswith('//') and l!='}']
def ev(expr,env,A,i):
    e=expr
    e=re.sub(r'A\[\s*(\d+)\]',lambda m:'A[%s]'%m.group(1),e)
    e=e.replace('Self::RC','RCT').replace('!','~')
    v=eval(e,{'A':A,'RCT':RC_src,'i':i,**env})
    return v&M
RC_src=[int(x,16) for x in re.findall(r'0x[0-9A-Fa-f]{16}',src[src.index('const RC'):src.index('fn new')])]
def run_body(A,i,upto=None,trace=None):
    env={}
    for n,st in enumerate(stmts):
        if upto is not None and n>=upto: break
        m=re.match(r'^(.*?)\s*(\^=|=)\s*(.*);$',st)
        lhs,op,rhs=m.group(1),m.group(2),m.group(3)
        val=ev(rhs,env,A,i)
        ma=re.match(r'A\[\s*(\d+)\]',lhs)
        if ma:
            k=int(ma.group(1))
            A[k]=(A[k]^val) if op=='^=' else val
        else:
            env[lhs]=(env[lhs]^val) if op=='^=' else val
    return A,env
INV=[1,2,8,12,17,20]
def process(s):
    A=list(s)
    for k in INV: A[k]^=M
    for i in range(12): A,_=run_body(A,i)
    for k in INV: A[k]^=M
    return A

# generator for the Keccak unit: symbolic execution of the loop body of KeccakState::process (from /repo at
# generation time) and of the FIPS 202 round; emits the lemma texts and the woven hints.

def rot(e,n):
    return e if n==0 else "((%s << %d) | (%s >> (64 - %d)))"%(e,n,e,n)
# ---------- spec side (FIPS 202 lane level), expanded to an expression over lane symbols
def spec_exprs(sl, rc):
    C=lambda x:"(%s ^ %s ^ %s ^ %s ^ %s)"%(sl(x),sl(x+5),sl(x+10),sl(x+15),sl(x+20))
    D=lambda x:"(%s ^ %s)"%(C((x+4)%5),rot(C((x+1)%5),1))
    TH=lambda k:"(%s ^ %s)"%(sl(k),D(k%5))
    RHO=lambda k:rot(TH(k),OFF[k])
    PI=lambda x,y:RHO((x+3*y)%5+5*x)
    out=[]
    for j in range(25):
        x,y=j%5,j//5
        e="(%s ^ (!%s & %s))"%(PI(x,y),PI((x+1)%5,y),PI((x+2)%5,y))
        if j==0: e="(%s ^ %s)"%(e,rc)
        out.append(e)
    return out
# ---------- code side: symbolic execution of a statement range
def par(v):
    v=v.strip()
    if re.match(r'^\w+$',v): return v
    if v[0]=='(':
        d=0
        for i,ch in enumerate(v):
            if ch=='(': d+=1
            elif ch==')':
                d-=1
                if d==0: break
        if i==len(v)-1: return v
    return "(%s)"%v
def sym_exec(stm, Ain, rcsym, tfreeze=True):
    A=list(Ain); env={}; texprs={}
    for st in stm:
        m=re.match(r'^(.*?)\s*(\^=|=)\s*(.*);$',st)
        lhs,op,rhs=m.group(1),m.group(2),m.group(3)
        def sub(tok):
            t=tok.group(0)
            return t
        e=rhs
        e=re.sub(r'Self::RC\[[^\]]*\]',rcsym,e)
        # tokenise
        out=[];i=0
        while i<len(e):
            ma=re.match(r'A\[\s*(\d+)\]',e[i:])
            if ma:
                out.append(A[int(ma.group(1))]); i+=ma.end(); continue
            mi=re.match(r'[A-Za-z_]\w*',e[i:])
            if mi:
                nm=mi.group(0)
                out.append(env[nm] if nm in env else nm); i+=mi.end(); continue
            out.append(e[i]); i+=1
        val=''.join(out)
        val=re.sub(r'\s+',' ',val)
        ma=re.match(r'A\[\s*(\d+)\]',lhs)
        if ma:
            k=int(ma.group(1))
            A[k]="(%s ^ %s)"%(A[k],par(val)) if op=='^=' else par(val)
        else:
            cur="(%s ^ %s)"%(env[lhs],par(val)) if op=='^=' else par(val)
            if tfreeze and re.match(r'^t[0-4]$',lhs):
                texprs[lhs]=cur; env[lhs]=lhs
            else:
                env[lhs]=cur
    return A,texprs
def find_layout(A,ref):
    out=[]
    for k in range(25):
        hit=[(j,c) for j in range(25) for c in (0,1) if A[k]==ref[j]^(M if c else 0)]
        assert len(hit)==1
        out.append(hit[0])
    return out
# numeric discovery of layouts
s=[random.getrandbits(64) for _ in range(25)]
A=list(s)
for k in INV: A[k]^=M
A1,_=run_body(list(A),0,upto=175); r1=rnd(s,0); L1=find_layout(A1,r1)
A2,_=run_body(list(A),0,upto=350); r2=rnd(r1,1); L2=find_layout(A2,r2)
A3,_=run_body(list(A),0); L3=find_layout(A3,r2)
L0=[(k,1 if k in INV else 0) for k in range(25)]
assert L3==L0
R1=stmts[:175]; R2=stmts[175:350]; MV=stmts[350:]
def enc(sym,lay):   # slot expressions for a layout
    return [("(!%s)"%sym(j)) if c else sym(j) for (j,c) in lay]

def chain(name, ty, vals, fmt, default):
    s="pub open spec fn %s(t: int) -> %s {\n" % (name, ty)
    for i,v in enumerate(vals):
        s+="    %sif t == %d { %s }\n" % ("" if i==0 else "else ", i, fmt%v)
    s+="    else { %s }\n}\n"%default
    return s
SPEC='''// ---- FIPS 202 section 3: the KECCAK-p[1600, 24] = KECCAK-f[1600] permutation, at lane level. ----
// The state is 25 lanes of w = 64 bits; lane (x, y) is element x + 5y of the sequence and bit z of the lane is the bit
// A[x, y, z] of the state array (section 3.1.2: A[x, y, z] = S[w(5y + x) + z]; with the byte conventions of Appendix B.1
// a lane is the little-endian 64-bit integer of its 8 bytes).  A step mapping that sends bit (z - n) mod w to bit z of a
// lane is the rotation of that lane to the left by n.
pub open spec fn rotl64(v: u64, n: u64) -> u64 { if n == 0 { v } else { (v << n) | (v >> ((64 - n) as u64)) } }
pub open spec fn klane(s: Seq<u64>, x: int, y: int) -> u64 { s[x + 5 * y] }
// 3.2.1 theta: C[x, z] = A[x, 0, z] ^ .. ^ A[x, 4, z]; D[x, z] = C[(x - 1) mod 5, z] ^ C[(x + 1) mod 5, (z - 1) mod w];
// A'[x, y, z] = A[x, y, z] ^ D[x, z]
pub open spec fn theta_c(s: Seq<u64>, x: int) -> u64 { klane(s, x, 0) ^ klane(s, x, 1) ^ klane(s, x, 2) ^ klane(s, x, 3) ^ klane(s, x, 4) }
pub open spec fn theta_d(s: Seq<u64>, x: int) -> u64 { theta_c(s, (x + 4) % 5) ^ rotl64(theta_c(s, (x + 1) % 5), 1) }
pub open spec fn theta(s: Seq<u64>) -> Seq<u64> { Seq::new(25, |i: int| s[i] ^ theta_d(s, i % 5)) }
// 3.2.2 rho: A'[x, y, z] = A[x, y, (z - (t + 1)(t + 2)/2) mod w] along (x, y) = (1, 0), (y, (2x + 3y) mod 5), .. for
// t = 0..23; lane (0, 0) is unchanged.  rho_off(x + 5y) is that offset mod 64 (computed from this recurrence)
'''+chain("rho_off","u64",OFF,"%du64","0u64")+'''pub open spec fn rho(s: Seq<u64>) -> Seq<u64> { Seq::new(25, |i: int| rotl64(s[i], rho_off(i))) }
// 3.2.3 pi: A'[x, y, z] = A[(x + 3y) mod 5, x, z]
pub open spec fn pi(s: Seq<u64>) -> Seq<u64> { Seq::new(25, |i: int| klane(s, (i % 5 + 3 * (i / 5)) % 5, i % 5)) }
// 3.2.4 chi: A'[x, y, z] = A[x, y, z] ^ ((A[(x + 1) mod 5, y, z] ^ 1) & A[(x + 2) mod 5, y, z])
pub open spec fn chi(s: Seq<u64>) -> Seq<u64> { Seq::new(25, |i: int| s[i] ^ (!klane(s, (i % 5 + 1) % 5, i / 5) & klane(s, (i % 5 + 2) % 5, i / 5))) }
// 3.2.5 iota: A'[0, 0, z] = A[0, 0, z] ^ RC[z], RC[2^j - 1] = rc(j + 7 ir) for j = 0..6 with rc the LFSR of Algorithm 5
// (the 24 constants below are computed from that definition)
'''+chain("rc_keccak","u64",RC,"0x%016Xu64","0u64")+'''pub open spec fn iota(s: Seq<u64>, ir: int) -> Seq<u64> { s.update(0, s[0] ^ rc_keccak(ir)) }
// 3.3: Rnd(A, ir) = iota(chi(pi(rho(theta(A)))), ir); KECCAK-f[1600] is the rounds ir = 0..23 in order
pub open spec fn krnd(s: Seq<u64>, ir: int) -> Seq<u64> { iota(chi(pi(rho(theta(s)))), ir) }
pub open spec fn krounds(s: Seq<u64>, n: int) -> Seq<u64>
    decreases n
{
    if n <= 0 { s } else { krnd(krounds(s, n - 1), n - 1) }
}
pub open spec fn keccak_f(st: Seq<u64>) -> Seq<u64> { krounds(st, 24) }
'''
def encpred(name, lay):
    conj=" && ".join("rd25(a, %d) == %s"%(k, ("(!s[%d])"%j) if c else "s[%d]"%j) for k,(j,c) in enumerate(lay))
    return "pub open spec fn %s(a: [u64; 25], s: Seq<u64>) -> bool { s.len() == 25 && %s }\n"%(name,conj)
def bv_lemmas(name, R, Lin, Lout):
    A,tex=sym_exec(R, enc(lambda j:"s%d"%j, Lin), "rc")
    sp=spec_exprs(lambda k:"s%d"%k,"rc")
    params=", ".join("s%d: u64"%k for k in range(25))+", rc: u64, "+", ".join("t%d: u64"%k for k in range(5))
    req=",\n        ".join("t%d == %s"%(k,tex['t%d'%k]) for k in range(5))
    out=""
    for k in range(25):
        j,c=Lout[k]
        out+="pub proof fn %s_%d(%s)\n    by(bit_vector)\n    requires\n        %s,\n    ensures\n        %s == %s,\n{}\n"%(name,k,params,req,A[k], ("(!%s)"%sp[j]) if c else sp[j])
    return out
def round_lemma(name, bvname, R, Lin, Lout, encout):
    A,tex=sym_exec(R, enc(lambda j:"s[%d]"%j, Lin), "rc")
    req=["s.len() == 25","0 <= ir < 24","rc == rc_keccak(ir)"]
    req+=["t%d == %s"%(k,tex['t%d'%k]) for k in range(5)]
    req+=["rd25(a, %d) == %s"%(k,A[k]) for k in range(25)]
    args=", ".join("s[%d]"%k for k in range(25))+", rc, t0, t1, t2, t3, t4"
    body="    lemma_krnd_lanes(s, ir);\n"+"".join("    %s_%d(%s);\n"%(bvname,k,args) for k in range(25))
    return "pub proof fn %s(s: Seq<u64>, ir: int, rc: u64, t0: u64, t1: u64, t2: u64, t3: u64, t4: u64, a: [u64; 25])\n    requires\n        %s,\n    ensures %s(a, krnd(s, ir)),\n{\n%s}\n"%(name,",\n        ".join(req),encout,body)
def call_hint(name):
    return "%s(S, IR, RCV, t0, t1, t2, t3, t4, A);"%name
def krnd_lanes():
    sp=spec_exprs(lambda k:"s[%d]"%k,"rc_keccak(ir)")
    ens=["krnd(s, ir).len() == 25"]+["krnd(s, ir)[%d] == %s"%(j,sp[j]) for j in range(25)]
    return "pub proof fn lemma_krnd_lanes(s: Seq<u64>, ir: int)\n    requires s.len() == 25,\n    ensures\n        %s,\n{\n    let th = theta(s); let rh = rho(th); let p = pi(rh); let c = chi(p);\n    assert(th.len() == 25 && rh.len() == 25 && p.len() == 25 && c.len() == 25);\n}\n"%(",\n        ".join(ens))
def moves_lemma():
    # slot k after the moves holds what slot src[k] held before
    slots=[str(k) for k in range(25)]
    A,_=sym_exec(MV, ["A%d"%k for k in range(25)], "rc", tfreeze=False)
    src=[int(A[k][1:]) for k in range(25)]
    req=["enc_ok2(a2, s)"]+["rd25(a3, %d) == rd25(a2, %d)"%(k,src[k]) for k in range(25)]
    return "pub proof fn lemma_moves(a2: [u64; 25], a3: [u64; 25], s: Seq<u64>)\n    requires\n        %s,\n    ensures enc_ok0(a3, s),\n{}\n"%(",\n        ".join(req)), src
if __name__=="__main__":
    open(os.path.join(ROOT,'contracts/spec/keccak_fips.vrs'),'w').write(SPEC)
    mv,src=moves_lemma()
    gen='''// ---- generated proof text (tools: symbolic execution of the loop body of KeccakState::process as found in src/sha3.rs when
// the unit was written, and of the FIPS 202 round of spec/keccak_fips.vrs): if the source changes these hints stop matching ----
pub open spec fn rd25(a: [u64; 25], i: int) -> u64 { array_index(a, i) }
// the working array holds the state with lanes 1, 2, 8, 12, 17, 20 complemented ("lane complementing"); after the first
// round of an iteration the lanes sit in permuted slots (enc_ok1), after the second in another permutation (enc_ok2)
'''+encpred("enc_ok0",L0)+encpred("enc_ok1",L1)+encpred("enc_ok2",L2)+krnd_lanes()+bv_lemmas("lemma_bv_r1",R1,L0,L1)+bv_lemmas("lemma_bv_r2",R2,L1,L2)+round_lemma("lemma_round1","lemma_bv_r1",R1,L0,L1,"enc_ok1")+round_lemma("lemma_round2","lemma_bv_r2",R2,L1,L2,"enc_ok2")+mv
    open(os.path.join(ROOT,'contracts/spec/keccak_hints.vrs'),'w').write(gen)
    mvassert=" ".join("assert(rd25(A, %d) == rd25(A2g, %d));"%(k,src[k]) for k in range(25))
    unit='''//@@include spec/prelude.vrs
verus! {
global size_of usize == 8;
//@@include spec/keccak_fips.vrs
//@@include spec/keccak_hints.vrs
//@@item src/sha3.rs | struct | KeccakState | pubfields
impl KeccakState {
//@@item src/sha3.rs | const | RC
// the table of the source is the table of the standard
pub proof fn lemma_rc()
    ensures forall|t: int| 0 <= t < 24 ==> #[trigger] Self::RC[t] == rc_keccak(t),
{}
//@@fn src/sha3.rs | impl KeccakState | process | props=C17 | case=hash_chunked@sha3_256
//@@spec
ensures final(self).0@ == keccak_f(old(self).0@),
//@@at let A 0
let ghost S0 = self.0@;
//@@at before_line "for i in 0..12" 0
proof {
    assert(enc_ok0(A, S0));
    assert(krounds(S0, 0) == S0);
}
//@@at loop 0
invariant
    S0 == old(self).0@, *self == *old(self), krounds(S0, 2 * i).len() == 25, enc_ok0(A, krounds(S0, 2 * i)),
//@@at line "let (mut c0, mut c1" 0
let ghost S = krounds(S0, 2 * i);
proof { Self::lemma_rc(); }
//@@at line "Self::RC[2 * i + 0]" 0
let ghost S1 = krnd(S, 2 * i);
proof { lemma_round1(S, 2 * i, Self::RC[2 * i + 0], t0, t1, t2, t3, t4, A); }
//@@at line "Self::RC[2 * i + 1]" 0
let ghost S2 = krnd(S1, 2 * i + 1);
proof { lemma_round2(S1, 2 * i + 1, Self::RC[2 * i + 1], t0, t1, t2, t3, t4, A); }
let ghost A2g = A;
//@@at line "A[ 7] = t;" 0
proof {
    '''+mvassert+'''
    lemma_moves(A2g, A, S2);
    assert(krounds(S0, 2 * i + 1) == S1);
    assert(krounds(S0, 2 * (i + 1)) == S2);
}
//@@at before_line "self.0 = A;" 0
proof {
    let f = krounds(S0, 24);
    assert(!(!f[1]) == f[1] && !(!f[2]) == f[2] && !(!f[8]) == f[8] && !(!f[12]) == f[12] && !(!f[17]) == f[17] && !(!f[20]) == f[20]) by {
        let (x1, x2, x8, x12, x17, x20) = (f[1], f[2], f[8], f[12], f[17], f[20]);
        assert(!(!x1) == x1 && !(!x2) == x2 && !(!x8) == x8 && !(!x12) == x12 && !(!x17) == x17 && !(!x20) == x20) by(bit_vector);
    }
    assert(A@ =~= f);
}
//@@endfn
}
}
fn main() {}
'''
    open(os.path.join(ROOT,'contracts/keccak_f.vrs'),'w').write(unit.replace('//@@at before_line "for i in 0..12" 0', '//@@at line "A[20] = !A[20];" 0'))
