"""Apply each seeded change to /repo, run the property's check, undo. Writes seeded/<id>/meta.json."""
import os, sys, json, subprocess, time, re
ROOT = os.path.dirname(os.path.dirname(os.path.abspath(__file__)))

def main():
    only = sys.argv[1:]
    tier = os.environ.get("SEED_TIER", "quick")
    rows = []
    for d in sorted(os.listdir(os.path.join(ROOT, "seeded"))):
        sd = os.path.join(ROOT, "seeded", d)
        if not os.path.isdir(sd) or (only and not any(o in d for o in only)):
            continue
        prop = d.split("-")[1]
        st = subprocess.run(["git", "-C", "/repo", "status", "--porcelain", "--untracked-files=no"], capture_output=True, text=True).stdout.strip()
        if st:
            print("refusing: /repo has local modifications"); return 1
        ap = subprocess.run(["git", "-C", "/repo", "apply", os.path.join(sd, "patch.diff")], capture_output=True, text=True)
        if ap.returncode != 0:
            print(d, "patch does not apply:", ap.stderr[:200]); continue
        t0 = time.time()
        try:
            p = subprocess.run([os.path.join(ROOT, "check"), prop, "--tier", tier], capture_output=True, text=True, cwd=ROOT, timeout=3600,
                               env=dict(os.environ, VERIF_EVIDENCE_DIR=os.path.join(ROOT, ".build", "seed-evidence")))
            out, rc = p.stdout, p.returncode
        finally:
            subprocess.run(["git", "-C", "/repo", "checkout", "--", "."])
        dt = time.time() - t0
        viol = [l for l in out.split("\n") if l.startswith("VIOLATION")]
        und = [l for l in out.split("\n") if l.startswith("UNDECIDED")]
        detail = []
        for v in viol:
            m = re.search(r'replay=(\S+)', v)
            if m and os.path.exists(m.group(1)):
                r = json.load(open(m.group(1)))
                detail.append(dict(line=v, case=r.get("case"), input=r.get("input_hex"), obligation=(r.get("obligation") or {}).get("function"),
                                   backend=(r.get("obligation") or {}).get("backend")))
        meta_p = os.path.join(sd, "meta.json")
        meta = json.load(open(meta_p)) if os.path.exists(meta_p) else {}
        notes = open(os.path.join(sd, "notes.txt")).read() if os.path.exists(os.path.join(sd, "notes.txt")) else ""
        meta.update(dict(id=d, breaks_property=prop,
                         needs=meta.get("needs") or notes[:1500],
                         confirmed="tools/seedcheck.sh: patch applies to /repo HEAD, full suite passes with it, demo fails with it and passes without it",
                         check_cmd="./check %s --tier %s" % (prop, tier), check_exit=rc, detected=(rc == 1),
                         violation_lines=viol, undecided=und[:3], detail=detail, wall_s=round(dt, 1)))
        json.dump(meta, open(meta_p, "w"), indent=1)
        print("%-10s %s exit=%d %s %s (%.0fs)" % (d, prop, rc, "DETECTED" if rc == 1 else "missed", "; ".join(x.get("obligation") or x.get("case") or "?" for x in detail)[:120], dt))
    return 0

if __name__ == "__main__":
    sys.exit(main())
